#define INOVESA_ALLOW_PS_RESET 1
#include "PS/ElectricField.hpp"
#include "Z/ConstImpedance.hpp"
#include "Z/FreeSpaceCSR.hpp"
#include <iostream>
#include <cstring>
using namespace vfps;
static std::shared_ptr<ElectricField> mk(std::shared_ptr<PhaseSpace> ps,size_t nmax,std::vector<uint32_t> b,size_t sp){
  auto z=std::make_shared<ConstImpedance>(nmax,1e9,impedance_t(1,0.5));
  z->operator+=(FreeSpaceCSR(nmax,1e6,1e12));
  return std::make_shared<ElectricField>(ps,z,b,sp,nullptr,1e6,0.1,1e-3,1e9,1e3,1e-3);
}
static bool same(const float*a,const float*b,size_t n){return std::memcmp(a,b,n*sizeof(float))==0;}
int main(int argc,char**argv){
  size_t sp=atoi(argv[1]); size_t nmax=atoi(argv[2]); const uint32_t n=32;
  std::vector<integral_t> bunches{0.75f,0.25f}; std::vector<uint32_t> buckets{2,1};
  PhaseSpace::resetSize(n,2);
  auto ps=std::make_shared<PhaseSpace>(-12,12,3,-12,12,4,nullptr,1,1,bunches);
  auto prof0=boost::multi_array<projection_t,2>(ps->getProjection(0));
  auto A=mk(ps,nmax,buckets,sp); A->wakePotential();
  std::vector<float> wfresh(A->getWakePotentials().data(),A->getWakePotentials().data()+2*n);
  auto B=mk(ps,nmax,buckets,sp); B->updateCSR(0);
  std::vector<float> cfresh(B->getCSRSpectrum(),B->getCSRSpectrum()+2*nmax);
  auto C=mk(ps,nmax,buckets,sp); C->updateCSR(0); C->wakePotential();
  std::cout<<"CSR-then-wake == fresh wake: "<<same(wfresh.data(),C->getWakePotentials().data(),2*n)<<"\n";
  auto D=mk(ps,nmax,buckets,sp); D->wakePotential(); D->updateCSR(0);
  std::cout<<"wake-then-CSR == fresh CSR : "<<same(cfresh.data(),D->getCSRSpectrum(),2*nmax)<<"\n";
  // F15: history of different profile then same
  auto E=mk(ps,nmax,buckets,sp);
  boost::multi_array<projection_t,1> mod(prof0[0]); for(size_t i=0;i<n;i++) mod[i]*= (1+0.3f*std::sin(0.7f*i));
  ps->setProjection(0,0,mod); E->wakePotential(); E->wakePotential();
  boost::multi_array<projection_t,1> orig(prof0[0]); ps->setProjection(0,0,orig); E->wakePotential();
  std::cout<<"wake after other-profile history == fresh: "<<same(wfresh.data(),E->getWakePotentials().data(),2*n)<<"\n";
  auto F=mk(ps,nmax,buckets,sp); F->wakePotential(); F->wakePotential(); F->wakePotential();
  std::cout<<"wake x3 same profile == fresh: "<<same(wfresh.data(),F->getWakePotentials().data(),2*n)<<"\n";
}
