#include <H5Cpp.h>
#include <iostream>
#include <vector>
int main(int argc,char**argv){ H5::H5File f(argv[1],H5F_ACC_RDONLY); H5::DataSet d=f.openDataSet(argv[2]); H5::DataSpace s=d.getSpace();
 int r=s.getSimpleExtentNdims(); std::vector<hsize_t> dims(r); s.getSimpleExtentDims(dims.data()); size_t n=1; std::cout<<"#"; for(auto x:dims){n*=x; std::cout<<" "<<x;} std::cout<<"\n";
 std::vector<double> v(n); d.read(v.data(),H5::PredType::NATIVE_DOUBLE); std::cout.precision(17); for(auto x:v) std::cout<<x<<"\n"; }
