#include "IO/ProgramOptions.hpp"
#include <iostream>
int main(){
  { std::ofstream c("c.cfg"); c<<"RFVoltage=1e6\nsteps=111\nSyncFreq=8000\n"; }
  const char* av[]={"x","-V","2e6","-N","222","-f","5000","--config","c.cfg"};
  vfps::ProgramOptions o; o.parse(9,const_cast<char**>(av));
  std::cout<<"V_RF="<<o.getRFVoltage()<<" steps="<<o.getStepsPerTsync()<<" fs="<<o.getSyncFreq()<<std::endl;
  { std::ofstream c("c2.cfg"); c<<"AcceleratingVoltage=1e6\nStepsPerTs=111\nSynchrotronFrequency=8000\n"; }
  const char* av2[]={"x","-V","2e6","-N","222","-f","5000","--config","c2.cfg"};
  vfps::ProgramOptions o2; o2.parse(9,const_cast<char**>(av2));
  std::cout<<"V_RF="<<o2.getRFVoltage()<<" steps="<<o2.getStepsPerTsync()<<" fs="<<o2.getSyncFreq()<<std::endl;
}
