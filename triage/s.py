import math
c=2.99792458e8; e=1.602e-19; eps0=8.854187817e-12; me=510998.9
def s_of(H, ps_bins=32,pq=12.0,f_rev=9e6,E0=1.3e9,sE=4.7e-4,V_RF=1e6,alpha0=4e-3):
    import numpy as np
    H=float(np.float32(H)); alpha0=float(np.float32(alpha0)); f_rev=float(np.float32(f_rev))
    R=c/(2*math.pi*f_rev); g=E0/me; V0=e*g**4/(3*eps0*R); Veff=math.sqrt(V_RF**2-V0**2)
    fs=f_rev*math.sqrt(alpha0*H*Veff/(2*math.pi*E0)); dE=sE*E0
    bl=c*dE/H/f_rev**2/Veff*fs
    bs=1.0/(f_rev*H)
    return ps_bins*(bs*c/bl/pq)
lo,hi=30000,40000
best=None
H=30000
while H<40000:
    s=s_of(H)
    fr=s-math.floor(s)
    if 32<=s<33 and 0.505<fr<0.52: best=(H,s); break
    H+=1
print(best)
