#include <fftw3.h>
#include <stdio.h>
#include <string.h>
#include <stdlib.h>
int main(int argc,char**argv){ for(int a=1;a<argc;a++){ int n=atoi(argv[a]);
 fftwf_complex*in=fftwf_alloc_complex(n); float*out=fftwf_alloc_real(n); fftwf_complex*cp=malloc(sizeof(fftwf_complex)*n);
 fftwf_plan p=fftwf_plan_dft_c2r_1d(n,in,out,FFTW_PATIENT);
 for(int i=0;i<n;i++){in[i][0]=i<n/2?1.0f/(1+i):0; in[i][1]=i<n/2?0.5f/(2+i):0;} in[0][1]=0;
 memcpy(cp,in,sizeof(fftwf_complex)*n); fftwf_execute(p);
 int ch=0,first=-1,last=-1; for(int i=0;i<n;i++) if(memcmp(cp[i],in[i],sizeof(fftwf_complex))){ch++; if(first<0)first=i; last=i;}
 printf("n=%d changed=%d first=%d last=%d (n/2=%d) nyq=(%g,%g)\n",n,ch,first,last,n/2,in[n/2][0],in[n/2][1]); }
}
