#!/bin/sh
# usage: seed_eval.sh <name> <seed_dir> <prop> [<prop>...]
# Confirms a seeded change (patch.diff + demo.sh) on a fresh scratch worktree of /repo HEAD and runs
# the given property checks against the changed tree.  The worktree is removed afterwards.
name=$1; seed=$2; shift 2
wt=/tmp/sv-$name
git -C /repo worktree remove --force $wt >/dev/null 2>&1
git -C /repo worktree add -q --detach $wt HEAD || exit 2
echo "== $name: demo on unchanged tree"
( sh $seed/demo.sh $wt > $wt.demo0.log 2>&1 ); d0=$?
echo "   exit $d0 (want 0)"
rm -rf $wt/_build_demo
( cd $wt && git apply $seed/patch.diff ) || { echo "patch does not apply"; git -C /repo worktree remove --force $wt; exit 2; }
echo "== build + test suite with the change"
( cmake -G Ninja -S $wt -B $wt/_build -Wno-dev >/dev/null 2>&1 && cmake --build $wt/_build > $wt.build.log 2>&1 ); b=$?
( cd $wt/_build && ./inovesa-test > $wt.test.log 2>&1 ); t=$?
echo "   build exit $b, test exit $t: $(tail -2 $wt.test.log | tr -d '\033' | head -1)"
echo "== demo with the change"
( sh $seed/demo.sh $wt > $wt.demo1.log 2>&1 ); d1=$?
echo "   exit $d1 (want non-zero): $(tail -1 $wt.demo1.log)"
rm -rf $wt/_build $wt/_build_demo
for p in "$@"; do
  echo "== check $p on the changed tree"
  ( cd /verif && ISA_REPO=$wt ISA_EVIDENCE_DIR=$wt/_ev python3-vt -m sa.main $p --tier quick 2>&1 | grep -v "^WARNING" | tail -6 )
done
git -C /repo worktree remove --force $wt
rm -f $wt.*.log
# drop the scratch fact cache
python3 - "$wt" <<'PY'
import hashlib, os, shutil, sys
tag = "-s" + hashlib.sha256(os.path.realpath(sys.argv[1]).encode()).hexdigest()[:6]
c = "/verif/.cache"
for x in os.listdir(c):
    if tag in x:
        shutil.rmtree(os.path.join(c, x), ignore_errors=True)
PY
echo "== summary $name: demo0=$d0 build=$b test=$t demo1=$d1"
