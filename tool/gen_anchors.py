#!/usr/bin/env python3
"""Record, per rule module, the member variables and member functions of Inovesa that the module (and the shared models it imports)
mention by name.  At run time a check first makes sure that all of them still exist: a vanished one (renamed, merged away) makes
the check stop as ANALYSIS-BROKEN (exit 2) instead of mis-reading the code.  Regenerate after editing rules:  python3-vt tool/gen_anchors.py"""
import json
import os
import re
import sys

HERE = os.path.dirname(os.path.dirname(os.path.abspath(__file__)))
sys.path.insert(0, HERE)
from sa import facts  # noqa: E402


# engine modules mention member names only as examples or generic tables: they do not make a member an anchor of a property
ENGINE = {"indexmap", "ast", "algebra", "flow", "callargs", "signs", "report", "compdb", "facts", "roles", "selftest", "main", "effects", "dims", "dimrules"}


def module_sources(name, seen=None):
    seen = seen if seen is not None else set()
    path = os.path.join(HERE, "sa", "rules", name + ".py")
    if not os.path.exists(path):
        path = os.path.join(HERE, "sa", name + ".py")
    if not os.path.exists(path) or path in seen or name in ENGINE:
        return []
    seen.add(path)
    src = open(path).read()
    out = [src]
    for m in re.finditer(r"^\s*from \.+ import (.+)$", src, re.M):
        for part in m.group(1).split(","):
            mod = part.strip().split(" as ")[0].strip()
            out += module_sources(mod, seen)
    for m in re.finditer(r"^\s*from \.+(\w+) import", src, re.M):
        out += module_sources(m.group(1), seen)
    return out


def main():
    prog = facts.load_program()
    fields, methods = set(), set()
    for q, r in prog.records.items():
        if q.startswith("vfps::"):
            for f in r.get("fields", []):
                fields.add(f["name"])
    for f in prog.functions.values():
        if (f.get("qname") or "").startswith("vfps::") and f.get("class"):
            methods.add(f["name"])
    classes = {q.split("::")[-1] for q in prog.records}
    methods -= classes            # constructor names: a class name in a table (interface owners, scopes) is not an anchor of a rule
    out = {}
    for i in range(1, 21):
        mod = "C%02d" % i
        # strings and identifiers of the module and its models, comments excluded
        words = set()
        for src in module_sources(mod):
            code = "\n".join(l for l in src.splitlines() if not l.lstrip().startswith("#"))
            words |= set(re.findall(r"[A-Za-z_]\w*", code))
        out[mod] = {"fields": sorted(w for w in words if w in fields and w.startswith("_")),
                    "methods": sorted(w for w in words if w in methods and len(w) > 3 and not w.startswith("operator"))}
    json.dump(out, open(os.path.join(HERE, "sa", "anchors.json"), "w"), indent=1, sort_keys=True)
    print({k: (len(v["fields"]), len(v["methods"])) for k, v in out.items()})


if __name__ == "__main__":
    main()
