#!/usr/bin/env python3
"""Run the given checks (default: all) on a scratch copy of /repo's sources with a patch applied (no build, no tests: static only).
  python3-vt tool/try_patch.py <patch.diff> [Cxx ...]"""
import os, sys
from concurrent.futures import ThreadPoolExecutor
sys.path.insert(0, os.path.dirname(os.path.dirname(os.path.abspath(__file__))))
from sa import selftest


def main():
    patch = os.path.abspath(sys.argv[1])
    props = sys.argv[2:] or ["C%02d" % i for i in range(1, 21)]
    d = selftest.make_scratch()
    try:
        err = selftest.apply_patch(d, patch)
        if err:
            print("PATCH-DOES-NOT-APPLY", err[:300]); return 3
        rc, out = selftest.run_check(d, props[0])
        res = [(props[0], rc, out)]
        with ThreadPoolExecutor(max_workers=8) as ex:
            res += list(ex.map(lambda p: (p,) + selftest.run_check(d, p), props[1:]))
        for p, rc, out in res:
            lines = [l for l in out.splitlines() if "BROKEN" in l or "Traceback" in l or (l.startswith("  ") and "[key" in l)]
            print("%s rc=%d %s" % (p, rc, "" if rc == 0 else ""))
            for l in lines[:int(os.environ.get("MAXL", "4"))]:
                print("     " + l.strip()[:int(os.environ.get("WIDTH", "330"))])
            if rc not in (0, 1) and not lines:
                print("     " + out[-600:])
    finally:
        selftest.drop_scratch(d)


if __name__ == "__main__":
    sys.exit(main())
