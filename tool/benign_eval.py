#!/usr/bin/env python3
"""Run every check against a behaviour-preserving patch: all of them must stay silent (exit 0).

  python3-vt tool/benign_eval.py <patch.diff> [Cxx ...]

The patch is applied to a scratch copy of /repo's sources (never to /repo); the scratch copy and
its fact cache are removed afterwards.  Prints one line per check that is not silent."""
import os
import sys
from concurrent.futures import ThreadPoolExecutor

sys.path.insert(0, os.path.dirname(os.path.dirname(os.path.abspath(__file__))))
from sa import selftest  # noqa: E402


def main():
    patch = os.path.abspath(sys.argv[1])
    props = sys.argv[2:] or ["C%02d" % i for i in range(1, 21)]
    d = selftest.make_scratch()
    bad = 0
    try:
        err = selftest.apply_patch(d, patch)
        if err:
            print("PATCH-DOES-NOT-APPLY %s: %s" % (patch, err.strip()[:200]))
            return 3
        # first check alone (fills the fact cache of the scratch tree), the rest in parallel
        rc, out = selftest.run_check(d, props[0])
        res = [(props[0], rc, out)]
        with ThreadPoolExecutor(max_workers=6) as ex:
            res += list(ex.map(lambda p: (p,) + selftest.run_check(d, p), props[1:]))
        for p, rc, out in res:
            viol = [l for l in out.splitlines() if l.startswith("  ") and "[key" in l]
            known_only = rc == 0
            if not known_only:
                bad += 1
                print("%s rc=%d %s" % (p, rc, os.path.basename(patch)))
                for l in out.splitlines():
                    if "BROKEN" in l or (l.startswith("  ") and "[key" in l and "KNOWN" not in l):
                        print("     " + l.strip()[:400])
        print("%s: %d of %d checks not silent" % (os.path.basename(patch), bad, len(props)))
    finally:
        selftest.drop_scratch(d)
    return 1 if bad else 0


if __name__ == "__main__":
    sys.exit(main())
