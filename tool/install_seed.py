#!/usr/bin/env python3
"""Install a confirmed round-3 seed from /tmp/seed3/<Cxx> into /verif/seeded/<Cxx>-r3-<slug>/ with its meta.json.
  tool/install_seed.py Cxx slug 'needs' 'detected_by;detected_by' 'history' [also_breaks,...]"""
import json, os, shutil, sys
p, slug, needs, det, hist = sys.argv[1:6]
also = sys.argv[6].split(",") if len(sys.argv) > 6 and sys.argv[6] else []
src = "%s/%s" % (os.environ.get("SEED_SRC", "/tmp/seed3"), p)
dst = "/verif/seeded/%s-%s-%s" % (p, os.environ.get("SEED_ROUND", "r3"), slug)
os.makedirs(dst, exist_ok=True)
for f in os.listdir(src):
    if f == "README.md":
        shutil.copy(os.path.join(src, f), os.path.join(dst, "README.agent.md"))
    elif os.path.isfile(os.path.join(src, f)):
        shutil.copy(os.path.join(src, f), os.path.join(dst, f))
head = os.popen("git -C /repo rev-parse --short HEAD").read().strip()
json.dump({"property": p, "also_breaks": also, "needs": needs, "detected_by": [d.strip() for d in det.split(";") if d.strip()],
           "history": hist,
           "ran": "tool/harvest3.sh (seed_eval.sh on a clean worktree of HEAD %s): demo exit 0 on HEAD, patch applies, build ok, 42 tests pass, demo exit 1 with the patch" % head,
           "source": "independent sub-agent (round %s) given only the property text, the sites of the earlier changes" % os.environ.get("SEED_ROUND", "r3")[1:] + " to avoid, and a scratch worktree"},
          open(os.path.join(dst, "meta.json"), "w"), indent=1)
print(dst, os.listdir(dst))
