#!/usr/bin/env python3
"""Regenerates MANIFEST.json from the table below (kept next to the rules so that the manifest
is always valid and in step with what is actually implemented)."""
import json, os
HERE = os.path.dirname(os.path.dirname(os.path.abspath(__file__)))
ALL = ["C%02d" % i for i in range(1, 21)]

CLAIMED = {
 "C01": dict(cat="proof", technique="polynomial identities (column sums of the transport operators) over weight formulas, stencil tables and index maps extracted from the clang AST",
   text="Proves in exact real arithmetic, for all offsets, grid sizes, bunch counts, interpolation orders 1-4, derivation types and FPTypes, "
        "that every column of each transport operator sums to one in the interior: interpolation weights sum to 1 and are applied as one "
        "complete consecutive set per source (kick maps are shift-invariant along the kick), Fokker-Planck stencil column sums are 1 with a "
        "defect proportional to the damping decrement confined to |row - zero-energy row| <= 2, identity copies B*N*N cells. "
        "This is the necessary and sufficient algebraic condition for interior charge conservation; it does not measure rounding. Also decided: KickMap::apply and FokkerPlanckMap::apply enumerate every cell of every bunch exactly once as destination (n*N*N + cell, full ranges), and index and weight of a stencil point are read from the same table entry.",
   note="Trusted: clang 14 front end, isa-extract, sympy expand. Abstracts float rounding; border rows excluded as in the statement; "
        "OpenCL kernels not analysed (headers absent). Size lemma nx==ny and the ruler model are re-derived from the code on each run.",
   ref="DESIGN.md §3 C01"),
 "C02": dict(cat="proof", technique="polynomial identities over weight formulas and index maps extracted from the clang AST (sympy normal forms)",
   text="Proves, in exact real arithmetic and for every fractional offset, grid size and order 1-4, that the interpolation weights "
        "are the Lagrange basis on the nodes the stencil writers actually use (hence partition of unity, exact reproduction of "
        "polynomials of degree < n, unit weight at offset 0), that non-central weights vanish exactly at offset 0, that fraction and "
        "origin come from one displacement, and that out-of-range sources get weight 0. Decides the code shape, not rounding. The reader side is re-evaluated here (rules of C01/R2 and C08/R1): every weight is applied to the source cell of its own stored index, with the writer's stride.",
   note="Trusted: clang 14 front end, isa-extract, sympy expand. Floating-point rounding is abstracted (exact arithmetic); "
        "bit-for-bit claim rests on R2's structural argument (factor f / dyadic constants). OpenCL kernels not analysed.",
   ref="DESIGN.md §3 C02"),
}
CLAIMED["C08"] = dict(cat="other", technique="writer/reader index-map agreement and fill-extent analysis over the clang AST (symbolic index polynomials)",
   text="Decides, for every bunch count B, grid size N and interpolation order, that each table and grid index used by the transport code "
        "splits into a bunch part and an in-bunch part that agree between writer and reader: KickMap::apply reads for bunch n exactly the "
        "source-map rows updateSM wrote for bunch min(n,_lastbunch); every KickMap subclass fills as many offset rows as its _lastbunch makes "
        "the reader consume (RF: one shared set; wake: B sets); source and destination cells carry the same bunch offset n*N*N in KickMap, "
        "FokkerPlanckMap and Identity. Exhaustive over the index sites; this is the structural reason bunches cannot influence each other in transport.",
   note="Trusted: clang front end, isa-extract, sympy. CPU path only. Found and repaired two genuine defects (see known_findings.json 'fixed'). "
        "Does not decide numerical bit-identity beyond identical index/arithmetic shape per bunch.",
   ref="DESIGN.md §3 C08")
CLAIMED["C19"] = dict(cat="other", technique="call-argument role agreement (resolved constructors), symbolic folding of the modulation expressions, exactly-once/ordering dataflow on the CFG",
   text="Decides on the code shape, for every parameter set and step count: each DynamicRFKickMap constructor (and each construction in main) hands "
        "every argument to the base/constructor parameter of the same role, so the linear/sinusoidal model reached is the one requested; the "
        "queued (phase, amplitude) folds to (_syncphase, 1) when all amplitudes are zero = the static constructors' arguments; per apply() exactly "
        "one entry is used, recorded and popped, in that order, on every CFG path; the drain moves out everything, clears, and every drain site feeds "
        "appendRFKicks; queue length and loop bound are one variable. These are necessary and, together with the shared _calcKick code, sufficient "
        "structural conditions for the statement; the numerical kick itself is not evaluated. Per branch of the linearRF switch main must hand the static and the dynamic construction the same expression for every parameter they share.",
   note="Trusted: clang front end, isa-extract, sympy, documented std::queue/vector semantics; alias table main-variable -> parameter role (12 entries, in the rule file). "
        "One genuine defect found and repaired (F1). Noise statistics/spectrum not decided.",
   ref="DESIGN.md §3 C19")
CLAIMED["C13"] = dict(cat="other", technique="exhaustive option-table analysis (boost::program_options declarations read off the AST) against the writer's type chain, skip list and substitutions; dominance on the CFG",
   text="Enumerates every option declared in the ProgramOptions constructor (72 declarations) and decides for each: its value type is one the "
        ".cfg writer emits (typeid chain, string fallback, per-element vector branch), it is not skipped unless it is a compatibility name, the name "
        "written is accepted by the config-file description with the same bound field and type, a substituted constant (alpha0=0) is written only "
        "when main does not use the option, floating values are written after the precision was raised to max_digits10, and the save precedes the "
        "results file on every path. Exhaustive over the table, so a new or retyped option that the writer would drop is reported.",
   note="Trusted: clang front end, isa-extract, documented boost::program_options semantics (not analysed). Three genuine defects repaired "
        "(alpha0 substitution, precision, BunchCurrent), two recorded as known findings (ForceOpenGLVersion type, run_anyway skipped).",
   ref="DESIGN.md §3 C13")
CLAIMED["C20"] = dict(cat="other", technique="option-table analysis plus a finite model of boost store/notify instantiated with the extracted table; ordering/dominance on the CFGs of parse() and main()",
   text="Decides for every declared option: the command line is stored before the config file into the same map (boost: first store wins, defaults last), "
        "nothing but store/notify and the recognised alias idiom writes the map or a bound field, each legacy alias binds exactly its primary's field and "
        "type without a default and - on a four-row truth table per alias evaluated on boost's documented store/notify semantics - yields the specified "
        "precedence, compatibility-only options bind fields nothing reads, command-line and file declarations agree, and parse errors / a missing or "
        "unreadable config file end the program with a message before any simulation object is built. Exhaustive over the table (72 declarations). A normalising write of a bound field ('/dev/null' to empty) must not be followed by a reachable notify(), which would restore the raw value.",
   note="Trusted: documented boost::program_options semantics (store keeps non-defaulted entries; notify runs notifiers in key order). "
        "Three known findings: a legacy alias in the config file beats the command line (RFVoltage, SyncFreq, steps).",
   ref="DESIGN.md §3 C20")
CLAIMED["C04"] = dict(cat="other", technique="moment conditions of the extracted Fokker-Planck stencil tables as polynomial identities; call-argument role agreement for the wiring in main",
   text="Decides a necessary condition only: for both derivation types, every stencil block and every FPType the stencil's zeroth, first and second moments "
        "equal (1+e1*[damping], e1*p*[damping], e1*[diffusion]) exactly, i.e. the map discretises e1*(f + p f' + f'') with matching damping and diffusion "
        "coefficients (which is what makes sigma=1 stationary, damping-only contract and diffusion-only spread), the gates depend on FPType only, and main "
        "hands e1 = 2/(fs*t_damp*steps) and the FPType option to the constructor and falls back to the identity when e1 <= 0. Convergence, monotonicity "
        "over time and the stable range of the explicit scheme are run-time behaviour and are NOT decided. The identity maps that stand in for an absent wake or damping copy the whole grid (C01/R4, re-evaluated here).",
   note="Trusted: clang front end, isa-extract, sympy; exact arithmetic; interior rows. PhaseSpace.cpp (moments used to observe the spread) is covered under C09.",
   ref="DESIGN.md §3 C04")
CLAIMED["C18"] = dict(cat="other", technique="buffer footprint / must-rewrite analysis over the FFT plan bindings and buffer writes extracted from the AST",
   text="For every ordered pair of operations (updateCSR, wakePotential, padBunchProfiles) and every work buffer an operation reads through an FFT plan or "
        "directly, decides that whatever the first operation (or a destructive c2r execution) may leave in the buffer is rewritten by the second before it "
        "is read (whole-buffer rewrite, or the same writes), that plan outputs are read only after the plan ran in the same call and have no other writer, "
        "that accumulations start from a plain store, and that plans/buffers are bound only during construction. This is exactly history independence of "
        "an object whose only mutable state is work buffers, for every call sequence and profile history; bit-identity additionally assumes FFTW is a function of its input.",
   note="Library model of FFTW r2c/c2r footprints (c2r may destroy in[0,n/2); probed on FFTW 3.3.10, DESIGN §3 C18). One genuine defect repaired (F14: shared _bp_padded not cleared). OpenCL/clFFT path not analysed.",
   ref="DESIGN.md §3 C18")
CLAIMED["C06"] = dict(cat="other", technique="writer/reader index-map agreement, plan/buffer pipeline order, loop-range and scaling normal forms from the AST; call-argument roles in main",
   text="Decides the structural clauses of the statement for every bunch count, spacing and transform length: each bunch profile is placed at bucket*spacing "
        "and its wake potential read back from the same offset into its own row; the stages pad -> r2c -> Z[i]*F[i] (same i, i in [0,floor(nmax/2))) -> c2r -> scale "
        "run in this order, each reading the buffer the previous one wrote, with plans of length nmax; the only factor after the inverse transform is "
        "wakescalining/nmax with wakescalining = Ib*dt*c/(sigma_z*delta1*sigma_delta*E0); main pairs each field with the impedance of its own length. "
        "Numerical equality with a reference DFT is NOT decided (FFTW trusted). The four FFT work buffers are resolved to their allocations: forward output and inverse input must not alias (any other aliasing is outside the footprint model and reported as analysis-broken).",
   note="Trusted: FFTW computes the unnormalised DFT pair; clang front end, isa-extract, sympy. CPU path only.",
   ref="DESIGN.md §3 C06")
CLAIMED["C07"] = dict(cat="other", technique="sign-lattice abstract interpretation of the extracted spectrum/intensity expressions",
   text="Decides only the sign clauses: under Re Z >= 0 the stored spectrum is a product of factors each classified >= 0 (delta0^2, the optional cutoff factor "
        "1-exp(-(f/fc)^2) in [0,1) applied only for fc>0, Re Z[i], |F[i]|^2 with the same i), and the intensity is a sum, started at 0, of delta_f*spectrum with "
        "delta_f>0 - for every profile, cutoff and grid. Any factor of unknown sign turns the verdict to unknown and is reported. The Parseval equality with "
        "the wake-loss sum is a numerical relation between run-time arrays and is NOT decided.",
   note="Assumes the passive-impedance precondition of the statement; exact real arithmetic (no rounding).",
   ref="DESIGN.md §3 C07")
CLAIMED["C03"] = dict(cat="other", technique="symbolic differentiation and series expansion of the offset formulas folded from the AST; variable identity (same declaration) for the angle; grid lemmas",
   text="Decides a necessary condition only: the linearised one-step kick-drift map fixed by the code. The RF offset (linear model, synchronous phase) has slope "
        "-tan(a), the drift offset slope slip0*delta1/delta0, both offsets vanish at the zero bins of their own axes, the angle handed to the RF map and slip[0] "
        "are the same const variable 2*pi/steps, both axes have the same cell size; hence the coupling product is -a^2+O(a^4): an elliptic map with fixed sense "
        "and phase advance a+O(a^3), independent of where the grid is centred. Closure after one period, the size of the splitting error and the sinusoidal "
        "model at finite amplitude are run-time behaviour and are NOT decided. The centre the kick machinery adds (updateSM) and subtracts (apply) is re-evaluated here from C01/R2.",
   note="Exact arithmetic; positive-constant assumptions for the sinusoidal sign check. DynamicRFKickMap is covered under C19.",
   ref="DESIGN.md §3 C03")
CLAIMED["C16"] = dict(cat="other", technique="symbolic model of the std::vector operations (sample count, which index holds what), sign lattice over real/imaginary parts, homogeneity by substitution, pairing on the factory CFG",
   text="Decides for every n and parameter set in the documented domain: each of the four model builders returns exactly n samples with frequency k at index k, writes model "
        "values only to indices <= floor(n/2) and the literal zero above; Re Z >= 0 for free space, resistive wall, collimator (under the factory guard) and each parallel-plates "
        "summand (Ai'^2 + u*Ai^2, u > 0, positive prefactor); Z(lambda i)/Z(i) is lambda^(1/3) resp. lambda^(1/2) and Im Z has opposite sign for free space and resistive wall; "
        "the factory adds exactly one contribution in exactly the branches that mark a change, builds every model with its own nfreqs/fmax, and returns nullptr iff nothing was "
        "selected. The wide-gap/high-frequency limit and sub-cutoff suppression of the parallel-plates model and finiteness of the Airy sums are numerical and NOT decided. The two branches of the CSR choice (parallel plates / free space) must be built on the same frequency grid (same n, fundamental, f_max).",
   note="Positivity assumptions on parameters as documented; exact arithmetic. The length of a file impedance is handled under C17.",
   ref="DESIGN.md §3 C16")
CLAIMED["C09"] = dict(cat="other", technique="per-bunch subscript analysis and formula normal forms from the AST (symbolic accumulators), loop-range coverage, must-reach on the constructor CFG",
   text="Decides for every bunch count and grid size: in all moment/normalisation routines every subscript in a bunch dimension inside the bunch loop is the loop's own index "
        "(no dependence on another bunch's data); mean and variance are (sum_i P[a][n][i]*q_a(i)^k-centred)*delta_a/filling[n] with one axis a throughout and the mean refreshed first; "
        "filling[n] = <P[0][n], ws>, projections are Simpson-weighted sums with weights h/3*{1,4,2,..,4,1}; normalize multiplies every cell of bunch n by filling_set[n]/filling[n] or "
        "zeroes an empty bucket over the full ranges (with linearity of the integral this gives the post-normalisation integral filling_set[n]); the copy constructor passes "
        "(axis, oclh, charge, current, filling_set, 1, data) in their roles and the delegated constructor copies all values and recomputes both projections and the integral on "
        "every path. The discretisation error of the moments is NOT decided. The accumulators of the moments are reset once per bunch (inside the bunch loop, outside the sum, unconditionally).",
   note="Exact arithmetic; relies on the size lemma nx==ny (one weight vector for both axes). OpenCL path not analysed.",
   ref="DESIGN.md §3 C09")
CLAIMED["C10"] = dict(cat="other", technique="freshness typestate (forward must-dataflow on main's CFG) with transfer functions from interprocedural read/write effect summaries; sibling-block agreement; dataset/accessor/axis table analysis of HDF5File",
   text="Decides on every path of main (separately for each combination of the loop-invariant null tests) that at each append site every derived quantity the call stores is "
        "recomputed after the last change of the grid it is stored with; that the loop output block and the final block perform the same refresh and append calls with the same "
        "time expression; that every time-indexed dataset has exactly one append site, the record time is written in the same branch as its datasets, each dataset is fed from "
        "the accessor its path names and each axis/unit attribute from the matching axis; and that records are written iff step mod outstep == 0 plus one final record. Numerical "
        "agreement of stored moments with recomputed ones and absolute unit values are NOT decided. Object agreement in main (R6): the impedance stored in the file is the one of the field whose wake potential is stored; appendPadded, the wake map and append(ElectricField) use the fields the file was laid out for; all on grid_t1.",
   note="Effect summaries trust a small library model (copy/fill/fft_execute by pointer arguments). One defect repaired (F5 energy axis), one recorded at 7 sites as known "
        "findings (F6: records written on a renormalising step store pre-normalisation projections/moments/wake).",
   ref="DESIGN.md §3 C10")
CLAIMED["C14"] = dict(cat="other", technique="whole-program who-writes/who-reads analysis of the abort flag, handler effect set, structural exit analysis of the simulation loop and of the code after it",
   text="A static non-interference argument that covers every instruction boundary at which SIGINT can arrive: the only handler installed calls nothing and only stores true to a "
        "volatile flag; every writer in the program stores true; the flag is read by the loop condition (once per iteration, side-effect free) and by the final message only; "
        "nothing leaves the loop body early and the step counter advances exactly once per iteration, so the step in progress completes; after the loop the only way out is the "
        "unconditional return EXIT_SUCCESS past the final-record block, which is guarded only by the file being open and appends to everything the loop appends to (All); the "
        "flag is not read during set-up. Hence records before the interrupt equal those of the uninterrupted run and exactly one final record follows. The hook suggested in the "
        "anchor (raising SIGINT at enumerated points) is a dynamic instrument and is deliberately not used.",
   note="Assumes glibc signal() restarts system calls (SA_RESTART) and that a volatile bool store is atomic. HDF5 library internals are not analysed.",
   ref="DESIGN.md §3 C14")
CLAIMED["C12"] = dict(cat="other", technique="interprocedural read/write effect analysis lifted to the objects of main; control/data dependence of state-writing calls on observer inputs; who-may-call for nondeterminism sources",
   text="Decides non-interference between observation and simulation for every cadence, file name, verbosity and tracking set: every call in the output block of the loop may write "
        "only locations the simulation never reads (the radiation field is shown to be handed only to the results file); every call of the loop that writes simulation state runs under "
        "conditions and with arguments that mention no observer input, and the variables that steer the physics are computed without them; tracked particles are passed only to "
        "applyToAll/appendTracks, which write particles and the tracking RNG only; clocks and random_device are called only from a frozen list of functions outside the deterministic "
        "physics; FFT plans come only from prepareFFT, wisdom first. Bit-identity of two concrete executions additionally needs deterministic arithmetic and FFTW, which is assumed, not decided.",
   note="State/observer classification tables are in the rule file with reasons. CPU, non-GUI build. Noise of DynamicRFKickMap is outside the statement (deterministic RF).",
   ref="DESIGN.md §3 C12")
CLAIMED["C05"] = dict(cat="other", technique="step-structure analysis of the simulation loop (call order, constructor bindings of map grids), freshness typestate of the wake offsets at the kick, copy-without-arithmetic check",
   text="Decides structural preconditions only: in every iteration wake kick, RF kick, drift and damping/diffusion are applied once each in that order on grids chained t1->t2->t1->t3->t1 "
        "for every combination of map alternatives; at the wake kick the offsets and the source-map table are up to date with the grid they act on, computed from a fresh X projection of "
        "that grid by the wake field bound to it; the offsets are the field's wake potential copied without arithmetic, on the same kick axis as the RF kick (the scaling normal form is "
        "proved under C06). That the stationary state satisfies the Haissinski relation is a numerical fixed point and is NOT decided. The reader/writer agreement of the kick machinery the wake goes through (C08/R1, R2, R4) is re-evaluated here.",
   note="One known finding shared with C10 (F6): on renormalising steps the wake is computed before the grid is rescaled.",
   ref="DESIGN.md §3 C05")
CLAIMED["C11"] = dict(cat="other", technique="structural analysis of the HDF5 hyperslab selection and its size guard; freshness typestate at the loop head for every start kind; error-discipline analysis of the load path",
   text="Decides the load path and the refusal discipline, not the equality of two runs: for each accepted rank the reader selects exactly record use_step (reduced modulo the record count) "
        "with a one-record count and a memory space of the same extent, and reads into the grid only when the grid holds exactly the selected number of cells (otherwise throws), so exactly the "
        "stored values land in the grid or nothing; after any kind of start main recomputes X projection, integral, Y projection and spread before the first step, and the projection the wake "
        "needs is fresh at the loop head on every path; the final block equals the loop output block (C10/R2); the reader runs under try/catch(...), no handler rethrows, failure returns "
        "nullptr, a multi-bunch record fails the size guard because the grid is sized for one bunch, and main null-tests, reports and returns before the first use. That a split run ends in the "
        "same phase space as an uninterrupted one is a relation between two executions and is NOT decided. The start-step index is followed from the option field through getter, main's argument, factory parameter and reader parameter and must stay a signed 64-bit integer (the 'minus one = last record' arithmetic relies on it).",
   note="HDF5 C++ API argument order is part of the trusted base. The definite-assignment defect of ps_size for other ranks is reported under C17.",
   ref="DESIGN.md §3 C11")
CLAIMED["C15"] = dict(cat="other", technique="clamp-on-every-path analysis over the CFGs of all applyTo overriders reachable from main (call-graph resolved), symbolic direction/fixed-point analysis of the tracking formulas",
   text="Decides for every map class main can instantiate and every tracking model: each coordinate an applyTo override assigns is, on every path to the exit, last assigned through "
        "max(1, min(., size-1)) of its own axis, and initial coordinates enter only through the clamping PhaseSpace::x()/y(); hence tracked coordinates stay inside the grid where the "
        "conversion to physical units is defined. The particle is displaced by -interp(offset) with linear weights (1-f, f) along the perpendicular coordinate while the grid takes its "
        "content from destination+offset: same direction. The noise-free fixed point of the stochastic model is the zero-energy bin with rate e1; the deterministic model moves by the first "
        "stencil moment. Numerical coincidence of blob centroid and particle, and ensemble statistics, are NOT decided.",
   note="One genuine defect repaired (F9: stochastic model unclamped and damping towards grid row 0). NaN coordinates are outside the statement.",
   ref="DESIGN.md §3 C15")
CLAIMED["C17"] = dict(cat="other", technique="enumerated obligation classes: symbolic bounds (max index vs. allocation extent over loop ranges and unsigned guards), stream-extraction discipline and definite assignment by CFG dataflow, foreign-container subscripts, guarded integer division",
   text="Whole-program memory safety is NOT claimed (no tool here can numerically interpret this C++ with its libraries). Claimed are five obligation classes enumerated exhaustively over the "
        "program: (R1) 100+ loop-indexed accesses to the work arrays of the anchored classes stay below the extent of their allocation site, decided symbolically for all sizes (N >= 8) from loop "
        "ranges, unsigned wrap guards and the extent table, undischarged obligations being reported; (R2) values extracted with >> are read only after the stream was tested; (R3) every scalar "
        "local is assigned on all paths to each use; (R4) loops subscripting another object's container are bounded by its size; (R5) integer division/modulo by run-time values is guarded "
        "by a non-zero test. Each class is a necessary condition of the statement for the input classes it names (short/empty/malformed files, wrong sizes).",
   note="Three defects repaired (F10 unchecked extraction, F11 operator+= over-read, F13 readPhaseSpace), three recorded as known findings (F12 padded position vs transform length x2, "
        "F17 Fokker-Planck table overrun for a grid that does not contain zero energy). Library internals and float-to-integer conversions are not analysed.",
   ref="DESIGN.md §3 C17")
# sentences added to the level texts by the third round of independent changes (rules added, never loosened)
ROUND3 = {
 "C01": " Round 3: every member of the KickMap family that changes the displacement field rebuilds the source-map table on every path on which it changed it (a stale table moves the grid by old offsets).",
 "C02": " Round 3: every change of the displacement field is followed by a rebuild of the stencil table (R6), so the stencil in use is the one of the current displacement.",
 "C03": " Round 3: the per-bunch row rules of C08 are re-evaluated (every bunch is kicked and drifted), and the sinusoidal RF model linearised at the synchronous point must have the slope 2*pi/steps once constructor parameters and axis scales are replaced by what main passes (R6): this pins the position unit (natural bunch length) to the effective f_s/alpha0.",
 "C04": " Round 3: the kick/drift matching conditions of C03 (R1, R2, R6) are re-evaluated: the limit 1 of the bunch length is stated in natural units, which the rotation must preserve.",
 "C05": " Round 3: the Fokker-Planck moment conditions of C04 are re-evaluated (the energy distribution stays the unit Gaussian), and the table rebuild after every change of the wake offsets is decided (R5).",
 "C06": " Round 3: every copy of a profile into the padded buffer, also one outside the bunch loop, must lie where the read-back looks for it.",
 "C07": " Round 3: the must-rewrite rule of C18 is re-evaluated: spectrum and wake are computed from the current profile only, which the Parseval clause presupposes.",
 "C08": " Round 3: the table rebuild after every change of the displacement field (R6).",
 "C09": " Round 3: in main every stored population, mean and width is computed after the last refresh of the projection stored with it (R5, freshness typestate restricted to the projection->moment dependence).",
 "C10": " Round 3: no function of HDF5File has a declared parameter name at another position in its definition (RI: arguments reach the body under the name the caller read).",
 "C13": " Round 3: the condition under which a constant is substituted is read by meaning (any spelling of a zero test of one option value); a condition that tests something else is a violation.",
 "C14": " Round 3: block agreement and the time expression of the final record (C10 R2/R4) are re-evaluated: the final record is stamped with the step reached.",
 "C15": " Round 3: in every apply() main can call nothing that the class's applyTo() reads changes after the grid was moved (R5): the particles, moved right after the grid, see the displacement the charge saw.",
 "C16": " Round 3: model functions keep no state between calls (no mutable or argument-initialised static local, no global written), unless a memo is keyed on every parameter (R6).",
 "C17": " Round 3: (R6) members of Impedance that can change the number of samples without changing nFreqs() have no caller outside the class, so loops bounded by nFreqs() stay inside the samples.",
 "C18": " Round 3: memset is modelled by its byte count (a clear sized in bytes instead of elements is a partial rewrite).",
 "C19": " Round 3: the per-apply ordering rule is now a life-cycle typestate (constructor; apply; apply; ...): whenever apply() transports the grid the kick in effect was computed from the queue front, and the entry recorded is the one transported - independent of whether the kick is computed at the start of apply() or prepared at the end of the previous one.",
 "C20": " Round 3: (R7) no getter and no first use in main pushes an option value through a value-changing conversion (floating->integral, narrower or differently signed integer, double->float in a getter).",
}
ROUND4 = {
 "C01": " Round 4: the value stored in a destination cell is the weighted sum itself (R7: no clip, floor or absolute value between sum and store - column sums conserve charge only for a linear map); the weight function keeps no state between calls (R8).",
 "C02": " Round 4: the weight function and the table builders keep no state between calls (R7: a memo keyed on part of the arguments hands out the weights of another order).",
 "C04": " Round 4: the moment formulas of C09 (R2) are re-evaluated: bunch length and spread are second moments normalised by the bunch's own charge.",
 "C05": " Round 4: the single-angle rules of C03 (R2, R6) are re-evaluated.",
 "C06": " Round 4: std::transform into the padded buffer is modelled: the train receives the profiles themselves, not transformed values.",
 "C07": " Round 4: the intensity rule judges three shapes (accumulated in place after a per-bunch reset, per-bunch local, SUM normal form) and reports an accumulator that is not reset per bunch.",
 "C09": " Round 4: R3 judges deviating forms of normalize (multiplication not guarded by filling_set[n] > 0, missing zeroing of empty buckets) instead of stopping.",
 "C10": " Round 4: (R8) the stored CSR intensity of bunch n is the sum of the stored spectrum of bunch n (re-evaluates C07 R1).",
 "C14": " Round 4: every place after the loop that can print 'Aborted.' is selected by the abort flag itself (an interrupt during the last step leaves the step counter at its end).",
 "C15": " Round 4: (R6) charge and particle share the zero of the displacement (centre rules of C01 R2 re-evaluated: odd grid sizes).",
 "C17": " Round 4: (R7) every index handed to q()/p()/at() in appendTracks has an upper bound <= n-1 under the invariant that tracked coordinates lie in [0, n-1].",
 "C18": " Round 4: the footprint rules quantify over every operation of the class (each non-construction member that writes a work buffer or runs a plan is discovered), not only over the three that exist today; R2 covers sums built in locals.",
 "C20": " Round 4: (R8) no numeric option has a character value type (boost would take the first character of the argument); this rule found a genuine defect (ForceOpenGLVersion), repaired in /repo.",
}
ROUND5 = {
 "C01": " Round 5: (R9) no cell index or size of the source-map classes passes through an integer type of 16 bits or fewer (integral conversions of the type-checked AST); R3 states the tolerated switch-row defect as the statement does (proportional to the decrement with a factor independent of the cell size).",
 "C02": " Round 5: (R8) 'bit for bit' presupposes the default floating-point environment: no function sets the MXCSR/rounding/flush-to-zero state, no inline assembly, no value-changing compile flag in the compile database; (R9) index width as in C01.",
 "C03": " Round 5: the drift table is judged in closed form (E8: bounded unrolling with the number of slip coefficients main passes), so a Horner or pre-scaled-coefficient fill is decided, not skipped; (R7) an FPType of 'none' adds no Fokker-Planck term (re-evaluates C04 R1/R2).",
 "C04": " Round 5: (R7) every bunch gets the RF kick (re-evaluates C08 R1/R2).",
 "C06": " Round 5: (R6) the field owns what it was set up with: no reference member, no pointer member bound to a by-reference constructor parameter.",
 "C07": " Round 5: (R6) the wake is driven by the profile itself (re-evaluates C06 R1).",
 "C08": " Round 5: R2 recognises a block-wise fill of the offset table and judges which source block goes to which bunch.",
 "C11": " Round 5: (R5) the start-file name given by the user reaches main unchanged (only the documented '/dev/null' spelling is cleared; re-evaluates C20 R2).",
 "C12": " Round 5: R1 covers every observer-conditional call anywhere in main (forward may-analysis with must-write kills over main's CFG): what such a call writes is not read by the simulation before it is rewritten.",
 "C13": " Round 5: (R9) no alias carries a default that would overwrite the primary read back from the saved file (re-evaluates C20 R3).",
 "C15": " Round 5: R3 also derives the fluctuation-dissipation balance of the stochastic tracker from the constructor: sigma^2*delta_E^2 == 2*decrement, zero mean.",
 "C16": " Round 5: (R7) no member reachable from outside the impedance classes changes the number of samples of a constructed impedance (growing included).",
 "C17": " Round 5: (R8) at every PhaseSpace::setSize the bunch count is the size of the filling handed to the constructions that follow; R6 keeps the memory-safety half of the sample-count invariant (grow-only changes accepted, C16 R7 owns the count).",
 "C18": " Round 5: (R4) nothing but the FFT work buffers is carried between requests: every other member written outside construction is stored, by each function that reads it, before the read on every path (a conditionally refreshed cache is reported; an exact memo keyed on the argument is reported as not analysable).",
 "C19": " Round 5: (R5) in both kick formulas a phase step acts as a shift of the columns by phase/(bl2phase*delta) and the amplitude multiplies the whole position- and phase-dependent part.",
 "C20": " Round 5: (R9) exceptions of the boost parsers leave parse() (a handler that does not re-throw would turn an unknown option or malformed value into a success status).",
}
ROUND6 = {
 "C01": " Round 6: block copies are read in one form (copy_n / copy / memcpy with a sizeof factor); R5 judges a constant stored into the destination of the damping/diffusion step under a condition on the data.",
 "C02": " Round 6: (R10) the centre updateSM adds is the centre apply subtracts (re-evaluates C01 R2: a half-cell bias on odd grids).",
 "C03": " Round 6: R5 also re-evaluates the extent of the Identity copy (C08 R4).",
 "C04": " Round 6: R4 also re-evaluates how the damping/diffusion step applies its table (C01 R5).",
 "C06": " Round 6: (R7) the spacing and bucket numbers the placement uses are the constructor arguments, unchanged.",
 "C07": " Round 6: (R2) without a cut-off the factor of the spectrum is _formfactorrenorm itself.",
 "C09": " Round 6: (R3) integrateAndNormalize() reaches normalize() on every path.",
 "C11": " Round 6: (R6) the wake map holds no history (re-evaluates C05 R3); loop-head freshness is decided with correlated sign conditions (case split refined lazily).",
 "C14": " Round 6: (R7) nothing the final block calls can throw an exception of the program uncaught (call graph over resolved callees).",
 "C16": " Round 6: (R8) sample i of a table is the i-th distinct line: the de-duplication sentinel of readData is no harmonic number.",
 "C18": " Round 6: (R5) construction reads geometry and configuration of the phase space only, never grid data or anything derived from it (effect summaries).",
}
ROUND7 = {
 "C12": " Round 7: (R5) a member function of the grid that the output block calls does not read one of the members it writes before it has written it in that call (records do not depend on the output cadence).",
 "C13": " Round 7: R4 reports a getter that does not hand out the tested member unchanged.",
 "C15": " Round 7: (R8) every change of the offsets is followed on every path (CFG, early exits included) by a rebuild of the source-map table: particle and charge see the same displacement.",
 "C17": " Round 7: (R9) no member initialiser of any constructor uses a member declared after the one it initialises (directly or through the effect summary of a member function it calls).",
 "C20": " Round 7: (R10) every statement that fills an option group precedes every add() of that group into another (boost copies the group at that moment).",
 "C01": " Round 7: (R10) no transport map is built with the same grid as source and destination.",
 "C02": " Round 7: (R11) no store into the offset table rounds, truncates or snaps an offset.",
 "C03": " Round 7: (R8) the step counts the angle is computed from reach main unconverted (re-evaluates C20 R7); (R9) zeroth and first moment of the interpolation weights (re-evaluates C02 R1): a kick by f displaces by f.",
 "C04": " Round 7: (R8) all moment identities of the interpolation weights below their order (re-evaluates C02 R1): no artificial diffusion.",
 "C05": " Round 7: (R9) as C04 R8.",
 "C09": " Round 7: R2 judges any way of accumulating a moment by its closed form in the raw moments of the projection.",
}
ROUND8 = {
 "C01": " Round 8: (R11) the work grids are copies with the same axes (re-evaluates C09 R4).",
 "C03": " Round 8: (R10) a grid loaded from a file gets the scales main computed (re-evaluates C11 R4).",
 "C05": " Round 8: (R10) static RF maps are built at the synchronous phase (re-evaluates C19 R2).",
 "C10": " Round 8: (R10) the stored axes are the coordinates the dynamics use: kick and drift vanish at the rulers' zero (re-evaluates C03 R3).",
 "C11": " Round 8: (R7) the last record of an interrupted run is a completed step: nothing but the loop condition and the closing message reads the abort flag (re-evaluates C14 R2).",
 "C12": " Round 8: (R6) members used as array indices are initialised by every constructor (re-evaluates C17 R11).",
 "C13": " Round 8: (R10) string values reach the file exactly as parsed.",
 "C14": " Round 8: R4 finds the final block by what it does and requires its condition to be 'the results file is open' and nothing else.",
 "C16": " Round 8: (R9) no floating-point value of an impedance formula is passed through an integer parameter (abs(int)).",
 "C17": " Round 8: (R10) iterator-range algorithms write no more elements than the destination holds; (R11) every member used as an array index is initialised by every constructor.",
 "C18": " Round 8: (R6) every result cell is stored by every request (no store skipped under a condition on the data).",
 "C20": " Round 8: (R11) parse() reads an option-bound member only after notify() has delivered it.",
}
RD_TEXT = (" Dimensional consistency (rule RD, engine E7): a units-of-measure inference over the whole program (dimension variables per storage location, "
           "linear constraints from every arithmetic expression, solved over the rationals; units taken from the options' help texts, the physcons constants "
           "and the unit names used as keys) shows that the quantities this property depends on have the dimensions their use demands, for every parameter set; "
           "dimension-neutral slips are not visible to it.")
for _p in ("C03", "C04", "C05", "C06", "C07", "C09", "C10", "C16", "C19"):
    ROUND3[_p] = ROUND3.get(_p, "") + RD_TEXT
ROUND3["C10"] += (" For C10 this covers the 30 unit attributes of the results file (metres, seconds, amperes, coulombs, electron volts, volts, watts, ohms, turns): "
                  "attribute x dimension of the stored numbers = the named unit, with the stored numbers linked to the arrays written; the impedance samples come out in ohms "
                  "from the wake scaling, consistent with the stored Volt/Watt factors (the 'absolute strength' clause, dimensionally).")
for _p, _t in ROUND3.items():
    CLAIMED[_p]["text"] = CLAIMED[_p]["text"].rstrip() + _t
for _p, _t in ROUND4.items():
    CLAIMED[_p]["text"] = CLAIMED[_p]["text"].rstrip() + _t
for _p, _t in ROUND5.items():
    CLAIMED[_p]["text"] = CLAIMED[_p]["text"].rstrip() + _t
for _p, _t in ROUND6.items():
    CLAIMED[_p]["text"] = CLAIMED[_p]["text"].rstrip() + _t
for _p, _t in ROUND7.items():
    CLAIMED[_p]["text"] = CLAIMED[_p]["text"].rstrip() + _t
for _p, _t in ROUND8.items():
    CLAIMED[_p]["text"] = CLAIMED[_p]["text"].rstrip() + _t
CLAIMED["C13"]["note"] = CLAIMED["C13"]["note"].replace("two recorded as known findings (ForceOpenGLVersion type, run_anyway skipped)", "ForceOpenGLVersion repaired later (93250ff), run_anyway skipped is a known finding")
CLAIMED["C19"]["technique"] = "call-argument role agreement (resolved constructors), symbolic folding of the modulation expressions, life-cycle typestate (may-dataflow over the CFGs of constructors and apply) and exactly-once counts on the CFG"
CLAIMED["C09"]["technique"] = CLAIMED["C09"]["technique"] + "; freshness typestate on main's CFG for the projection->moment dependence"
CLAIMED["C15"]["technique"] = CLAIMED["C15"]["technique"] + "; effect analysis of apply() after the transport against the read set of applyTo"
CLAIMED["C20"]["technique"] = CLAIMED["C20"]["technique"] + "; conversion-kind analysis (clang cast kinds) on the path field -> getter -> first use"
for _p in ("C03", "C04", "C05", "C06", "C07", "C09", "C10", "C16", "C19"):
    CLAIMED[_p]["technique"] = CLAIMED[_p]["technique"] + "; dimensional analysis (units-of-measure type inference, linear constraints over Q)"
CLAIMED["C03"]["technique"] = CLAIMED["C03"]["technique"] + "; cross-procedural substitution (field <- constructor parameter <- main's argument <- main's definitions) decided by sympy normal forms"
CLAIMED["C03"]["technique"] = CLAIMED["C03"]["technique"] + "; closed form of the drift table by bounded unrolling in the polynomial domain (E8)"
CLAIMED["C12"]["technique"] = CLAIMED["C12"]["technique"] + "; forward may-taint analysis with must-write kills over main's CFG for observer-conditional calls"
CLAIMED["C18"]["technique"] = CLAIMED["C18"]["technique"] + "; define-before-use analysis of every member written outside construction"
CLAIMED["C02"]["technique"] = CLAIMED["C02"]["technique"] + "; who-may-call rule for floating-point environment setters, compile-flag scan of the compile database, cast-kind analysis of index conversions"
CLAIMED["C01"]["technique"] = CLAIMED["C01"]["technique"] + "; cast-kind analysis of index conversions"
NOT_YET = "check not built yet in this round (static rule designed in DESIGN.md §3, not implemented)"
NA = {}

def main():
    checks = []
    for pid in ALL:
        if pid not in CLAIMED:
            continue
        c = CLAIMED[pid]
        checks.append({
            "property_id": pid,
            "quick_cmd": "./check %s --tier quick" % pid,
            "thorough_cmd": "./check %s --tier thorough" % pid,
            "evidence_file": "/verif/evidence/%s.json" % pid,
            "replay_cmd_template": "./check %s --replay {path}" % pid,
            "engine": "isa",
            "level_claimed": {"category": c["cat"], "text": c["text"], "design_ref": c["ref"]},
            "level_note": c["note"],
            "technique": c["technique"],
        })
    na = [{"property_id": p, "reason": NA.get(p, NOT_YET)} for p in ALL if p not in CLAIMED]
    m = {
        "version": 1,
        "setup_cmd": "sh tool/build.sh",
        "hooks": {"guard": "INOVESA_VERIF", "enable": "none needed: the static checks read the unmodified sources",
                  "baseline_off_cmd": "cmake -G Ninja -S /repo -B /repo/_build && cmake --build /repo/_build && ctest --test-dir /repo/_build -j8 --timeout 900",
                  "source_commits": [], "add_only": True},
        "engines": [{"name": "isa", "path": "/verif/check",
                     "serves_properties": sorted(CLAIMED),
                     "kind_free_text": "custom static analysis: libTooling fact extractor (tool/isa-extract.cc) over the real compile "
                                       "database + python rule engines (sa/): expression algebra, index maps, CFG dataflow, effects, option tables"}],
        "checks": checks,
        "not_applicable": na,
        "notes": "Static analysis only. Exit 0 = all rule instances hold (or only listed known findings); exit 1 + VIOLATION line; "
                 "exit 2 + ANALYSIS-BROKEN when an anchor vanished or a unit fails to parse. See DESIGN.md.",
    }
    json.dump(m, open(os.path.join(HERE, "MANIFEST.json"), "w"), indent=1)
    print("MANIFEST.json: %d checks, %d not_applicable" % (len(checks), len(na)))

if __name__ == "__main__":
    main()
