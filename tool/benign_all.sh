#!/bin/sh
# evaluate every behaviour-preserving patch of /verif/benign against all (or the given) checks; 4 patches in parallel
cd "$(dirname "$0")/.."
ls benign/*.diff | grep "${PAT:-.}" | xargs -P ${JOBS:-4} -I{} sh -c 'python3-vt tool/benign_eval.py {} '"$*"' > /tmp/benign-$(basename {}).log 2>&1'
for f in benign/*.diff; do b=$(basename $f); [ -f /tmp/benign-$b.log ] && grep -v "^WARN" /tmp/benign-$b.log | cut -c1-${WIDTH:-240}; done
rm -f /tmp/benign-*.log
