#!/bin/sh
# evaluate every behaviour-preserving patch of /verif/benign (or those matching $PAT) against all (or the given) checks; $JOBS patches in parallel
cd "$(dirname "$0")/.."
L=$(mktemp -d /tmp/benign-logs.XXXXXX)
ls benign/*.diff | grep "${PAT:-.}" | xargs -P ${JOBS:-4} -I{} sh -c 'python3-vt tool/benign_eval.py {} '"$*"' > '"$L"'/$(basename {}).log 2>&1'
for f in $(ls benign/*.diff | grep "${PAT:-.}"); do b=$(basename $f); [ -f $L/$b.log ] && grep -v "^WARN" $L/$b.log | cut -c1-${WIDTH:-240}; done
rm -rf "$L"
