// isa-extract: dump the type-checked AST (+ CFG) of every function that is
// defined under a given source root as JSON facts.  All deciding logic lives
// in the python rule engines (sa/); this tool only exports the resolved
// program: callees are resolved through the declaration clang bound them to,
// never by spelling.
//
// usage: isa-extract --root=/repo --out=facts.json file.cpp -- <compile flags>
#include "clang/AST/ASTConsumer.h"
#include "clang/AST/ASTContext.h"
#include "clang/AST/DeclCXX.h"
#include "clang/AST/DeclTemplate.h"
#include "clang/AST/ExprCXX.h"
#include "clang/AST/RecursiveASTVisitor.h"
#include "clang/AST/StmtCXX.h"
#include "clang/Analysis/CFG.h"
#include "clang/Frontend/CompilerInstance.h"
#include "clang/Frontend/FrontendAction.h"
#include "clang/Lex/Lexer.h"
#include "clang/Tooling/CommonOptionsParser.h"
#include "clang/Tooling/Tooling.h"
#include "llvm/Support/CommandLine.h"
#include "llvm/Support/JSON.h"
#include "llvm/Support/raw_ostream.h"
#include <map>
#include <set>

using namespace clang;
using llvm::json::OStream;

static llvm::cl::OptionCategory Cat("isa-extract");
static llvm::cl::opt<std::string> Root("root", llvm::cl::desc("source root"),
                                       llvm::cl::init("/repo"), llvm::cl::cat(Cat));
static llvm::cl::opt<std::string> Out("out", llvm::cl::desc("output json"),
                                      llvm::cl::init("-"), llvm::cl::cat(Cat));
static llvm::cl::opt<std::string> Skip("skip", llvm::cl::desc("path substring to skip"),
                                       llvm::cl::init("local_cl.hpp"), llvm::cl::cat(Cat));

namespace {

struct Dumper {
  ASTContext &Ctx;
  const SourceManager &SM;
  OStream &J;
  PrintingPolicy PP;
  std::map<const Stmt *, unsigned> StmtId;
  std::map<const Decl *, unsigned> DeclId;
  unsigned NextStmt = 0;
  unsigned NextDecl = 0;

  Dumper(ASTContext &C, OStream &J)
      : Ctx(C), SM(C.getSourceManager()), J(J), PP(C.getLangOpts()) {
    PP.SuppressTagKeyword = true;
    PP.Bool = true;
  }

  std::string fileOf(SourceLocation L) {
    L = SM.getExpansionLoc(L);
    if (L.isInvalid()) return "";
    PresumedLoc P = SM.getPresumedLoc(L);
    if (P.isInvalid()) return "";
    // normalise ./ components
    std::string F = P.getFilename();
    llvm::SmallString<256> S(F);
    llvm::sys::path::remove_dots(S, true);
    return std::string(S.str());
  }
  unsigned lineOf(SourceLocation L) {
    L = SM.getExpansionLoc(L);
    if (L.isInvalid()) return 0;
    return SM.getPresumedLineNumber(L);
  }
  unsigned colOf(SourceLocation L) {
    L = SM.getExpansionLoc(L);
    if (L.isInvalid()) return 0;
    return SM.getPresumedColumnNumber(L);
  }
  bool inRoot(SourceLocation L) {
    std::string F = fileOf(L);
    if (F.empty()) return false;
    if (F.rfind(Root, 0) != 0) return false;
    if (!Skip.empty() && F.find(Skip) != std::string::npos) return false;
    if (F.find("/_build/") != std::string::npos) return false;
    return true;
  }
  std::string ty(QualType T) {
    if (T.isNull()) return "";
    return T.getAsString(PP);
  }
  std::string cty(QualType T) {
    if (T.isNull()) return "";
    return T.getCanonicalType().getAsString(PP);
  }
  unsigned declId(const Decl *D) {
    D = D->getCanonicalDecl();
    auto It = DeclId.find(D);
    if (It != DeclId.end()) return It->second;
    return DeclId[D] = ++NextDecl;
  }
  std::string srcText(SourceRange R) {
    if (R.isInvalid()) return "";
    CharSourceRange CR = CharSourceRange::getTokenRange(
        SM.getExpansionLoc(R.getBegin()), SM.getExpansionLoc(R.getEnd()));
    return Lexer::getSourceText(CR, SM, Ctx.getLangOpts()).str();
  }

  std::string sig(const FunctionDecl *F) {
    std::string S = F->getQualifiedNameAsString();
    S += "(";
    bool first = true;
    for (const ParmVarDecl *P : F->parameters()) {
      if (!first) S += ",";
      first = false;
      S += cty(P->getType());
    }
    S += ")";
    if (auto *M = dyn_cast<CXXMethodDecl>(F))
      if (M->isConst()) S += " const";
    // instantiations of one function template that differ only in arguments not visible in the parameter list
    // (template <class T> T f(unsigned, double)) get distinct signatures: the return type is appended for them
    if (F->isFunctionTemplateSpecialization()) {
      S += " -> " + cty(F->getReturnType());
      if (const TemplateArgumentList *TA = F->getTemplateSpecializationArgs()) {
        S += " <";
        for (unsigned I = 0; I < TA->size(); ++I) {
          const TemplateArgument &A = TA->get(I);
          if (I) S += ",";
          if (A.getKind() == TemplateArgument::Type) S += cty(A.getAsType());
          else if (A.getKind() == TemplateArgument::Integral) S += std::to_string(A.getAsIntegral().getExtValue());
          else S += "?";
        }
        S += ">";
      }
    }
    return S;
  }

  void calleeInfo(const FunctionDecl *F) {
    if (!F) return;
    J.attribute("callee", F->getQualifiedNameAsString());
    J.attribute("callee_sig", sig(F));
    J.attribute("callee_in_root", inRoot(F->getLocation()));
    J.attributeArray("callee_params", [&] {
      for (const ParmVarDecl *P : F->parameters()) J.value(P->getNameAsString());
    });
    if (auto *M = dyn_cast<CXXMethodDecl>(F)) {
      J.attribute("callee_class", M->getParent()->getQualifiedNameAsString());
      J.attribute("callee_virtual", M->isVirtual());
      J.attribute("callee_const", M->isConst());
      J.attribute("callee_static", M->isStatic());
    }
  }

  void declRef(const ValueDecl *D) {
    J.attribute("name", D->getNameAsString());
    J.attribute("qname", D->getQualifiedNameAsString());
    J.attribute("decl", declId(D));
    J.attribute("dkind", D->getDeclKindName());
    J.attribute("dtype", ty(D->getType()));
    if (auto *EC = dyn_cast<EnumConstantDecl>(D))
      J.attribute("enumval", EC->getInitVal().getExtValue());
    if (auto *V = dyn_cast<VarDecl>(D)) {
      J.attribute("local", V->isLocalVarDeclOrParm());
      J.attribute("static_member", V->isStaticDataMember());
      J.attribute("is_const", V->getType().isConstQualified());
    }
    if (auto *FD = dyn_cast<FunctionDecl>(D)) J.attribute("fsig", sig(FD));
  }

  void varDecl(const VarDecl *V) {
    J.object([&] {
      J.attribute("k", "VarDecl");
      J.attribute("name", V->getNameAsString());
      J.attribute("decl", declId(V));
      J.attribute("type", ty(V->getType()));
      J.attribute("ctype", cty(V->getType()));
      J.attribute("line", lineOf(V->getLocation()));
      J.attribute("is_const", V->getType().isConstQualified());
      J.attribute("static_local", V->isStaticLocal());
      if (V->hasInit()) {
        J.attributeBegin("init");
        stmt(V->getInit());
        J.attributeEnd();
      }
    });
  }

  void child(const char *Name, const Stmt *S) {
    J.attributeBegin(Name);
    if (S) stmt(S); else J.value(nullptr);
    J.attributeEnd();
  }

  void stmt(const Stmt *S) {
    if (!S) { J.value(nullptr); return; }
    unsigned Id = ++NextStmt;
    StmtId[S] = Id;
    J.object([&] {
      J.attribute("k", S->getStmtClassName());
      J.attribute("id", Id);
      J.attribute("line", lineOf(S->getBeginLoc()));
      J.attribute("col", colOf(S->getBeginLoc()));
      J.attribute("eline", lineOf(S->getEndLoc()));
      bool genericChildren = true;
      if (auto *E = dyn_cast<Expr>(S)) {
        J.attribute("type", ty(E->getType()));
        J.attribute("ctype", cty(E->getType()));
      }
      if (auto *IL = dyn_cast<IntegerLiteral>(S)) {
        J.attribute("value", IL->getValue().getLimitedValue());
        J.attribute("text", srcText(IL->getSourceRange()));
      } else if (auto *FL = dyn_cast<FloatingLiteral>(S)) {
        J.attribute("value", FL->getValueAsApproximateDouble());
        J.attribute("text", srcText(FL->getSourceRange()));
      } else if (auto *BL = dyn_cast<CXXBoolLiteralExpr>(S)) {
        J.attribute("value", BL->getValue());
      } else if (auto *SL = dyn_cast<StringLiteral>(S)) {
        if (SL->getCharByteWidth() == 1) J.attribute("value", SL->getString());
      } else if (auto *CL = dyn_cast<CharacterLiteral>(S)) {
        J.attribute("value", (int64_t)CL->getValue());
      } else if (auto *DR = dyn_cast<DeclRefExpr>(S)) {
        declRef(DR->getDecl());
      } else if (auto *ME = dyn_cast<MemberExpr>(S)) {
        J.attribute("arrow", ME->isArrow());
        J.attributeBegin("member");
        J.object([&] { declRef(ME->getMemberDecl()); });
        J.attributeEnd();
        if (auto *FD = dyn_cast<FieldDecl>(ME->getMemberDecl()))
          J.attribute("field_class", FD->getParent()->getQualifiedNameAsString());
      } else if (auto *BO = dyn_cast<BinaryOperator>(S)) {
        J.attribute("op", BO->getOpcodeStr());
        if (auto *CA = dyn_cast<CompoundAssignOperator>(S))
          J.attribute("comp_type", ty(CA->getComputationResultType()));
      } else if (auto *UO = dyn_cast<UnaryOperator>(S)) {
        J.attribute("op", UnaryOperator::getOpcodeStr(UO->getOpcode()));
        J.attribute("postfix", UO->isPostfix());
      } else if (auto *CE = dyn_cast<CastExpr>(S)) {
        J.attribute("cast", CE->getCastKindName());
        if (auto *EC = dyn_cast<ExplicitCastExpr>(S))
          J.attribute("written", ty(EC->getTypeAsWritten()));
      } else if (auto *UE = dyn_cast<UnaryExprOrTypeTraitExpr>(S)) {
        J.attribute("trait", (int)UE->getKind());
        if (UE->isArgumentType()) J.attribute("argtype", ty(UE->getArgumentType()));
      }
      if (auto *TI = dyn_cast<CXXTypeidExpr>(S)) {
        if (TI->isTypeOperand())
          J.attribute("type_operand", cty(TI->getTypeOperand(Ctx)));
      }
      if (auto *OC = dyn_cast<CXXOperatorCallExpr>(S)) {
        J.attribute("op", getOperatorSpelling(OC->getOperator()));
      }
      if (auto *MC = dyn_cast<CXXMemberCallExpr>(S)) {
        calleeInfo(MC->getMethodDecl());
        if (const Expr *Obj = MC->getImplicitObjectArgument()) {
          // object is a sub-node of the callee MemberExpr; record its id later
          (void)Obj;
        }
      } else if (auto *CE = dyn_cast<CallExpr>(S)) {
        calleeInfo(CE->getDirectCallee());
      }
      if (auto *CE = dyn_cast<CallExpr>(S)) {
        genericChildren = false;
        child("fn", CE->getCallee());
        J.attributeArray("args", [&] {
          for (const Expr *A : CE->arguments()) stmt(A);
        });
      }
      if (auto *CC = dyn_cast<CXXConstructExpr>(S)) {
        calleeInfo(CC->getConstructor());
        J.attribute("list_init", CC->isListInitialization());
        J.attribute("elidable", CC->isElidable());
        genericChildren = false;
        J.attributeArray("args", [&] {
          for (const Expr *A : CC->arguments()) stmt(A);
        });
      }
      if (auto *NE = dyn_cast<CXXNewExpr>(S)) {
        J.attribute("alloc_type", ty(NE->getAllocatedType()));
        J.attribute("is_array", NE->isArray());
        genericChildren = false;
        if (NE->isArray() && NE->getArraySize()) child("array_size", *NE->getArraySize());
        if (NE->getInitializer()) child("init", NE->getInitializer());
        J.attributeArray("placement", [&] {
          for (const Expr *A : NE->placement_arguments()) stmt(A);
        });
      }
      if (auto *DE = dyn_cast<CXXDeleteExpr>(S)) {
        J.attribute("is_array", DE->isArrayForm());
      }
      if (auto *DS = dyn_cast<DeclStmt>(S)) {
        genericChildren = false;
        J.attributeArray("decls", [&] {
          for (const Decl *D : DS->decls()) {
            if (auto *V = dyn_cast<VarDecl>(D)) varDecl(V);
            else J.object([&] { J.attribute("k", D->getDeclKindName()); });
          }
        });
      }
      if (auto *FS = dyn_cast<ForStmt>(S)) {
        genericChildren = false;
        child("init", FS->getInit());
        child("cond", FS->getCond());
        child("inc", FS->getInc());
        child("body", FS->getBody());
      } else if (auto *RF = dyn_cast<CXXForRangeStmt>(S)) {
        genericChildren = false;
        J.attributeBegin("loopvar");
        varDecl(RF->getLoopVariable());
        J.attributeEnd();
        child("range", RF->getRangeInit());
        child("body", RF->getBody());
      } else if (auto *WS = dyn_cast<WhileStmt>(S)) {
        genericChildren = false;
        child("cond", WS->getCond());
        child("body", WS->getBody());
      } else if (auto *DoS = dyn_cast<DoStmt>(S)) {
        genericChildren = false;
        child("body", DoS->getBody());
        child("cond", DoS->getCond());
      } else if (auto *IS = dyn_cast<IfStmt>(S)) {
        genericChildren = false;
        child("init", IS->getInit());
        child("cond", IS->getCond());
        child("then", IS->getThen());
        child("else", IS->getElse());
      } else if (auto *SS = dyn_cast<SwitchStmt>(S)) {
        genericChildren = false;
        child("cond", SS->getCond());
        child("body", SS->getBody());
      } else if (auto *CS = dyn_cast<CaseStmt>(S)) {
        genericChildren = false;
        child("lhs", CS->getLHS());
        Expr::EvalResult R;
        if (CS->getLHS() && CS->getLHS()->EvaluateAsInt(R, Ctx))
          J.attribute("value", R.Val.getInt().getExtValue());
        child("sub", CS->getSubStmt());
      } else if (auto *DfS = dyn_cast<DefaultStmt>(S)) {
        genericChildren = false;
        child("sub", DfS->getSubStmt());
      } else if (auto *CO = dyn_cast<ConditionalOperator>(S)) {
        genericChildren = false;
        child("cond", CO->getCond());
        child("then", CO->getTrueExpr());
        child("else", CO->getFalseExpr());
      } else if (auto *TS = dyn_cast<CXXTryStmt>(S)) {
        genericChildren = false;
        child("body", TS->getTryBlock());
        J.attributeArray("handlers", [&] {
          for (unsigned i = 0; i < TS->getNumHandlers(); ++i) stmt(TS->getHandler(i));
        });
      } else if (auto *CS2 = dyn_cast<CXXCatchStmt>(S)) {
        genericChildren = false;
        J.attribute("caught", CS2->getExceptionDecl() ? ty(CS2->getCaughtType()) : "...");
        if (CS2->getExceptionDecl()) {
          J.attribute("catch_var", CS2->getExceptionDecl()->getNameAsString());
          J.attribute("catch_decl", declId(CS2->getExceptionDecl()));
        }
        child("body", CS2->getHandlerBlock());
      } else if (auto *LE = dyn_cast<LambdaExpr>(S)) {
        genericChildren = false;
        Lambdas.push_back(LE);
        if (const CXXMethodDecl *CO = LE->getCallOperator()) {
          J.attributeArray("params", [&] {
            for (const ParmVarDecl *P : CO->parameters()) {
              J.object([&] {
                J.attribute("name", P->getNameAsString());
                J.attribute("decl", declId(P));
                J.attribute("type", ty(P->getType()));
                J.attribute("ctype", cty(P->getType()));
              });
            }
          });
        }
        child("body", LE->getBody());
      } else if (auto *IL2 = dyn_cast<InitListExpr>(S)) {
        genericChildren = false;
        const InitListExpr *Sem = IL2->isSemanticForm() ? IL2 : IL2->getSemanticForm();
        if (!Sem) Sem = IL2;
        J.attributeArray("inits", [&] {
          for (const Expr *A : Sem->inits()) stmt(A);
        });
      }
      if (genericChildren) {
        J.attributeArray("c", [&] {
          for (const Stmt *C : S->children()) stmt(C);
        });
      }
      // constant value of integral expressions where clang can fold them
      if (auto *E = dyn_cast<Expr>(S)) {
        if (!E->isValueDependent() && E->getType()->isIntegralOrEnumerationType() &&
            !isa<IntegerLiteral>(E)) {
          Expr::EvalResult R;
          if (E->EvaluateAsInt(R, Ctx, Expr::SE_NoSideEffects))
            J.attribute("const", R.Val.getInt().getExtValue());
        }
      }
    });
  }

  std::vector<const LambdaExpr *> Lambdas;

  void cfg(const FunctionDecl *F) {
    cfgOf(F, "cfg");
    // the lambdas written inside this function: their bodies are part of the dumped AST; give each its own CFG
    if (!Lambdas.empty()) {
      std::vector<const LambdaExpr *> Ls;
      Ls.swap(Lambdas);
      J.attributeArray("lambda_cfgs", [&] {
        for (const LambdaExpr *LE : Ls) {
          const CXXMethodDecl *CO = LE->getCallOperator();
          auto It = StmtId.find(LE);
          if (!CO || !CO->getBody() || It == StmtId.end()) continue;
          J.object([&] {
            J.attribute("lambda", (int64_t)It->second);
            cfgOf(CO, "cfg");
          });
        }
      });
      Lambdas.clear();
    }
  }

  void cfgOf(const FunctionDecl *F, const char *Name) {
    CFG::BuildOptions BO;
    BO.setAllAlwaysAdd();
    BO.AddInitializers = true;
    BO.AddEHEdges = false;
    BO.AddImplicitDtors = false;
    BO.AddTemporaryDtors = false;
    std::unique_ptr<CFG> G = CFG::buildCFG(F, F->getBody(), &Ctx, BO);
    if (!G) { J.attribute(Name, nullptr); return; }
    J.attributeObject(Name, [&] {
      J.attribute("entry", G->getEntry().getBlockID());
      J.attribute("exit", G->getExit().getBlockID());
      J.attributeArray("blocks", [&] {
        for (const CFGBlock *B : *G) {
          J.object([&] {
            J.attribute("id", B->getBlockID());
            J.attribute("noreturn", B->hasNoReturnElement());
            J.attributeArray("elems", [&] {
              for (const CFGElement &E : *B) {
                if (auto CS = E.getAs<CFGStmt>()) {
                  auto It = StmtId.find(CS->getStmt());
                  if (It != StmtId.end()) J.value(It->second);
                  else J.value(0);
                } else if (auto CI = E.getAs<CFGInitializer>()) {
                  const CXXCtorInitializer *I = CI->getInitializer();
                  auto It = StmtId.find(I->getInit());
                  J.object([&] {
                    J.attribute("init", It != StmtId.end() ? (int64_t)It->second : 0);
                  });
                }
              }
            });
            J.attributeArray("succs", [&] {
              for (auto SI = B->succ_begin(); SI != B->succ_end(); ++SI) {
                if (const CFGBlock *SB = SI->getReachableBlock())
                  J.value(SB->getBlockID());
                else if (const CFGBlock *UB = SI->getPossiblyUnreachableBlock())
                  J.object([&] { J.attribute("unreachable", UB->getBlockID()); });
                else
                  J.value(nullptr);
              }
            });
            if (const Stmt *T = B->getTerminatorStmt()) {
              auto It = StmtId.find(T);
              J.attribute("term", It != StmtId.end() ? (int64_t)It->second : 0);
              J.attribute("term_kind", T->getStmtClassName());
            }
            if (const Stmt *TC = B->getTerminatorCondition()) {
              auto It = StmtId.find(TC);
              J.attribute("term_cond", It != StmtId.end() ? (int64_t)It->second : 0);
            }
            if (const Stmt *L = B->getLabel()) {
              auto It = StmtId.find(L);
              J.attribute("label", It != StmtId.end() ? (int64_t)It->second : 0);
              J.attribute("label_kind", L->getStmtClassName());
            }
          });
        }
      });
    });
  }

  void function(const FunctionDecl *F) {
    J.object([&] {
      J.attribute("qname", F->getQualifiedNameAsString());
      J.attribute("sig", sig(F));
      J.attribute("name", F->getNameAsString());
      J.attribute("file", fileOf(F->getLocation()));
      J.attribute("line", lineOf(F->getLocation()));
      J.attribute("eline", lineOf(F->getEndLoc()));
      J.attribute("ret", ty(F->getReturnType()));
      J.attribute("template_inst", F->isTemplateInstantiation());
      const char *Kind = "function";
      if (isa<CXXConstructorDecl>(F)) Kind = "ctor";
      else if (isa<CXXDestructorDecl>(F)) Kind = "dtor";
      else if (isa<CXXMethodDecl>(F)) Kind = "method";
      J.attribute("kind", Kind);
      if (auto *M = dyn_cast<CXXMethodDecl>(F)) {
        J.attribute("class", M->getParent()->getQualifiedNameAsString());
        J.attribute("virtual", M->isVirtual());
        J.attribute("const", M->isConst());
        J.attribute("static", M->isStatic());
        J.attributeArray("overrides", [&] {
          for (const CXXMethodDecl *O : M->overridden_methods()) J.value(sig(O));
        });
      }
      J.attributeArray("params", [&] {
        for (const ParmVarDecl *P : F->parameters()) {
          J.object([&] {
            J.attribute("name", P->getNameAsString());
            J.attribute("decl", declId(P));
            J.attribute("type", ty(P->getType()));
            J.attribute("ctype", cty(P->getType()));
            if (P->hasDefaultArg() && !P->hasUninstantiatedDefaultArg() &&
                !P->hasUnparsedDefaultArg()) {
              J.attribute("default_text", srcText(P->getDefaultArg()->getSourceRange()));
            }
          });
        }
      });
      // parameter names as written in the other declarations of this function (header prototype, in-class declaration):
      // callers read those, the body uses the definition's
      J.attributeArray("decl_params", [&] {
        for (const FunctionDecl *R : F->redecls()) {
          if (R == F) continue;
          J.array([&] {
            for (const ParmVarDecl *P : R->parameters()) J.value(P->getNameAsString());
          });
        }
      });
      if (auto *C = dyn_cast<CXXConstructorDecl>(F)) {
        J.attribute("delegating", C->isDelegatingConstructor());
        J.attribute("copy_ctor", C->isCopyConstructor());
        J.attributeArray("inits", [&] {
          for (const CXXCtorInitializer *I : C->inits()) {
            J.object([&] {
              J.attribute("written", I->isWritten());
              J.attribute("line", lineOf(I->getSourceLocation()));
              if (I->isBaseInitializer()) {
                J.attribute("ikind", "base");
                J.attribute("target", ty(QualType(I->getBaseClass(), 0)));
              } else if (I->isDelegatingInitializer()) {
                J.attribute("ikind", "delegating");
                J.attribute("target", ty(I->getTypeSourceInfo()->getType()));
              } else if (I->isAnyMemberInitializer()) {
                J.attribute("ikind", "member");
                J.attribute("target", I->getAnyMember()->getNameAsString());
                J.attribute("target_decl", declId(I->getAnyMember()));
              }
              J.attributeBegin("expr");
              stmt(I->getInit());
              J.attributeEnd();
            });
          }
        });
      }
      J.attributeBegin("body");
      stmt(F->getBody());
      J.attributeEnd();
      cfg(F);
    });
  }

  void record(const CXXRecordDecl *R) {
    J.object([&] {
      J.attribute("qname", R->getQualifiedNameAsString());
      J.attribute("file", fileOf(R->getLocation()));
      J.attribute("line", lineOf(R->getLocation()));
      J.attribute("abstract", R->isAbstract());
      J.attributeArray("bases", [&] {
        for (const CXXBaseSpecifier &B : R->bases()) J.value(ty(B.getType()));
      });
      J.attributeArray("fields", [&] {
        for (const FieldDecl *FD : R->fields()) {
          J.object([&] {
            J.attribute("name", FD->getNameAsString());
            J.attribute("decl", declId(FD));
            J.attribute("type", ty(FD->getType()));
            J.attribute("ctype", cty(FD->getType()));
            J.attribute("mutable", FD->isMutable());
            J.attribute("line", lineOf(FD->getLocation()));
            if (FD->hasInClassInitializer() && FD->getInClassInitializer())
              J.attribute("init_text", srcText(FD->getInClassInitializer()->getSourceRange()));
          });
        }
      });
      J.attributeArray("static_members", [&] {
        for (const Decl *D : R->decls()) {
          if (auto *V = dyn_cast<VarDecl>(D)) {
            J.object([&] {
              J.attribute("name", V->getNameAsString());
              J.attribute("decl", declId(V));
              J.attribute("type", ty(V->getType()));
            });
          }
        }
      });
      J.attributeArray("methods", [&] {
        for (const CXXMethodDecl *M : R->methods()) {
          if (M->isImplicit()) continue;
          J.object([&] {
            J.attribute("name", M->getNameAsString());
            J.attribute("sig", sig(M));
            J.attribute("virtual", M->isVirtual());
            J.attribute("pure", M->isPure());
            J.attribute("const", M->isConst());
            J.attribute("static", M->isStatic());
            J.attribute("deleted", M->isDeleted());
            J.attribute("line", lineOf(M->getLocation()));
            J.attributeArray("params", [&] {
              for (const ParmVarDecl *P : M->parameters()) {
                J.object([&] {
                  J.attribute("name", P->getNameAsString());
                  J.attribute("type", ty(P->getType()));
                  if (P->hasDefaultArg() && !P->hasUninstantiatedDefaultArg() &&
                      !P->hasUnparsedDefaultArg())
                    J.attribute("default_text",
                                srcText(P->getDefaultArg()->getSourceRange()));
                });
              }
            });
            J.attributeArray("overrides", [&] {
              for (const CXXMethodDecl *O : M->overridden_methods()) J.value(sig(O));
            });
          });
        }
      });
    });
  }
};

class Visitor : public RecursiveASTVisitor<Visitor> {
public:
  Dumper &D;
  std::vector<const FunctionDecl *> Funcs;
  std::vector<const CXXRecordDecl *> Recs;
  std::vector<const EnumDecl *> Enums;
  std::vector<const VarDecl *> Globals;
  std::vector<const TypedefNameDecl *> Typedefs;
  std::set<const Decl *> Seen;
  explicit Visitor(Dumper &D) : D(D) {}
  bool shouldVisitTemplateInstantiations() const { return true; }
  bool shouldVisitImplicitCode() const { return false; }

  bool VisitFunctionDecl(FunctionDecl *F) {
    if (!F->doesThisDeclarationHaveABody()) return true;
    if (F->isDependentContext()) return true;
    if (!D.inRoot(F->getLocation())) return true;
    if (F->isDefaulted() && !F->getBody()) return true;
    if (Seen.insert(F).second) Funcs.push_back(F);
    return true;
  }
  bool VisitCXXRecordDecl(CXXRecordDecl *R) {
    if (!R->isThisDeclarationADefinition()) return true;
    if (R->isDependentContext()) return true;
    if (R->isLambda()) return true;
    if (!D.inRoot(R->getLocation())) return true;
    if (Seen.insert(R).second) Recs.push_back(R);
    return true;
  }
  bool VisitEnumDecl(EnumDecl *E) {
    if (!E->isThisDeclarationADefinition()) return true;
    if (!D.inRoot(E->getLocation())) return true;
    if (Seen.insert(E).second) Enums.push_back(E);
    return true;
  }
  bool VisitVarDecl(VarDecl *V) {
    if (V->isLocalVarDeclOrParm()) return true;
    if (!D.inRoot(V->getLocation())) return true;
    if (V->getDeclContext()->isDependentContext()) return true;
    if (Seen.insert(V).second) Globals.push_back(V);
    return true;
  }
  bool VisitTypedefNameDecl(TypedefNameDecl *T) {
    if (!D.inRoot(T->getLocation())) return true;
    if (T->getDeclContext()->isDependentContext()) return true;
    if (T->getDeclContext()->isFunctionOrMethod()) return true;
    if (Seen.insert(T).second) Typedefs.push_back(T);
    return true;
  }
};

class Consumer : public ASTConsumer {
public:
  std::string MainFile;
  explicit Consumer(std::string MF) : MainFile(std::move(MF)) {}
  void HandleTranslationUnit(ASTContext &Ctx) override {
    if (Ctx.getDiagnostics().hasErrorOccurred()) {
      llvm::errs() << "isa-extract: parse errors in " << MainFile << "\n";
      // still write nothing: caller treats missing output as analysis-broken
      return;
    }
    std::error_code EC;
    std::unique_ptr<llvm::raw_fd_ostream> FS;
    llvm::raw_ostream *OS = &llvm::outs();
    if (Out != "-") {
      FS = std::make_unique<llvm::raw_fd_ostream>(Out, EC);
      if (EC) { llvm::errs() << "cannot open " << Out << "\n"; return; }
      OS = FS.get();
    }
    OStream J(*OS, 0);
    Dumper D(Ctx, J);
    Visitor V(D);
    V.TraverseDecl(Ctx.getTranslationUnitDecl());
    J.object([&] {
      J.attribute("unit", MainFile);
      J.attributeArray("functions", [&] {
        for (const FunctionDecl *F : V.Funcs) D.function(F);
      });
      J.attributeArray("records", [&] {
        for (const CXXRecordDecl *R : V.Recs) D.record(R);
      });
      J.attributeArray("enums", [&] {
        for (const EnumDecl *E : V.Enums) {
          J.object([&] {
            J.attribute("qname", E->getQualifiedNameAsString());
            J.attribute("scoped", E->isScoped());
            J.attribute("underlying", D.ty(E->getIntegerType()));
            J.attributeArray("constants", [&] {
              for (const EnumConstantDecl *C : E->enumerators()) {
                J.object([&] {
                  J.attribute("name", C->getNameAsString());
                  J.attribute("value", C->getInitVal().getExtValue());
                });
              }
            });
          });
        }
      });
      J.attributeArray("globals", [&] {
        for (const VarDecl *G : V.Globals) {
          J.object([&] {
            J.attribute("qname", G->getQualifiedNameAsString());
            J.attribute("decl", D.declId(G));
            J.attribute("type", D.ty(G->getType()));
            J.attribute("ctype", D.cty(G->getType()));
            J.attribute("file", D.fileOf(G->getLocation()));
            J.attribute("line", D.lineOf(G->getLocation()));
            J.attribute("is_const", G->getType().isConstQualified());
            J.attribute("constexpr", G->isConstexpr());
            if (G->hasInit() && G->isThisDeclarationADefinition()) {
              J.attributeBegin("init");
              D.stmt(G->getInit());
              J.attributeEnd();
            }
          });
        }
      });
      J.attributeArray("typedefs", [&] {
        for (const TypedefNameDecl *T : V.Typedefs) {
          J.object([&] {
            J.attribute("qname", T->getQualifiedNameAsString());
            J.attribute("type", D.ty(T->getUnderlyingType()));
            J.attribute("ctype", D.cty(T->getUnderlyingType()));
          });
        }
      });
    });
    OS->flush();
  }
};

class Action : public ASTFrontendAction {
public:
  std::unique_ptr<ASTConsumer> CreateASTConsumer(CompilerInstance &CI,
                                                 StringRef InFile) override {
    return std::make_unique<Consumer>(InFile.str());
  }
};

} // namespace

int main(int argc, const char **argv) {
  auto Opts = tooling::CommonOptionsParser::create(argc, argv, Cat);
  if (!Opts) {
    llvm::errs() << llvm::toString(Opts.takeError()) << "\n";
    return 2;
  }
  tooling::ClangTool Tool(Opts->getCompilations(), Opts->getSourcePathList());
  int RC = Tool.run(tooling::newFrontendActionFactory<Action>().get());
  return RC ? 2 : 0;
}
