#!/bin/sh
# usage: harvest_refactor.sh <letter> <tag>  — copy the patches of a refactoring sub-agent from /tmp/wtr3-<letter>/_refactor into benign/<tag>-ref-k.diff,
# drop the worktree, and run all 20 checks on each (must be silent)
k=$1; tag=$2
for f in /tmp/wtr3-$k/_refactor/ref-*.diff; do cp $f /verif/benign/$tag-$(basename $f); done
cp /tmp/wtr3-$k/_refactor/INDEX.md /verif/benign/$tag-INDEX.md
git -C /repo worktree remove --force /tmp/wtr3-$k
cd /verif; PAT="$tag-ref" JOBS=4 sh tool/benign_all.sh
