#!/bin/sh
# usage: harvest3.sh Cxx   — take the round-3 sub-agent's deliverables out of its worktree, drop the worktree, confirm the
# change on a fresh worktree (seed_eval.sh) and run all 20 checks on it.  Result: /tmp/seed7/Cxx/ + /tmp/seed7/Cxx.log
p=$1
mkdir -p /tmp/seed7
rm -rf /tmp/seed7/$p
cp -r /tmp/wt7-$p/_seed /tmp/seed7/$p || exit 2
git -C /repo worktree remove --force /tmp/wt7-$p
sh /verif/tool/seed_eval.sh r7$p /tmp/seed7/$p C01 C02 C03 C04 C05 C06 C07 C08 C09 C10 C11 C12 C13 C14 C15 C16 C17 C18 C19 C20 > /tmp/seed7/$p.log 2>&1
grep -E "^== summary|^   exit|build exit|VIOLATION|BROKEN|^  " /tmp/seed7/$p.log | grep -v KNOWN | cut -c1-400
