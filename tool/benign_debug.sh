#!/bin/sh
# usage: benign_debug.sh <patch> <prop> : apply the patch to a kept scratch copy /tmp/bd-<patchname> and run one check verbosely
p=$1; prop=$2; n=$(basename $p .diff); d=/tmp/bd-$n
if [ ! -d $d ]; then mkdir -p $d; cp -r /repo/src /repo/inc /repo/cmake /repo/test /repo/CMakeLists.txt /repo/InovesaConfig.hpp.in $d/; patch -p1 -s -d $d -i $(realpath $p) || exit 3; fi
cd /verif; ISA_REPO=$d ISA_EVIDENCE_DIR=$d/_ev python3-vt -m sa.main $prop 2>&1 | grep -v "^WARNING\|^KNOWN"
