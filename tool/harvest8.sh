#!/bin/sh
# usage: harvest3.sh Cxx   — take the round-3 sub-agent's deliverables out of its worktree, drop the worktree, confirm the
# change on a fresh worktree (seed_eval.sh) and run all 20 checks on it.  Result: /tmp/seed8/Cxx/ + /tmp/seed8/Cxx.log
p=$1
mkdir -p /tmp/seed8
rm -rf /tmp/seed8/$p
cp -r /tmp/wt8-$p/_seed /tmp/seed8/$p || exit 2
git -C /repo worktree remove --force /tmp/wt8-$p
sh /verif/tool/seed_eval.sh r8$p /tmp/seed8/$p C01 C02 C03 C04 C05 C06 C07 C08 C09 C10 C11 C12 C13 C14 C15 C16 C17 C18 C19 C20 > /tmp/seed8/$p.log 2>&1
grep -E "^== summary|^   exit|build exit|VIOLATION|BROKEN|^  " /tmp/seed8/$p.log | grep -v KNOWN | cut -c1-400
