#!/bin/sh
# builds the libTooling fact extractor (offline; clang/llvm 14 from the image)
set -e
cd "$(dirname "$0")/.."
mkdir -p .build
clang++ $(llvm-config-14 --cxxflags) -fno-rtti -O1 tool/isa-extract.cc -o .build/isa-extract.tmp$$ \
  /usr/lib/llvm-14/lib/libclang-cpp.so.14 /usr/lib/llvm-14/lib/libLLVM-14.so
mv .build/isa-extract.tmp$$ .build/isa-extract
