"""E1: syntax-directed translation of C++ arithmetic expression trees into sympy
expressions over the rationals (exact real arithmetic; floating-point rounding
is deliberately abstracted away and every rule using this says so).

No program path is explored and no solver is involved: rules built on this are
polynomial identities decided by sympy's expand/simplify normal forms.
"""
from fractions import Fraction
import re
import sympy as sp
from . import ast as A


class Unconvertible(Exception):
    def __init__(self, node, why=""):
        self.node = node
        Exception.__init__(self, "cannot translate %s (%s) at line %s: %s"
                           % (node.get("k") if isinstance(node, dict) else node, why,
                              node.get("line") if isinstance(node, dict) else "?",
                              A.show(node) if isinstance(node, dict) else ""))


def literal(text, value):
    t = (text or "").strip()
    t = re.sub(r"[fFlLuU]+$", "", t)
    if re.fullmatch(r"0[xX][0-9a-fA-F]+", t):
        return sp.Integer(int(t, 16))
    if re.fullmatch(r"[0-9]+", t):
        return sp.Integer(int(t))
    if re.fullmatch(r"[0-9]*\.?[0-9]*([eE][-+]?[0-9]+)?", t) and re.search(r"[0-9]", t):
        m = re.fullmatch(r"([0-9]*\.?[0-9]*)([eE]([-+]?[0-9]+))?", t)
        mant = m.group(1)
        if mant.endswith("."):
            mant += "0"
        if mant.startswith("."):
            mant = "0" + mant
        f = Fraction(mant)
        if m.group(3):
            f *= Fraction(10) ** int(m.group(3))
        return sp.Rational(f.numerator, f.denominator)
    if isinstance(value, bool):
        return sp.Integer(1 if value else 0)
    if isinstance(value, int):
        return sp.Integer(value)
    if isinstance(value, float):
        f = Fraction(value).limit_denominator(10 ** 12)
        return sp.Rational(f.numerator, f.denominator)
    raise ValueError(text)


def is_integral(ctype):
    t = (ctype or "").replace("const ", "").strip()
    return t in ("int", "unsigned int", "long", "unsigned long", "short", "unsigned short", "char",
                 "unsigned char", "signed char", "long long", "unsigned long long", "bool") or \
        t.startswith("vfps::") and False


STD_FUNCS = {
    "std::sqrt": sp.sqrt, "sqrt": sp.sqrt, "std::sin": sp.sin, "sin": sp.sin, "std::cos": sp.cos,
    "cos": sp.cos, "std::tan": sp.tan, "tan": sp.tan, "std::exp": sp.exp, "exp": sp.exp,
    "std::log": sp.log, "log": sp.log, "std::asin": sp.asin, "asin": sp.asin,
    "std::floor": sp.floor, "floor": sp.floor, "std::ceil": sp.ceiling, "ceil": sp.ceiling,
    "std::abs": sp.Abs, "std::fabs": sp.Abs, "abs": sp.Abs, "fabs": sp.Abs,
    "std::pow": lambda a, b: a ** b, "pow": lambda a, b: a ** b,
    "std::min": sp.Min, "std::max": sp.Max,
    "std::round": lambda a: sp.Function("round")(a), "round": lambda a: sp.Function("round")(a),
}


class Translator:
    """env: decl id -> sympy expr (bindings of locals / parameters)
    hooks: list of callables(node, tr) -> sympy expr or None, tried before the defaults"""

    def __init__(self, hooks=(), symbols_assume=None):
        self.env = {}
        self.hooks = list(hooks)
        self.syms = {}
        self.assume = symbols_assume or {}

    def sym(self, name, **kw):
        if name not in self.syms:
            a = dict(real=True)
            a.update(self.assume.get(name, {}))
            a.update(kw)
            self.syms[name] = sp.Symbol(name, **a)
        return self.syms[name]

    def bind(self, decl, expr):
        self.env[decl] = expr

    def conv(self, n):
        if n is None:
            raise Unconvertible({"k": "null"}, "null node")
        for h in self.hooks:
            r = h(n, self)
            if r is not None:
                return r
        k = n["k"]
        if k in A.TRANSPARENT or k in A.EXPLICIT_CASTS:
            ch = n.get("c") or []
            if len(ch) == 1:
                return self.conv(ch[0])
            raise Unconvertible(n, "wrapper arity")
        if k in ("IntegerLiteral", "FloatingLiteral"):
            return literal(n.get("text"), n.get("value"))
        if k == "CXXBoolLiteralExpr":
            return sp.Integer(1 if n["value"] else 0)
        if k == "DeclRefExpr":
            if n.get("dkind") == "EnumConstant":
                return sp.Integer(n["enumval"])
            if n["decl"] in self.env:
                return self.env[n["decl"]]
            if n.get("static_member") or not n.get("local", True):
                return self.sym(n["qname"].replace("vfps::", "").replace("::", "_"))
            return self.sym(n["name"])
        if k == "MemberExpr":
            base = n["c"][0] if n.get("c") else None
            if base is not None and A.is_this(base):
                return self.sym(n["member"]["name"])
            return self.sym(A.show(n).replace("->", ".").replace(" ", ""))
        if k == "UnaryOperator":
            v = self.conv(n["c"][0])
            if n["op"] == "-":
                return -v
            if n["op"] == "+":
                return v
            raise Unconvertible(n, "unary " + n["op"])
        if k == "BinaryOperator":
            op = n["op"]
            if op in ("+", "-", "*", "/"):
                a, b = self.conv(n["c"][0]), self.conv(n["c"][1])
                if op == "+":
                    return a + b
                if op == "-":
                    return a - b
                if op == "*":
                    return a * b
                if is_integral(n.get("ctype")):
                    q = a / b
                    q = sp.nsimplify(q) if q.is_number else q
                    return sp.floor(q)
                return a / b
            raise Unconvertible(n, "binary " + op)
        if k == "CallExpr":
            f = STD_FUNCS.get(n.get("callee"))
            if f is not None:
                return f(*[self.conv(a) for a in n["args"]])
            raise Unconvertible(n, "call to %s" % n.get("callee"))
        if k == "StringLiteral":
            return sp.Symbol('"%s"' % n.get("value", ""))
        if k in ("CXXConstructExpr", "CXXTemporaryObjectExpr") and "basic_string" in (n.get("ctype") or "") and n.get("args"):
            lit = [y for y in A.walk(n["args"][0]) if y["k"] == "StringLiteral"]
            if len(lit) == 1:
                return sp.Symbol('"%s"' % lit[0].get("value", ""))
        if k in ("CXXConstructExpr", "CXXTemporaryObjectExpr") and len(n.get("args", [])) == 1:
            return self.conv(n["args"][0])
        if k == "ConditionalOperator":
            raise Unconvertible(n, "conditional")
        raise Unconvertible(n, "unsupported")


def lvalue_key(n, tr):
    """canonical key of an assignable cell: ('arr', name, index expr) / ('var', decl) / ('field', name)
    with optional trailing member path (e.g. .weight)"""
    n = A.strip(n)
    k = n.get("k")
    if k == "DeclRefExpr":
        return ("var", n["decl"], n["name"])
    if k == "MemberExpr":
        base = n["c"][0]
        if A.is_this(base):
            return ("field", n["member"]["name"])
        inner = lvalue_key(base, tr)
        return inner + ("." + n["member"]["name"],)
    if k == "ArraySubscriptExpr":
        base = A.strip(n["c"][0])
        idx = sp.expand(tr.conv(n["c"][1]))
        bname = A.show(base)
        return ("arr", bname, idx)
    if k == "CXXOperatorCallExpr" and n.get("op") == "[]":
        base = A.strip(n["args"][0])
        idx = sp.expand(tr.conv(n["args"][1]))
        return ("arr", A.show(base), idx)
    raise Unconvertible(n, "lvalue")
