"""Run isa-extract over the units of the inovesa target (in parallel, one JSON
per unit) and merge the facts into one Program model.

Facts are cached under /verif/.cache/facts-<hash>, the hash covering every
file under /repo/src, /repo/inc, the cmake inputs and the extractor binary:
each check run therefore decides on /repo's *current* working tree; an
unchanged tree re-uses the extraction of the previous check.
"""
import hashlib, json, os, shutil, subprocess, sys, time
from concurrent.futures import ThreadPoolExecutor
from . import compdb
from .compdb import AnalysisBroken, REPO, VERIF, CACHE

EXTRACT = os.path.join(VERIF, ".build", "isa-extract")

# units that only contain OpenCL / OpenGL code compiled out in this configuration
def tree_files():
    out = []
    for sub in ("src", "inc"):
        for root, _, files in os.walk(os.path.join(REPO, sub)):
            for f in files:
                out.append(os.path.join(root, f))
    return out

def tree_hash(extra=""):
    h = hashlib.sha256()
    for p in sorted(tree_files() + compdb._cmake_inputs() + [EXTRACT]):
        h.update(p.encode())
        try:
            with open(p, "rb") as f:
                h.update(f.read())
        except OSError:
            h.update(b"<missing>")
    h.update(extra.encode())
    return h.hexdigest()[:16]

def ensure_extractor():
    src = os.path.join(VERIF, "tool", "isa-extract.cc")
    if os.path.exists(EXTRACT) and os.path.getmtime(EXTRACT) >= os.path.getmtime(src):
        return
    r = subprocess.run(["sh", os.path.join(VERIF, "tool", "build.sh")],
                       stdout=subprocess.PIPE, stderr=subprocess.STDOUT, text=True)
    if r.returncode != 0 or not os.path.exists(EXTRACT):
        raise AnalysisBroken("cannot build isa-extract:\n" + r.stdout[-3000:])

def _extract_one(src, flags, out):
    cmd = [EXTRACT, "--root=" + REPO, "--out=" + out, src, "--"] + flags
    r = subprocess.run(cmd, stdout=subprocess.PIPE, stderr=subprocess.PIPE, text=True)
    if r.returncode != 0 or not os.path.exists(out) or os.path.getsize(out) == 0:
        return (src, r.stderr[-3000:] or "no output")
    return (src, None)

def extract(defines=(), tag="default"):
    """-> directory with one json per unit"""
    ensure_extractor()
    units, bdir = compdb.load()
    if os.path.realpath(REPO) != "/repo":
        tag += "-s" + hashlib.sha256(os.path.realpath(REPO).encode()).hexdigest()[:6]
    key = tree_hash(tag + " ".join(defines))
    fdir = os.path.join(CACHE, "facts-%s-%s" % (tag, key))
    done = os.path.join(fdir, "DONE")
    if os.path.exists(done):
        return fdir, units
    os.makedirs(CACHE, exist_ok=True)
    for d in os.listdir(CACHE):
        if d.startswith("facts-%s-" % tag) and not d.startswith("facts-%s-%s" % (tag, key)):
            shutil.rmtree(os.path.join(CACHE, d), ignore_errors=True)
    tmp = fdir + ".tmp%d" % os.getpid()
    os.makedirs(tmp, exist_ok=True)
    jobs = []
    with ThreadPoolExecutor(max_workers=min(16, os.cpu_count() or 4)) as ex:
        for src, flags in units:
            fl = list(flags)
            for d in defines:
                # later -D wins over the database's value
                fl.append("-U" + d.split("=")[0])
                fl.append("-D" + d)
            out = os.path.join(tmp, os.path.relpath(src, REPO).replace("/", "__") + ".json")
            jobs.append(ex.submit(_extract_one, src, fl, out))
        errs = [j.result() for j in jobs]
    bad = [(s, e) for s, e in errs if e]
    if bad:
        shutil.rmtree(tmp, ignore_errors=True)
        raise AnalysisBroken("units failed to parse: " +
                             "; ".join("%s: %s" % (s, e.strip().splitlines()[-1] if e.strip() else "?")
                                       for s, e in bad))
    open(os.path.join(tmp, "DONE"), "w").write(time.ctime())
    try:
        os.rename(tmp, fdir)
    except OSError:
        shutil.rmtree(tmp, ignore_errors=True)
    return fdir, units


def _strip_targs(q):
    out, depth = [], 0
    for ch in q:
        if ch == "<":
            depth += 1
        elif ch == ">":
            depth -= 1
        elif depth == 0:
            out.append(ch)
    return "".join(out)


class Function(dict):
    @property
    def where(self):
        return "%s:%d" % (os.path.relpath(self["file"], REPO), self["line"])


class Program:
    def __init__(self, fdir, units, only=None):
        self.units = []
        self.functions = {}     # sig -> Function
        self.by_qname = {}
        self.records = {}
        self.enums = {}
        self.globals = {}
        self.typedefs = {}
        self.unit_of = {}
        self.copies = {}        # (sig, unit) -> Function: the copy of an inline/header function as seen by that unit (same decl ids as its callers there)
        for src, _ in units:
            rel = os.path.relpath(src, REPO)
            if only is not None and rel not in only:
                continue
            p = os.path.join(fdir, rel.replace("/", "__") + ".json")
            d = json.load(open(p))
            self.units.append(rel)
            for f in d["functions"]:
                f = Function(f)
                f["unit"] = rel
                self.copies[(f["sig"], rel)] = f
                if f["sig"] not in self.functions:
                    self.functions[f["sig"]] = f
                    self.by_qname.setdefault(f["qname"], []).append(f)
                    nt = _strip_targs(f["qname"])
                    if nt != f["qname"]:
                        self.by_qname.setdefault(nt, []).append(f)
            for r in d["records"]:
                self.records.setdefault(r["qname"], r)
            for e in d["enums"]:
                self.enums.setdefault(e["qname"], e)
            for g in d["globals"]:
                if g["qname"] not in self.globals or ("init" in g and "init" not in self.globals[g["qname"]]):
                    self.globals[g["qname"]] = g
            for t in d["typedefs"]:
                self.typedefs.setdefault(t["qname"], t)

    def fn(self, qname, nparams=None, param_names=None):
        """resolve a table entry to exactly one function definition or raise AnalysisBroken"""
        c = self.by_qname.get(qname, [])
        if nparams is not None:
            c = [f for f in c if len(f["params"]) == nparams]
        if param_names is not None:
            c = [f for f in c if [p["name"] for p in f["params"]][:len(param_names)] == list(param_names)]
        if len(c) != 1:
            raise AnalysisBroken("anchor %s (nparams=%s names=%s) resolves to %d definitions"
                                 % (qname, nparams, param_names, len(c)))
        return c[0]

    def fns(self, qname):
        return list(self.by_qname.get(qname, []))

    def record(self, qname):
        if qname not in self.records:
            raise AnalysisBroken("anchor class %s not found" % qname)
        return self.records[qname]

    def subclasses(self, qname):
        out = set()
        changed = True
        while changed:
            changed = False
            for r in self.records.values():
                if r["qname"] in out:
                    continue
                for b in r["bases"]:
                    b = b if b.startswith("vfps::") else b
                    if b == qname or b in out or ("vfps::" + b) == qname or ("vfps::" + b) in out:
                        out.add(r["qname"]); changed = True
        return out


def load_program(only=None, defines=(), tag="default"):
    fdir, units = extract(defines, tag)
    prog = Program(fdir, units, only)
    from . import indexmap
    indexmap.PROGRAM = prog
    # main's locals are addressed by role, not by the name they happen to have (see roles.py)
    if "main" in prog.by_qname:
        from . import roles
        roles.canonicalise_main(prog)
    return prog
