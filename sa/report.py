"""Verdict collection, known-finding matching, evidence files, exit codes."""
import json, os, sys, time
from .compdb import VERIF, AnalysisBroken

KNOWN = os.path.join(VERIF, "known_findings.json")


class Check:
    def __init__(self, pid, tier, level="other"):
        self.pid = pid
        self.tier = tier
        self.level = level
        self.t0 = time.time()
        self.instances = []     # dict(rule, site, ok, what, key)
        self.units = []
        self.functions = set()
        self.assumptions = []
        self.tables = {}
        self.trusted = []
        self.floors = {}        # rule -> (found, floor)
        self.notes = []
        self.controls = []      # positive controls / mutants run (thorough)

    # -- recording -------------------------------------------------------
    def ok(self, rule, site, what, nontrivial=True):
        self.instances.append(dict(rule=rule, site=site, ok=True, what=what, nontrivial=nontrivial))

    def fail(self, rule, site, what, key, facts=None):
        """key: normalised identity of the violation (rule + function + conflicting facts, no line numbers)"""
        self.instances.append(dict(rule=rule, site=site, ok=False, what=what,
                                   key="%s:%s:%s" % (self.pid, rule, key), facts=facts or {},
                                   nontrivial=True))

    def check(self, cond, rule, site, what, key, facts=None):
        if cond:
            self.ok(rule, site, what)
        else:
            self.fail(rule, site, what, key, facts)
        return cond

    def floor(self, rule, found, floor):
        """a rule that matches fewer sites than were confirmed by hand is analysis-broken, never a pass"""
        self.floors[rule] = (found, floor)
        if found < floor:
            raise AnalysisBroken("%s %s: only %d instances found, floor is %d "
                                 "(anchor vanished or extraction incomplete)" % (self.pid, rule, found, floor))

    def used(self, fn):
        self.functions.add(fn["sig"] if isinstance(fn, dict) else str(fn))

    def assume(self, *a):
        for x in a:
            if x not in self.assumptions:
                self.assumptions.append(x)

    # -- finishing -------------------------------------------------------
    def finish(self):
        known = {"findings": [], "fixed": []}
        if os.path.exists(KNOWN):
            known = json.load(open(KNOWN))
        kmap = {f["key"]: f for f in known.get("findings", []) if f.get("property") == self.pid}
        viol, knownhits = [], []
        for i in self.instances:
            if i["ok"]:
                continue
            if i["key"] in kmap:
                knownhits.append((i, kmap[i["key"]]))
            else:
                viol.append(i)
        evdir = os.environ.get("ISA_EVIDENCE_DIR") or os.path.join(VERIF, "evidence")
        os.makedirs(evdir, exist_ok=True)
        wall = time.time() - self.t0
        ntot = len(self.instances)
        distinct = len({(i["rule"], i["site"], i["what"]) for i in self.instances if i.get("nontrivial")})
        rules = sorted({i["rule"] for i in self.instances})
        samples = []
        seen = set()
        for i in self.instances:
            if i["rule"] in seen:
                continue
            seen.add(i["rule"])
            samples.append({"rule": i["rule"], "site": i["site"], "holds": i["ok"], "what": i["what"]})
        cov = {
            "evaluations": ntot,
            "distinct_nontrivial": distinct,
            "rule": "one instance per (rule, code site, obligation); non-trivial = an actual comparison of "
                    "extracted facts was made (not a vacuous match); distinct by (rule, site, obligation text)",
            "samples": samples[:40],
            "explanation": "; ".join(self.notes) if self.notes else "static rules over the clang AST/CFG of /repo",
            "units_parsed": self.units,
            "functions_analysed": sorted(self.functions),
            "rule_instances": {r: sum(1 for i in self.instances if i["rule"] == r) for r in rules},
            "instance_floors": {r: {"found": a, "floor": b} for r, (a, b) in self.floors.items()},
            "known_findings_matched": [k["key"] for _, k in knownhits],
            "tables": self.tables,
            "all_instances": [{"rule": i["rule"], "site": i["site"], "holds": i["ok"], "what": i["what"]}
                              for i in self.instances],
            "positive_controls": self.controls,
        }
        if self.level == "proof":
            cov["obligations"] = ntot
            cov["discharged"] = sum(1 for i in self.instances if i["ok"])
            cov["checker_cmd"] = "./check %s --tier %s" % (self.pid, self.tier)
            cov["trusted_base"] = self.trusted or ["clang 14 front end", "tool/isa-extract.cc", "sympy expand"]
        ev = {
            "property_id": self.pid, "tier": self.tier,
            "seed": int(os.environ.get("VERIF_SEED", "0") or 0),
            "level": self.level, "coverage": cov, "assumptions": self.assumptions,
            "wall_s": round(wall, 3), "violations": len(viol),
        }
        with open(os.path.join(evdir, self.pid + ".json"), "w") as f:
            json.dump(ev, f, indent=1)
        for i, k in knownhits:
            print("KNOWN-FINDING: property=%s %s [%s at %s]" % (self.pid, k.get("what", i["what"]), i["rule"], i["site"]))
        print("%s: %d rule instances over %d functions in %d units; %d violated (%d known), %.1fs"
              % (self.pid, ntot, len(self.functions), len(self.units), len(viol) + len(knownhits),
                 len(knownhits), wall))
        if viol:
            rp = os.path.join(evdir, self.pid + ".replay.json")
            with open(rp, "w") as f:
                json.dump({"property": self.pid, "violations": viol}, f, indent=1)
            for i in viol:
                print("  %s at %s: %s  [key %s]" % (i["rule"], i["site"], i["what"], i["key"]))
            print("VIOLATION property=%s replay=%s" % (self.pid, rp))
            return 1
        return 0
