"""E3: dataflow over the clang CFGs exported by isa-extract.

Blocks carry their elements (every sub-expression, in evaluation order) as AST
node ids.  Provided: forward must/may gen-kill analyses at element granularity,
min/max occurrence counts of an event on entry->exit paths, reachability
between events, dominance-style queries ("every path to B passes A").
"""
from . import ast as A
from .compdb import AnalysisBroken

INF = float("inf")


class CFG:
    def __init__(self, fn, normal_only=True):
        self.fn = fn
        g = fn.get("cfg")
        if not g:
            raise AnalysisBroken("no CFG for %s" % fn["sig"])
        self.byid, self.parent = A.index(fn)
        self.entry, self.exit = g["entry"], g["exit"]
        self.blocks = {}
        for b in g["blocks"]:
            elems = []
            for e in b["elems"]:
                if isinstance(e, dict):
                    e = e.get("init", 0)
                n = self.byid.get(e)
                if n is not None:
                    elems.append(n)
            succs = [s for s in b["succs"] if isinstance(s, int)]
            if normal_only and any(n.get("k") == "CXXThrowExpr" for n in elems):
                succs = []          # a throw leaves the function abnormally: not a path to the normal exit
            self.blocks[b["id"]] = {"id": b["id"], "elems": elems, "succs": succs, "term": self.byid.get(b.get("term")),
                                    "term_kind": b.get("term_kind"), "raw_succs": b["succs"],
                                    "noreturn": b.get("noreturn"), "cond": self.byid.get(b.get("term_cond"))}
        self.preds = {i: [] for i in self.blocks}
        for i, b in self.blocks.items():
            for s in b["succs"]:
                self.preds[s].append(i)
        self.reach_from_entry = self._reach(self.entry)

    def _reach(self, start):
        seen, st = set(), [start]
        while st:
            x = st.pop()
            if x in seen:
                continue
            seen.add(x)
            st.extend(self.blocks[x]["succs"])
        return seen

    def pruned(self, decide):
        """a copy of this CFG in which two-way branches whose condition `decide(cond node)` evaluates to
        True/False keep only the matching successor (clang orders successors: true branch first)"""
        import copy
        g = copy.copy(self)
        g.blocks = {}
        for bid, b in self.blocks.items():
            nb = dict(b)
            raw = b["raw_succs"]
            if len(raw) == 2 and b.get("cond") is not None:
                v = decide(b["cond"])
                if v is not None:
                    keep = raw[0] if v else raw[1]
                    nb["succs"] = [keep] if isinstance(keep, int) else []
            g.blocks[bid] = nb
        g.preds = {i: [] for i in g.blocks}
        for i, b in g.blocks.items():
            for s_ in b["succs"]:
                g.preds[s_].append(i)
        g.reach_from_entry = g._reach(g.entry)
        return g

    # -- events ----------------------------------------------------------------------------
    def events(self, pred):
        out = []
        for bid, b in self.blocks.items():
            if bid not in self.reach_from_entry:
                continue
            for i, n in enumerate(b["elems"]):
                if pred(n):
                    out.append((bid, i, n))
        return out

    def where(self, node):
        for bid, b in self.blocks.items():
            for i, n in enumerate(b["elems"]):
                if n is node or n["id"] == node["id"]:
                    return (bid, i)
        return None

    # -- forward gen/kill analysis ---------------------------------------------------------
    def forward(self, transfer, universe, must=True, init=frozenset()):
        """transfer(node, facts:frozenset) -> frozenset.  Returns dict (block, idx) -> facts BEFORE that element,
        plus ('out', block) -> facts at block end."""
        top = frozenset(universe) if must else frozenset()
        IN = {b: top for b in self.blocks}
        OUT = {b: top for b in self.blocks}
        IN[self.entry] = frozenset(init)
        work = list(self.blocks)
        before = {}
        it = 0
        while work:
            it += 1
            if it > 200000:
                raise AnalysisBroken("dataflow did not converge in %s" % self.fn["sig"])
            b = work.pop()
            if b != self.entry:
                ps = [p for p in self.preds[b] if p in self.reach_from_entry]
                if ps:
                    acc = None
                    for p in ps:
                        acc = OUT[p] if acc is None else (acc & OUT[p] if must else acc | OUT[p])
                    IN[b] = acc
                else:
                    IN[b] = top if must else frozenset()
            cur = IN[b]
            for i, n in enumerate(self.blocks[b]["elems"]):
                before[(b, i)] = cur
                cur = transfer(n, cur)
            if cur != OUT[b]:
                OUT[b] = cur
                for s in self.blocks[b]["succs"]:
                    if s not in work:
                        work.append(s)
        res = dict(before)
        for b in self.blocks:
            res[("out", b)] = OUT[b]
            res[("in", b)] = IN[b]
        return res

    # -- counting events on paths ----------------------------------------------------------
    def count_on_paths(self, pred, start=None, stop=None):
        """(min, max) number of events matching pred over all paths entry->exit (max = INF if an event lies on a cycle)"""
        w = {b: sum(1 for n in self.blocks[b]["elems"] if pred(n)) for b in self.blocks}
        start = self.entry if start is None else start
        stop = self.exit if stop is None else stop
        # min: Dijkstra-ish (weights >= 0, small graphs: Bellman-Ford)
        dist = {b: INF for b in self.blocks}
        dist[start] = w[start]
        for _ in range(len(self.blocks)):
            ch = False
            for b in self.blocks:
                if dist[b] == INF:
                    continue
                for s in self.blocks[b]["succs"]:
                    if dist[b] + w[s] < dist[s]:
                        dist[s] = dist[b] + w[s]; ch = True
            if not ch:
                break
        mn = dist[stop]
        # max: SCC condensation; an SCC with >1 node (or self loop) containing an event and lying on a start->stop path => INF
        sccs = self._sccs()
        comp = {}
        for i, c in enumerate(sccs):
            for b in c:
                comp[b] = i
        can_reach_stop = self._coreach(stop)
        from_start = self._reach(start)
        for i, c in enumerate(sccs):
            cyc = len(c) > 1 or any(b in self.blocks[b]["succs"] for b in c)
            if cyc and any(w[b] for b in c) and any(b in from_start and b in can_reach_stop for b in c):
                return mn, INF
        # longest path in the DAG of SCCs
        cw = {i: sum(w[b] for b in c) for i, c in enumerate(sccs)}
        order = list(range(len(sccs)))     # Tarjan yields reverse topological order
        best = {i: -INF for i in order}
        best[comp[start]] = cw[comp[start]]
        for i in reversed(order):
            if best[i] == -INF:
                continue
            for b in sccs[i]:
                for s in self.blocks[b]["succs"]:
                    j = comp[s]
                    if j != i and best[i] + cw[j] > best[j]:
                        best[j] = best[i] + cw[j]
        mx = best[comp[stop]]
        return mn, mx

    def _coreach(self, stop):
        seen, st = set(), [stop]
        while st:
            x = st.pop()
            if x in seen:
                continue
            seen.add(x)
            st.extend(self.preds[x])
        return seen

    def _sccs(self):
        idx, low, onst, st, out = {}, {}, set(), [], []
        counter = [0]
        import sys
        sys.setrecursionlimit(10000)

        def sc(v):
            idx[v] = low[v] = counter[0]; counter[0] += 1
            st.append(v); onst.add(v)
            for w_ in self.blocks[v]["succs"]:
                if w_ not in idx:
                    sc(w_); low[v] = min(low[v], low[w_])
                elif w_ in onst:
                    low[v] = min(low[v], idx[w_])
            if low[v] == idx[v]:
                c = []
                while True:
                    x = st.pop(); onst.discard(x); c.append(x)
                    if x == v:
                        break
                out.append(c)
        for v in self.blocks:
            if v not in idx:
                sc(v)
        return out

    # -- path queries between events -------------------------------------------------------
    def every_path_to(self, target_pred, through_pred, kill_pred=None):
        """for each target event: does every entry->target path pass a `through` event after the last `kill` event?
        returns list of (event, bool)"""
        FACT = "seen"

        def tr(n, facts):
            if kill_pred is not None and kill_pred(n):
                facts = facts - {FACT}
            if through_pred(n):
                facts = facts | {FACT}
            return facts
        res = self.forward(tr, {FACT}, must=True)
        out = []
        for (b, i, n) in self.events(target_pred):
            out.append(((b, i, n), FACT in res[(b, i)]))
        return out

    def some_path_between(self, a_pos, b_pred, avoid_pred=None):
        """is there a path from just after position a_pos to an event matching b_pred that avoids avoid_pred?"""
        (b0, i0) = a_pos
        seen = set()
        st = [(b0, i0 + 1)]
        while st:
            b, i = st.pop()
            elems = self.blocks[b]["elems"]
            blocked = False
            for k in range(i, len(elems)):
                n = elems[k]
                if avoid_pred is not None and avoid_pred(n):
                    blocked = True
                    break
                if b_pred(n):
                    return True
            if blocked:
                continue
            for s in self.blocks[b]["succs"]:
                if s not in seen:
                    seen.add(s)
                    st.append((s, 0))
        return False


def is_call_to(*names):
    names = set(names)

    def pred(n):
        return n.get("k") in ("CallExpr", "CXXMemberCallExpr", "CXXOperatorCallExpr", "CXXConstructExpr",
                              "CXXTemporaryObjectExpr") and n.get("callee") in names
    return pred
