"""C15 — tracked particles follow the flow of the distribution and never leave the grid.

That a blob's centroid coincides numerically with the particle and the statistics of the stochastic
model are NOT decided.  Decided:
 R1  clamping: in every applyTo override of a class main can instantiate, every coordinate the
     function assigns is, on every path to the exit, last assigned through the clamp
     max(1, min(., size-1)) of its own axis (or not assigned at all); PhaseSpace::x()/y() clamp the
     initial coordinates to [0, n-1].  Hence coordinates stay in [0,n-1]^2, where converting them
     to physical units (Ruler::at, an unchecked array read) is defined;
 R2  direction: the particle is displaced by -interp(offset) while the grid's source cell is
     destination + offset (content moves by -offset): particle and charge move the same way; the
     offset is interpolated linearly, weights (1-f, f), between rows floor(c) and floor(c)+1 of the
     perpendicular coordinate c;
 R3  damping centre: the noise-free fixed point of the stochastic model is the zero bin of the
     energy axis; the deterministic approximation moves the particle by -sum_k o_k w_k, i.e. by the
     first moment of the stencil (whose centre is proved under C04);
 R4  table reads in FokkerPlanckMap::applyTo stay inside their extents under the invariant of R1;
 R5  in every apply() main can call, nothing that the class's applyTo() reads is changed after the grid has been moved: the particles
     (moved right after the grid in main) see the displacement the charge saw.
"""
import sympy as sp
from .. import ast as A
from .. import indexmap as I
from .. import flow as Fl
from .. import mainmodel as M
from ..compdb import AnalysisBroken
from . import gridmodel as G

LEVEL = "other"


def is_clamp(node, coord_field, size_syms, scan):
    """rhs = max(1, min(<anything>, size-1)) with size in size_syms"""
    v = scan._try(node)
    if v is None:
        return False, None
    if v.func != sp.Max:
        return False, v
    args = list(v.args)
    ones = [a for a in args if a == 1]
    mins = [a for a in args if a.func == sp.Min]
    if len(ones) != 1 or len(mins) != 1:
        return False, v
    hi = [a for a in mins[0].args if any(sp.expand(a - (s_ - 1)) == 0 for s_ in size_syms)]
    return len(hi) == 1, v


def run(chk, prog):
    chk.assume("positions are finite numbers (a NaN coordinate is outside the statement)", "nx == ny (size model)")
    mm = M.MainModel(prog)
    mainf = mm.fn
    chk.used(mainf)
    classes = set()
    for v in ("wm", "rfm", "drm", "fpm"):
        A.require(v in mm.objs, "main: map variable %s not found" % v)
        classes |= set(mm.objs[v].classes())
    A.require(len(classes) >= 5, "main: map classes not found (%s)" % sorted(classes))
    from .. import effects as E
    eff = E.Effects(prog)
    overr = {}
    for c in sorted(classes):
        base = prog.fn("vfps::SourceMap::applyTo") if prog.fns("vfps::SourceMap::applyTo") else None
        f = eff.resolve_callee("vfps::SourceMap::applyTo(vfps::PhaseSpace::Position &) const", "vfps::SourceMap::applyTo", c)
        A.require(f is not None and f.get("body"), "applyTo override for %s not found" % c)
        overr.setdefault(f["sig"], (f, []))[1].append(c)
    chk.tables["applyTo_overriders"] = {f["qname"]: cl for f, cl in overr.values()}
    nover = 0
    for f, cls in overr.values():
        chk.used(f)
        nover += 1
        s = I.scan(f, hooks=[G.make_hook()])
        g = Fl.CFG(f)
        pname = f["params"][0]["name"]
        sizes = {"x": [sp.Symbol("_meshsize_kd", real=True), sp.Symbol("_xsize", real=True), sp.Symbol("_meshxsize", real=True)],
                 "y": [sp.Symbol("_meshsize_kd", real=True), sp.Symbol("_ysize", real=True)]}
        stores = [a for a in s.accesses if a.kind == "store" and a.base in (pname + ".x", pname + ".y")]
        if not stores:
            chk.ok("R1", f.where, "%s (used for %s) does not modify the particle" % (f["qname"], [c.split("::")[-1] for c in cls]))
            continue
        for coord in ("x", "y"):
            cs = [a for a in stores if a.base == pname + "." + coord]
            if not cs:
                continue
            clamps, others = [], []
            for a in cs:
                okc, v = is_clamp(a.value_node, coord, sizes[coord], s) if a.op == "=" else (False, None)
                (clamps if okc else others).append(a)
            # every non-clamp assignment must be followed by a clamp assignment on every path to the exit
            is_cl = lambda n, ids={a.node["id"] for a in clamps}: n.get("id") in ids
            for a in others:
                pos = g.where(a.node)
                if pos is None:
                    # the assignment sits in a helper the scanner looked into (shiftCoordinate(perp, par)): decide inside the helper,
                    # and, if it can leave the helper unclamped, from the call site on in this function
                    owner = [(cn_, hf_) for cn_, nm_, body_, hf_ in s.inlined if a.node.get("id") in {y["id"] for y in A.walk(body_)}]
                    A.require(owner and owner[-1][1] is not None, "%s: store not in CFG" % f["qname"])
                    cn_, hf_ = owner[-1]
                    gh = Fl.CFG(hf_)
                    hpos = gh.where(a.node)
                    A.require(hpos is not None, "%s: store not in the helper's CFG" % f["qname"])
                    reach_exit = _reaches_exit_avoiding(gh, hpos, is_cl)
                    if reach_exit:
                        cpos = g.where(cn_)
                        A.require(cpos is not None, "%s: helper call not in CFG" % f["qname"])
                        reach_exit = _reaches_exit_avoiding(g, cpos, is_cl)
                    chk.check(not reach_exit, "R1", A.loc(f, {"line": a.line}),
                              "%s: the assignment `%s.%s %s ...` is followed by the clamp max(1,min(.,size-1)) on every path to the exit" % (f["qname"].split("::")[-2], pname, coord, a.op),
                              "%s:unclamped:%s:line-kind:%s" % (f["qname"], coord, _branch_tag(a)))
                    continue
                esc = g.some_path_between(pos, lambda n: False, avoid_pred=is_cl)      # reaches nothing; use exit reachability instead
                # path from the store to the function exit avoiding every clamp?
                reach_exit = _reaches_exit_avoiding(g, pos, is_cl)
                chk.check(not reach_exit, "R1", A.loc(f, {"line": a.line}),
                          "%s: the assignment `%s.%s %s ...` is followed by the clamp max(1,min(.,size-1)) on every path to the exit" % (f["qname"].split("::")[-2], pname, coord, a.op),
                          "%s:unclamped:%s:line-kind:%s" % (f["qname"], coord, _branch_tag(a)))
            for a in clamps:
                chk.ok("R1", A.loc(f, {"line": a.line}), "%s: %s.%s is clamped to [1, size-1]" % (f["qname"].split("::")[-2], pname, coord))
    chk.floor("R1-overriders", nover, 3)
    for meth, ax in (("x", 0), ("y", 1)):
        pf = prog.fn("vfps::PhaseSpace::" + meth)
        chk.used(pf)
        r = [y for y in A.walk(pf["body"]) if y["k"] == "ReturnStmt"]
        sc = I.Scanner(pf, hooks=[G.make_hook()])
        v = sc._try(r[0]["c"][0]) if len(r) == 1 else None
        from . import sizemodel as S2
        ok = v is not None and v.func == sp.Min and any(a.func == sp.Max and 0 in a.args for a in v.args) and \
            any(sp.expand(S2.norm(a) - (S2.N - 1)) == 0 for a in v.args)
        if ok:
            inner = [a for a in v.args if a.func == sp.Max][0]
            coordx = [t for t in inner.args if t != 0][0]
            par = sp.Symbol(pf["params"][0]["name"], real=True)
            ok = sp.simplify(coordx - (par - G.AX(ax, "min")) / G.AX(ax, "delta")) == 0
        chk.check(ok, "R1", pf.where, "PhaseSpace::%s() clamps the initial grid coordinate to [0, n-1] (%s)" % (meth, v), "PhaseSpace::%s:clamp" % meth)
    # the tracking file is converted through x()/y()
    # the vectors whose content becomes the tracked set: trackme itself and any local of the same type that is assigned / returned into it
    feeders = {"trackme"}
    for y, lhs, op, rhs in A.assignments_in(mainf["body"]):
        if (A.declref(lhs) or {}).get("name") == "trackme" and A.declref(rhs) is not None:
            feeders.add(A.declref(rhs)["name"])
    for y in A.walk(mainf["body"]):
        if y.get("k") in ("BinaryOperator", "CXXOperatorCallExpr") and y.get("op") == "=":
            ops_ = y.get("c") if y.get("k") == "BinaryOperator" else y.get("args")
            if ops_ and len(ops_) == 2 and (A.declref(ops_[0]) or {}).get("name") == "trackme":
                for z in A.walk(ops_[1]):
                    if z.get("k") == "DeclRefExpr" and "PhaseSpace::Position" in (z.get("ctype") or z.get("type") or "") and "vector" in (z.get("ctype") or z.get("type") or ""):
                        feeders.add(z["name"])
    tr = [x for x in A.walk(mainf["body"]) if x.get("k") == "CXXMemberCallExpr" and (x.get("callee") or "").split("::")[-1] in ("push_back", "emplace_back") and
          A.call_object(x) is not None and (A.declref(A.call_object(x)) or {}).get("name") in feeders]
    ok = len(tr) == 1 and "grid_t1->x(q)" in A.show(tr[0]).replace(" ", "") and "grid_t1->y(p)" in A.show(tr[0]).replace(" ", "")
    chk.check(ok, "R1", A.loc(mainf, tr[0]) if tr else mainf.where, "initial particle coordinates enter only through PhaseSpace::x()/y()", "main:trackme-init")
    # ---- R2 -------------------------------------------------------------------------------------
    ka = prog.fn("vfps::KickMap::applyTo")
    s = I.scan(ka)
    pname = ka["params"][0]["name"]
    n2 = 0
    for coord, other in (("x", "y"), ("y", "x")):
        upd = [a for a in s.accesses if a.kind == "store" and a.base == pname + "." + coord and a.op in ("-=", "+=")]
        A.require(len(upd) == 1, "KickMap::applyTo: update of %s not found" % coord)
        a = upd[0]
        v = a.value if a.op == "-=" or a.value is None else -a.value       # normalised to `coord -= v`
        ix = sorted(v.atoms(sp.Indexed), key=str) if v is not None else []
        ok = v is not None and len(ix) == 2 and all(str(t.base) == "_offset" for t in ix)
        site = A.loc(ka, {"line": a.line})
        if ok:
            i0, i1 = ix[0].indices[0], ix[1].indices[0]
            lo, hi = (ix[0], ix[1]) if sp.simplify(i1 - i0 - 1) == 0 else (ix[1], ix[0])
            w0, w1 = sp.expand(v).coeff(lo, 1), sp.expand(v).coeff(hi, 1)
            fr = sp.Function("frac")(sp.Symbol(pname + "." + other, real=True))
            ipart = sp.Function("ipart")(sp.Symbol(pname + "." + other, real=True))
            ok = sp.simplify(w0 + w1 - 1) == 0 and sp.simplify(w1 - fr) == 0 and sp.simplify(lo.indices[0] - ipart) == 0 and sp.simplify(hi.indices[0] - lo.indices[0] - 1) == 0
        chk.check(ok, "R2", site, "%s-kick: particle %s -= (1-f)*offset[floor(%s)] + f*offset[floor(%s)+1], f = frac(%s): linear interpolation along the perpendicular coordinate, sign -1 (%s)"
                  % (coord, coord, other, other, other, v), "KickMap::applyTo:%s:update:%s" % (coord, v))
        n2 += 1
        grd = [g_ for g_, pol in a.guards if pol and isinstance(g_, dict) and g_.get("k") == "BinaryOperator" and g_["op"] == "<"]
        okg = any("_meshsize_pd" in A.show(g_) and "+1" in A.show(g_).replace(" ", "") for g_ in grd)
        chk.check(okg, "R2", site, "the two offset rows read are guarded by floor(%s)+1 < perpendicular size" % other, "KickMap::applyTo:%s:row-guard" % coord)
    # grid direction: source = destination + (stored index - centre), stored index = centre + offset (C01/R2) => +1
    from . import C01 as c01   # noqa: F401  (the +offset direction of the grid is decided by C01/R2; re-derived here)
    from . import kickmodel as K, sizemodel as S, interp
    kap = K.KickApply(prog)
    hidx = sp.Symbol("h.index", real=True)
    for axis, b in sorted(kap.branches.items()):
        D, Sx = S.norm(b.dout[0].idx[0]), S.norm(b.din[0].idx[0])
        sz = {sp.Symbol("_meshsize_kd", real=True): S.N, sp.Symbol("_meshsize_pd", real=True): S.N}
        diff = sp.expand((Sx - D).subs(sz))
        chk.check(sp.expand(diff.coeff(hidx, 1)).is_positive, "R2", A.loc(kap.fn, {"line": b.din[0].line}), "%s-kick grid: source - destination grows with the stored index (+)" % axis,
                  "KickMap::apply:%s:direction" % axis)
    usm = interp.UpdateSM(prog)
    for a in usm.live_index_stores():
        e, ip, loop = usm.node_expr(a)
        off = [t for t in ip.args[0].atoms(sp.Indexed) if str(t.base) == "_offset"]
        chk.check(len(off) == 1 and sp.expand(ip.args[0]).coeff(off[0], 1) == 1, "R2", A.loc(usm.fn, {"line": a.line}),
                  "updateSM: the stored index grows with the offset (+): the grid takes its content from destination + offset, the particle moves by -offset: same direction", "updateSM:direction")
    # ---- R3 -------------------------------------------------------------------------------------
    fa = prog.fn("vfps::FokkerPlanckMap::applyTo")
    chk.used(fa)
    sf = I.scan(fa, hooks=[G.make_hook()])
    pn = fa["params"][0]["name"]
    en = prog.enums.get("vfps::FokkerPlanckMap::FPTracking")
    A.require(en is not None, "enum FPTracking not found")
    vals = {c["name"]: c["value"] for c in en["constants"]}

    def case_of(a):
        for g_, pol in a.guards:
            if isinstance(g_, dict) and g_.get("k") == "SwitchCase":
                return g_["labels"]
        return []
    sto = [a for a in sf.accesses if a.kind == "store" and a.base == pn + ".y" and vals["stochastic"] in case_of(a)]
    upd = [a for a in sto if a.op in ("-=", "+=")]
    A.require(len(upd) == 1, "FokkerPlanckMap::applyTo: stochastic update not found")
    a = upd[0]
    v = a.value if a.op == "-=" else -a.value
    noise = [t for t in v.free_symbols if "_normdist" in str(t)]
    y = sp.Symbol(pn + ".y", real=True)
    det = v.subs({t: 0 for t in noise})
    fp = sp.solve(sp.Eq(det, 0), y)
    chk.check(len(noise) == 1 and len(fp) == 1 and sp.simplify(fp[0] - G.AX(1, "zb")) == 0, "R3", A.loc(fa, {"line": a.line}),
              "stochastic model: y -= %s; noise-free fixed point %s must be the zero bin of the energy axis" % (v, fp), "FP::applyTo:stochastic:fixed-point:%s" % fp)
    chk.check(sp.simplify(sp.diff(det, y) - sp.Symbol("_dampdecr", real=True)) == 0, "R3", A.loc(fa, {"line": a.line}),
              "stochastic model: the damping rate per step is the damping decrement", "FP::applyTo:stochastic:rate:%s" % sp.diff(det, y))
    # the stochastic model keeps the unit width: y -= (y-zb)*d + N(0, sigma^2) (in cells of the energy axis) has the stationary variance
    # sigma^2/(2d - d^2); a natural width of 1 is 1/delta1 cells, so to first order in d  sigma^2 * delta1^2 == 2*d, with d and sigma as the
    # constructor sets them (_dampdecr and the second argument of the normal distribution)
    from ..algebra import Translator, Unconvertible
    fctor = [c_ for c_ in prog.fns("vfps::FokkerPlanckMap::FokkerPlanckMap") if c_.get("inits")]
    A.require(len(fctor) == 1, "FokkerPlanckMap constructor not found")
    fctor = fctor[0]
    chk.used(fctor)
    ini = {i_["target"]: i_["expr"] for i_ in fctor["inits"] if i_.get("ikind") == "member" and isinstance(i_.get("expr"), dict)}
    A.require("_normdist" in ini and "_dampdecr" in ini, "FokkerPlanckMap: initialisers of _normdist / _dampdecr not found")
    nd = [y_ for y_ in A.walk(ini["_normdist"]) if y_.get("k") in ("CXXConstructExpr", "CXXTemporaryObjectExpr") and "normal_distribution" in (y_.get("callee") or y_.get("ctype") or "")
          and len([a_ for a_ in y_.get("args", []) if a_.get("k") != "CXXDefaultArgExpr"]) == 2]
    A.require(nd, "FokkerPlanckMap: normal_distribution(mean, sigma) not found in the initialiser of _normdist")
    trn = Translator(hooks=[G.make_hook()])
    try:
        mean_, sig_ = trn.conv(nd[0]["args"][0]), trn.conv(nd[0]["args"][1])
        dd_ = trn.conv(ini["_dampdecr"])
    except Unconvertible as e_:
        raise AnalysisBroken("FokkerPlanckMap: noise amplitude not translatable (%s)" % e_)
    site_n = A.loc(fctor, {"line": nd[0]["line"]})
    chk.check(mean_ == 0, "R3", site_n, "stochastic model: the noise has zero mean (%s)" % mean_, "FP::ctor:noise-mean:%s" % mean_)
    bal = sp.simplify(sig_ ** 2 * G.AX(1, "delta") ** 2 - 2 * dd_)
    chk.check(bal == 0, "R3", site_n, "stochastic model: noise variance (%s)^2 in cells of the energy axis balances the damping decrement %s at unit natural width "
              "(sigma^2*delta1^2 - 2*d = %s)" % (sig_, dd_, bal), "FP::ctor:noise-amplitude:%s" % bal)
    a1 = [x for x in sf.accesses if a_is(x, "offset", "+=") and vals["approximation1"] in case_of(x)]
    A.require(len(a1) == 1, "FokkerPlanckMap::applyTo: approximation1 accumulation not found")
    want = (sp.Symbol("yi", real=True) - sp.Symbol("h.index", real=True)) * sp.Symbol("h.weight", real=True)
    got = a1[0].value
    okf = got is not None and sp.simplify(got.subs({t: sp.Symbol("yi", real=True) for t in got.free_symbols if str(t) not in ("h.index", "h.weight") and "Min" not in str(t)}) - want) == 0 if got is not None else False
    if got is not None and not okf:
        # yi is bound to Min(floor(pos.y), _ysize): compare structurally
        yi_expr = [t for t in got.atoms(sp.Min)]
        if yi_expr:
            okf = sp.simplify(got.subs(yi_expr[0], sp.Symbol("yi", real=True)) - want) == 0
    chk.check(okf, "R3", A.loc(fa, {"line": a1[0].line}), "deterministic model: displacement = sum_k (row - source_k)*w_k = -(first stencil moment)/delta (%s)" % got,
              "FP::applyTo:approximation1:%s" % got)
    # ---- R4 -------------------------------------------------------------------------------------
    for x in sf.accesses:
        if x.kind == "load" and x.base == "_hinfo":
            chk.check(x.idx is not None and "_ip" in str(x.idx[0]), "R4", A.loc(fa, {"line": x.line}),
                      "stencil row read _hinfo[row*_ip+j] with row = floor(pos.y) bounded by the clamp invariant of R1 (row <= _ysize-1)", "FP::applyTo:hinfo-read")
    # ---- R5: the particle is moved by the displacement the grid was just moved by ----------------------------------------------
    # main applies a map to the grid and then to the particles (X->apply(); X->applyToAll(...)): between the transport inside apply()
    # and its return, nothing may change a field the class's applyTo reads (a kick prepared "for the next step" at the end of apply()
    # would move the particles by another displacement than the charge around them).
    n5 = 0
    for c in sorted(classes):
        af = eff.resolve_callee("vfps::SourceMap::apply()", "vfps::SourceMap::apply", c)
        tf = eff.resolve_callee("vfps::SourceMap::applyTo(vfps::PhaseSpace::Position &) const", "vfps::SourceMap::applyTo", c)
        A.require(af is not None and af.get("body") and tf is not None, "apply/applyTo override for %s not found" % c)
        chk.used(af)
        tracked_reads = {fld for (o, fld, sel) in eff.summary(tf, c).reads if o == "this"}
        sa_ = I.scan(af)
        transports = [cl for cl in sa_.calls if (cl.callee or "").split("::")[-1] == "apply" and (cl.callee or "") != af["qname"] and
                      cl.obj is not None and A.is_this(cl.obj)]
        tseq = [cl.seq for cl in transports] + [a.seq for a in sa_.accesses if a.kind == "store" and a.base == "data_out"]
        if not tseq:
            continue
        last = max(tseq)
        late = {}
        for cl in sa_.calls:
            if cl.seq <= last:
                continue
            callee = prog.functions.get(cl.sig) if cl.sig else None
            if callee is not None and callee.get("body") and cl.obj is not None and A.is_this(cl.obj):
                cf = eff.resolve_callee(cl.sig, cl.callee, c)
                for (o, fld, sel) in eff.summary(cf, c).writes:
                    if o == "this" and fld in tracked_reads:
                        late.setdefault(fld, set()).add("%s (line %d)" % (cl.callee.split("::")[-1], cl.line))
            elif cl.obj is not None and A.this_field(cl.obj) in tracked_reads and (cl.callee or "").split("::")[-1] in E.NONCONST_CONTAINER:
                late.setdefault(A.this_field(cl.obj), set()).add("%s (line %d)" % (cl.callee.split("::")[-1], cl.line))
        for a in sa_.accesses:
            if a.kind == "store" and a.seq > last and a.base in tracked_reads:
                late.setdefault(a.base, set()).add("store (line %d)" % a.line)
        n5 += 1
        chk.check(not late, "R5", af.where,
                  "%s::apply() (used for %s): after it has moved the grid it changes nothing that applyTo() reads (%s)%s"
                  % (af["qname"].split("::")[-2], c.split("::")[-1], sorted(tracked_reads)[:6], "" if not late else ": " + "; ".join("%s by %s" % (k_, sorted(v_)) for k_, v_ in sorted(late.items()))),
                  "%s::apply:changes-tracking-state-after-transport:%s" % (af["qname"].split("::")[-2], sorted(late)))
    chk.floor("R5-apply-overriders", n5, 4)
    # ---- R6: charge and particle share the zero of the displacement: a zero offset leaves both where they are (the centre updateSM adds is
    # the one apply subtracts, for even and odd grid sizes: decided under C01 R2; re-evaluated here)
    from .common import reeval
    reeval(chk, prog, "C01", lambda i: i["rule"] == "R2" and "KickMap" in i["site"], "R6", "R6-kick-centre", 6)
    # ---- R7: "converting it to physical units for output is always defined": index bounds of the look-ups in appendTracks (C17 R7) -------
    reeval(chk, prog, "C17", lambda i: i["rule"] == "R7", "R7", "R7-track-lookups", 2)
    # ---- R8: the particle and the charge around it are moved by the same displacement field ------------------------------------------------------
    # applyTo() interpolates _offset, apply() uses the table built from it: every change of _offset is followed, on every path, by a rebuild
    # of the table (decided by kickmodel.offset_table_sync; shared with C01/C02/C05/C08)
    from . import kickmodel as K8
    K8.offset_table_sync(chk, prog, "R8")
    chk.notes.append("C15: clamping of every assigned coordinate on every CFG path of every applyTo overrider reachable from main, direction agreement of "
                     "particle and grid displacement, damping fixed point. NOT decided: centroid coincidence, ensemble statistics.")


def a_is(a, base, op):
    return a.kind == "store" and a.base == base and a.op == op and a.idx is None


def _branch_tag(a):
    t = []
    for g_, pol in a.guards:
        if isinstance(g_, dict) and g_.get("k") == "SwitchCase":
            t.append("case%s" % g_["labels"])
        elif isinstance(g_, dict):
            t.append(("" if pol else "!") + A.show(g_)[:30].replace(" ", ""))
    return "|".join(t)


def _reaches_exit_avoiding(g, pos, avoid):
    (b0, i0) = pos
    seen, st = set(), [(b0, i0 + 1)]
    while st:
        b, i = st.pop()
        elems = g.blocks[b]["elems"]
        blocked = False
        for k in range(i, len(elems)):
            if avoid(elems[k]):
                blocked = True
                break
        if blocked:
            continue
        if b == g.exit:
            return True
        for s_ in g.blocks[b]["succs"]:
            if s_ not in seen:
                seen.add(s_)
                st.append((s_, 0))
    return False
