"""C09 — normalisation restores each bunch's charge share; moments are the true moments.

The discretisation error of the Gaussian moments is numerical and NOT decided.  Decided:
 R1  per-bunch dependence: inside every loop over bunches in integrate, average, variance,
     normalize, updateXProjection, updateYProjection, createFromProjections every subscript in
     a bunch dimension of _data, _projection, _filling, _filling_set, _moment, _rms is exactly
     the loop's bunch index - a bunch's numbers depend on no other bunch's data;
 R2  formulas: mean = (sum_i P[a][n][i]*q_a(i)) * delta_a / F[n]; variance = (sum_i P[a][n][i]*
     (q_a(i)-mean)^2) * delta_a / F[n], with one axis a for projection, coordinate and delta, the
     mean refreshed first; F[n] = <P[0][n], ws>; total = sum F; X projection = <data[n][x][.], ws>,
     Y projection = sum_x data[n][x][y]*ws[x]; Simpson weights h/3*{1,4,2,...,4,1};
 R3  normalize multiplies every cell of bunch n by filling_set[n]/filling[n] (full loop ranges)
     and zeroes every cell when filling_set[n] <= 0; the integral is linear in the data (R2), so
     the post-normalisation integral is filling_set[n];
 R4  copy: the copy constructor delegates (axis, oclh, charge, current, filling_set, zoom 1, data)
     to the parameters of those roles; the delegated constructor copies all B*N*N values and
     reaches updateXProjection, updateYProjection and integrate on every path.
"""
import sympy as sp
from .. import ast as A
from .. import indexmap as I
from .. import flow as Fl
from .. import callargs as CA
from ..compdb import AnalysisBroken
from . import sizemodel as S, gridmodel as G

LEVEL = "other"

BUNCH_DIM = {"_data": 0, "_projection": 1, "_filling": 0, "_filling_set": 0, "_moment": 2, "_rms": 1}
FUNCS = ["integrate", "average", "variance", "normalize", "updateXProjection", "updateYProjection", "createFromProjections"]


def run(chk, prog):
    chk.assume("exact real arithmetic", "nx == ny and delta0 == delta1 (one Simpson weight vector serves both axes; lemma of C03/size model)")
    S.lemmas(chk, prog)
    G.axis_lemmas(chk, prog)
    N, B = S.N, S.B
    scans = {}
    nsub = 0
    for nm in FUNCS:
        fn = prog.fn("vfps::PhaseSpace::" + nm)
        chk.used(fn)
        holder = {}
        s = scans[nm] = I.Scanner(fn, hooks=[G.make_axis_hook(lambda: holder.get("s"))])
        holder["s"] = s
        s.run()
        A.require(not s.noncanonical_loops, "PhaseSpace::%s: non-canonical loop" % nm)
        for a in s.accesses:
            if a.base not in BUNCH_DIM or a.idx is None:
                continue
            d = BUNCH_DIM[a.base]
            if len(a.idx) <= d:
                continue
            nl = [L for L in a.loops if L.name == "n"]
            if not nl:
                continue
            ok = a.idx[d] == nl[0].sym
            chk.check(ok, "R1", A.loc(fn, {"line": a.line}), "%s: %s %s[%s] uses the bunch index n in its bunch dimension" % (nm, a.kind, a.base, ", ".join(map(str, a.idx))),
                      "%s:%s:%s:bunch-subscript:%s" % (nm, a.kind, a.base, a.idx[d]))
            nsub += 1
        for L in {id(L): L for a in s.accesses for L in a.loops if L.name == "n"}.values():
            chk.check(L.lo == 0 and sp.expand(S.norm(L.hi) - B) == 0, "R1", A.loc(fn, {"line": L.node["line"]}), "%s: the bunch loop covers all B bunches" % nm,
                      "%s:bunch-loop" % nm)
    chk.floor("R1-subscripts", nsub, 20)

    # ---- R2 -------------------------------------------------------------------------------------
    axis = sp.Symbol("axis", real=True)

    def local_seq(s, name):
        return [a for a in s.accesses if a.kind == "store" and a.base == name and a.idx is None]
    for nm, var, target, with_mean in (("average", "avg", ("_moment", 0), False), ("variance", "var", ("_moment", 1), True)):
        fn = prog.fn("vfps::PhaseSpace::" + nm)
        s = scans[nm]
        seq = local_seq(s, var)
        site = fn.where
        if not (len(seq) == 3 and [a.op for a in seq] == ["=", "+=", "*="]):
            # another way of accumulating (one-pass <q^2> - <q>^2, factor applied inside the sum, ...): judged by its closed form.  Sums over
            # the axis are written in the raw moments S_k = sum_i P[i] q_i^k; the reported mean is m = w*S_1 with w = delta/filling (rule
            # above for average()), and w*S_0 = 1 is assumed (the filling is the integral of the projection).
            A.require(seq and seq[0].op == "=" and all(a.value is not None for a in seq), "PhaseSpace::%s: accumulator not translatable" % nm)
            depth0 = len(seq[0].loops)
            nsym = seq[0].loops[0].sym if seq[0].loops else sp.Symbol("n", integer=True)
            Ssym = [sp.Symbol("S%d" % k_, real=True) for k_ in range(4)]
            w_ = G.DELTA(axis) / sp.IndexedBase("_filling")[nsym]
            mean = sp.IndexedBase("_moment")[axis, 0, nsym]
            cur = None
            for a in seq:
                v_ = a.value
                if len(a.loops) > depth0:
                    isym = a.loops[-1].sym
                    P_ = sp.IndexedBase("_projection")[axis, nsym, isym]
                    q_ = G.QP(axis, isym)
                    qq = sp.Symbol("q__", real=True)
                    poly = sp.expand(sp.expand(v_).subs(q_, qq))
                    coeff_P = sp.expand(poly.coeff(P_, 1))
                    A.require(sp.expand(poly - coeff_P * P_) == 0 and isym not in coeff_P.free_symbols, "PhaseSpace::%s: summand is not P[i] times a polynomial in q_i (%s)" % (nm, v_))
                    pc = sp.Poly(coeff_P, qq)
                    A.require(pc.degree() <= 3, "PhaseSpace::%s: summand of degree > 3 in q" % nm)
                    v_ = sum(c_ * Ssym[k_[0]] for k_, c_ in pc.terms())
                    A.require(a.op in ("+=", "-="), "PhaseSpace::%s: `%s` inside the sum over the axis" % (nm, a.op))
                cur = v_ if a.op == "=" else {"+=": cur + v_, "-=": cur - v_, "*=": cur * v_, "/=": cur / v_}[a.op]
            want_c = w_ * Ssym[1] if not with_mean else w_ * (Ssym[2] - 2 * mean * Ssym[1] + mean ** 2 * Ssym[0])
            subst = {Ssym[1]: mean / w_, Ssym[0]: 1 / w_} if with_mean else {}
            diff_ = sp.simplify((cur - want_c).subs(subst))
            chk.assume("delta/filling * sum_i P[i] == 1 (the filling is the integral of the projection) when a moment is accumulated in one pass")
            chk.check(diff_ == 0, "R2", site, "%s: the accumulated value equals %s in closed form (difference %s)"
                      % (nm, "w*sum P q" if not with_mean else "w*sum P (q-mean)^2", diff_), "%s:closed-form:%s" % (nm, diff_))
            st = [a for a in s.accesses if a.kind == "store" and a.base == target[0] and a.idx is not None and a.idx[1] == target[1]]
            chk.check(len(st) == 1 and str(st[0].value) == var, "R2", A.loc(fn, {"line": st[0].line if st else fn["line"]}),
                      "%s: result stored as moment %d of (axis, bunch n)" % (nm, target[1]), "%s:store" % nm)
            continue
        z, acc, fac = seq
        nsym = acc.loops[0].sym
        isym = acc.loops[-1].sym
        P = sp.IndexedBase("_projection")[axis, nsym, isym]
        q = G.QP(axis, isym)
        mean = sp.IndexedBase("_moment")[axis, 0, nsym]
        want = P * q if not with_mean else P * (q - mean) ** 2
        chk.check(z.value == 0 and acc.value is not None and sp.expand(acc.value - want) == 0, "R2", A.loc(fn, {"line": acc.line}),
                  "%s: sums %s over i (got %s)" % (nm, want, acc.value), "%s:term:%s" % (nm, acc.value))
        # the accumulator starts from zero for every bunch: its reset is executed once per iteration of the bunch loop,
        # outside the sum loop and under no condition
        zl = [id(L) for L in z.loops]
        # (a condition the sum itself is under - the early `continue` for an empty bucket - may guard the reset too)
        accg = {(g["id"] if isinstance(g, dict) and "id" in g else A.show(g) if isinstance(g, dict) else str(g), pol) for g, pol in acc.guards}
        zg = [g for g, pol in z.guards if isinstance(g, dict) and g.get("k") not in ("SwitchCase", "Catch") and
              ((g["id"] if "id" in g else A.show(g)), pol) not in accg]
        # ... but then the result must be stored under that condition too: a reset that is skipped for an empty bucket while the store is not
        # hands on the value of the previous bunch
        gkey = lambda g, pol: ((g["id"] if isinstance(g, dict) and "id" in g else A.show(g) if isinstance(g, dict) else str(g)), pol)
        zkeys = {gkey(g, pol) for g, pol in z.guards if isinstance(g, dict) and g.get("k") not in ("SwitchCase", "Catch")}
        res_stores = [a_ for a_ in s.accesses if a_.kind == "store" and a_.base == target[0] and a_.idx is not None and a_.idx[1] == target[1] and str(a_.value) == var]
        for a_ in res_stores:
            skeys = {gkey(g, pol) for g, pol in a_.guards if isinstance(g, dict)}
            if not zkeys <= skeys:
                zg = zg + [g for g, pol in z.guards if isinstance(g, dict) and gkey(g, pol) in (zkeys - skeys)]
        chk.check(len(acc.loops) == 2 and zl == [id(acc.loops[0])] and not zg, "R2", A.loc(fn, {"line": z.line}),
                  "%s: the accumulator is reset for every bunch (reset inside the bunch loop, outside the sum)" % nm, "%s:reset-per-bunch" % nm)
        iL = acc.loops[-1]
        chk.check(iL.lo == 0 and str(iL.hi) == "maxi" or (iL.lo == 0 and iL.hi is not None and "ite" in str(iL.hi)), "R2", A.loc(fn, {"line": acc.line}),
                  "%s: the sum runs over the whole axis" % nm, "%s:sum-range:%s" % (nm, iL.hi))
        mx = [a for a in s.accesses if a.kind == "store" and a.base == "maxi"]
        okm = len(mx) == 1 and mx[0].value is not None and "axis == 0" in str(mx[0].value) and sp.expand(S.norm(mx[0].value) - N) == 0
        if not okm and len(mx) == 2 and all(m_.value is not None and m_.op == "=" for m_ in mx):
            # the same choice written as if/else: one store per branch of a test of the axis, each the length of its axis (== N)
            def branch_(m_):
                for g_, pol in m_.guards:
                    if not isinstance(g_, dict) or "axis" not in A.show(g_):
                        continue
                    if g_.get("k") == "SwitchCase":
                        return "zero" if list(g_.get("labels") or []) == [0] and pol else "other"
                    if g_.get("k") == "BinaryOperator" and g_.get("op") in ("==", "!=") and "0" in A.show(g_):
                        return "zero" if (g_["op"] == "==") == bool(pol) else "other"
                return None
            okm = sorted(str(branch_(m_)) for m_ in mx) == ["other", "zero"] and all(sp.expand(S.norm(m_.value) - N) == 0 for m_ in mx)
        chk.check(okm, "R2", A.loc(fn, {"line": mx[0].line if mx else fn["line"]}), "%s: axis length is nx for axis 0, ny for axis 1 (== N)" % nm, "%s:maxi" % nm)
        wf = G.DELTA(axis) / sp.IndexedBase("_filling")[nsym]
        chk.check(fac.value is not None and sp.simplify(fac.value - wf) == 0, "R2", A.loc(fn, {"line": fac.line}),
                  "%s: normalised by delta(axis)/filling[n] (got %s)" % (nm, fac.value), "%s:factor:%s" % (nm, fac.value))
        st = [a for a in s.accesses if a.kind == "store" and a.base == target[0] and a.idx is not None and a.idx[1] == target[1]]
        # one store of the accumulated value; a second one may put 0 for an empty bucket (the branch that skips the sum)
        st_val = [a for a in st if str(a.value) == var]
        st_zero = [a for a in st if a.value == 0 and a not in st_val]
        chk.check(len(st_val) == 1 and len(st_val) + len(st_zero) == len(st) and all(a.idx == (axis, target[1], nsym) for a in st), "R2",
                  A.loc(fn, {"line": st[0].line if st else fn["line"]}), "%s: result stored as moment %d of (axis, bunch n)" % (nm, target[1]), "%s:store" % nm)
        guard_ok = all(any("_filling_set[n] > 0" in A.show(g).replace("(", "").replace(")", "") for g, pol in a.guards if pol and isinstance(g, dict) and "k" in g and g["k"] not in ("SwitchCase", "Catch")) for a in (acc, fac))
        chk.check(guard_ok, "R2", site, "%s: empty buckets (filling_set <= 0) report 0 instead of dividing by their charge" % nm, "%s:empty-guard" % nm)
    sv = scans["variance"]
    fnv = prog.fn("vfps::PhaseSpace::variance")
    g = Fl.CFG(fnv)
    is_avg = Fl.is_call_to("vfps::PhaseSpace::average")
    loopy = lambda n_: n_.get("k") == "CompoundAssignOperator" and n_.get("op") == "+=" and (A.declref(n_["c"][0]) or {}).get("name") == "var"
    res = g.every_path_to(loopy, is_avg)
    chk.check(bool(res) and all(ok for _, ok in res), "R2", fnv.where, "variance refreshes the mean (average(axis)) before using it", "variance:average-first")
    avc = [c for c in sv.calls if c.callee == "vfps::PhaseSpace::average"]
    chk.check(len(avc) == 1 and str(avc[0].args[0]) == "axis", "R2", fnv.where, "variance computes the mean of the same axis", "variance:average-axis")
    rms = [a for a in sv.accesses if a.kind == "store" and a.base == "_rms"]
    chk.check(len(rms) == 1 and rms[0].value is not None and sp.simplify(rms[0].value - sp.sqrt(sp.Symbol("var", real=True))) == 0 and rms[0].idx[0] == axis, "R2",
              fnv.where, "rms = sqrt(variance) of the same axis", "variance:rms")
    # integrate
    fi = prog.fn("vfps::PhaseSpace::integrate")
    si = scans["integrate"]
    st = [a for a in si.accesses if a.kind == "store" and a.base == "_filling" and a.idx is not None]
    kk = I.K_
    Pb, Wb, Fb, Db = sp.IndexedBase("_projection"), sp.IndexedBase("_ws"), sp.IndexedBase("_filling"), sp.IndexedBase("_data")

    def is_sum(v, term, sizes):
        """v == SUM(term, 0, hi) with hi one of the accepted spellings of the full extent"""
        if v is None or v.func != I.SUM:
            return False
        t, lo, hi = v.args
        return sp.expand(t - term) == 0 and lo == 0 and any(sp.expand(S.norm(hi) - S.norm(z)) == 0 for z in sizes)
    nfs = st[0].loops[0].sym if st and st[0].loops else sp.Symbol("n", integer=True)
    ok = len(st) == 1 and st[0].idx == (nfs,) and is_sum(st[0].value, Pb[0, nfs, kk] * Wb[kk], [I.SIZE(Pb[0, nfs]), N, sp.Symbol("_nmeshcellsX", real=True)])
    chk.check(ok, "R2", A.loc(fi, {"line": st[0].line if st else fi["line"]}), "filling[n] = <P[0][n], ws> (%s)" % (st[0].value if st else None), "integrate:filling")
    it = [a for a in si.accesses if a.kind == "store" and a.base == "_integral"]
    ok = len(it) == 1 and is_sum(it[0].value, Fb[kk], [I.SIZE(sp.Symbol("_filling", real=True)), B, sp.Symbol("_nbunches", real=True)]) and not it[0].loops
    chk.check(ok, "R2", A.loc(fi, {"line": it[0].line if it else fi["line"]}), "integral = sum of all filling[n] (%s)" % (it[0].value if it else None), "integrate:integral")
    fx = prog.fn("vfps::PhaseSpace::updateXProjection")
    st = [a for a in scans["updateXProjection"].accesses if a.kind == "store" and a.base == "_projection"]
    ok = len(st) == 1 and st[0].idx[0] == 0 and len(st[0].idx) == 3 and \
        is_sum(st[0].value, Db[st[0].idx[1], st[0].idx[2], kk] * Wb[kk], [I.SIZE(Db[st[0].idx[1], st[0].idx[2]]), N, sp.Symbol("_nmeshcellsY", real=True)])
    chk.check(ok, "R2", A.loc(fx, {"line": st[0].line if st else fx["line"]}), "P[0][n][x] = <data[n][x][.], ws> (%s)" % (st[0].value if st else None), "updateXProjection:formula")
    xl = [L for L in st[0].loops if L.name == "x"] if st else []
    chk.check(len(xl) == 1 and xl[0].lo == 0 and sp.expand(S.norm(xl[0].hi) - N) == 0, "R2", fx.where, "X projection computed for all x", "updateXProjection:range")
    fy = prog.fn("vfps::PhaseSpace::updateYProjection")
    sy = scans["updateYProjection"]
    st = [a for a in sy.accesses if a.kind == "store" and a.base == "_projection"]
    ok = len(st) == 2 and st[0].op == "=" and st[0].value == 0 and st[1].op == "+=" and st[0].idx == st[1].idx and st[1].idx[0] == 1
    if ok:
        nS, yS, xS = (L.sym for L in st[1].loops)
        ok = sp.expand(st[1].value - sp.IndexedBase("_data")[nS, xS, yS] * sp.IndexedBase("_ws")[xS]) == 0 and st[1].idx == (1, nS, yS)
        ok = ok and all(L.lo == 0 and sp.expand(S.norm(L.hi) - (B if L.name == "n" else N)) == 0 for L in st[1].loops)
    chk.check(ok, "R2", fy.where, "P[1][n][y] = sum_x data[n][x][y]*ws[x], started at 0, over the full ranges", "updateYProjection:formula")
    fw = prog.fn("vfps::PhaseSpace::simpsonWeights")
    chk.used(fw)
    holderw = {}
    bindw = None
    if fw["params"]:
        # the step width is handed in: every call site must pass the same value, which then stands for the parameter
        vals = []
        for f_ in prog.functions.values():
            if f_.get("class") != "vfps::PhaseSpace":
                continue
            roots_ = ([f_["body"]] if f_.get("body") else []) + [i_["expr"] for i_ in f_.get("inits", []) if isinstance(i_.get("expr"), dict)]
            for r_ in roots_:
                for x_ in A.walk(r_):
                    if x_.get("callee") == "vfps::PhaseSpace::simpsonWeights" and len(x_.get("args", [])) == len(fw["params"]):
                        hc_ = {}
                        sc_ = I.Scanner(f_, hooks=[G.make_axis_hook(lambda: hc_.get("s"))])
                        hc_["s"] = sc_
                        vals.append(tuple(sc_._try(a_) for a_ in x_["args"]))
        A.require(vals and len(set(vals)) == 1 and None not in vals[0], "simpsonWeights: call sites do not agree on (or do not give) the arguments: %s" % vals)
        bindw = {p_["name"]: v_ for p_, v_ in zip(fw["params"], vals[0])}
    sw = I.Scanner(fw, hooks=[G.make_axis_hook(lambda: holderw.get("s"))], bind_params=bindw)
    holderw["s"] = sw
    sw.run()
    h = G.DELTA(0) / 3
    st = [a for a in sw.accesses if a.kind == "store" and a.base == "rv" and a.idx is not None]
    first = [a for a in st if a.idx[0] == 0]
    last = [a for a in st if sp.expand(S.norm(a.idx[0]) - (N - 1)) == 0 and not a.loops]
    mid = [a for a in st if a.loops]
    dc = sp.Symbol("dc", real=True)
    ok = len(first) == 1 and len(last) == 1 and len(mid) == 1 and sp.simplify(first[0].value - h) == 0 and sp.simplify(last[0].value - h) == 0 and \
        sp.simplify(mid[0].value - h * (3 + dc)) == 0 and mid[0].loops[0].lo == 1 and sp.expand(S.norm(mid[0].loops[0].hi) - (N - 1)) == 0
    chk.check(ok, "R2", fw.where, "Simpson weights: ends h/3, interior h/3*(3+dc)", "simpsonWeights:formula")
    dcs = [a for a in sw.accesses if a.kind == "store" and a.base == "dc"]
    ok = len(dcs) == 2 and dcs[0].value == 1 and not dcs[0].loops and dcs[1].loops and sp.simplify(dcs[1].value + dc) == 0 and dcs[1].node["id"] > mid[0].node["id"]
    chk.check(ok, "R2", fw.where, "dc starts at +1 and flips after each interior weight: pattern 4,2,4,...", "simpsonWeights:alternation")

    # ---- R3 -------------------------------------------------------------------------------------
    fnn = prog.fn("vfps::PhaseSpace::normalize")
    sn = scans["normalize"]
    st = [a for a in sn.accesses if a.kind == "store" and a.base == "_data"]
    A.require(len(st) >= 1, "normalize: no store to the grid")
    scs = [a for a in st if a.op == "*="]
    zes = [a for a in st if a.op == "=" and a.value == 0]
    oth = [a for a in st if a not in scs and a not in zes]
    chk.check(len(scs) == 1 and not oth, "R3", fnn.where, "normalize rescales the grid by one multiplication per cell (and writes nothing else but zeros): %s" % [str(a)[:60] for a in st],
              "normalize:stores:%s" % sorted(a.op for a in st))
    if scs:
        sc_ = scs[0]
        nS = sc_.loops[0].sym
        wantf = sp.IndexedBase("_filling_set")[nS] / sp.IndexedBase("_filling")[nS]
        chk.check(sc_.value is not None and sp.simplify(sc_.value - wantf) == 0, "R3", A.loc(fnn, {"line": sc_.line}),
                  "every cell of bunch n is multiplied by filling_set[n]/filling[n] (%s)" % sc_.value, "normalize:factor:%s" % sc_.value)
        # empty buckets: filling_set[n] == 0 and, once zeroed, filling[n] == 0 as well -- the factor would be 0/0.  The bucket must be set
        # to zero under the complement of a guard `filling_set[n] > 0` that protects the multiplication.
        gpos = [pol for g_, pol in sc_.guards if isinstance(g_, dict) and "_filling_set" in A.show(g_)]
        chk.check(gpos == [True], "R3", A.loc(fnn, {"line": sc_.line}),
                  "the multiplication runs only for filling_set[n] > 0: an empty bucket (0/0 after it was zeroed once) is never rescaled", "normalize:scaling-unguarded")
        # the zeroing may be spelled as one bulk fill of the bunch's contiguous block: fill_n(_data[n].origin(), nx*ny, 0)
        bulk_zero = []
        for c_ in sn.calls:
            if c_.callee in ("std::fill_n", "std::fill") and len(c_.args) == 3 and c_.args[0] is not None and c_.args[2] == 0:
                dst_ = str(c_.args[0]).replace(" ", "")
                ln_ = c_.args[1]
                full_len = ln_ is not None and (sp.expand(S.norm(ln_) - N * N) == 0 or str(ln_) in ("PhaseSpace__nmeshcells", "_nmeshcells", "PhaseSpace_nxy", "nxy"))
                if dst_ in ("origin(_data[%s])" % nS, "data(_data[%s])" % nS) and full_len and len(c_.loops) == 1 and c_.loops[0].sym == nS:
                    bulk_zero.append(c_)
        if bulk_zero and not zes:
            gneg_b = [pol for g_, pol in bulk_zero[0].guards if isinstance(g_, dict) and "_filling_set" in A.show(g_)]
            chk.check(len(bulk_zero) == 1 and gpos == [True] and gneg_b == [False], "R3", A.loc(fnn, {"line": bulk_zero[0].line}),
                      "cells of an empty bucket are set to zero by one fill of the bunch's block (nx*ny cells from _data[n].origin()), under the complement of the scaling guard",
                      "normalize:zero")
        else:
            chk.check(len(zes) == 1, "R3", fnn.where, "cells of an empty bucket are set to zero (%d zeroing stores)" % len(zes), "normalize:zero")
        for a in [sc_] + zes[:1]:
            full = len(a.loops) == 3 and a.idx == tuple(L.sym for L in a.loops) and all(L.lo == 0 and sp.expand(S.norm(L.hi) - (B if L.name == "n" else N)) == 0 for L in a.loops)
            chk.check(full, "R3", A.loc(fnn, {"line": a.line}), "the store covers every cell [n][x][y] of the bunch", "normalize:range:%s" % a.op)
        if zes:
            gneg = [pol for g_, pol in zes[0].guards if isinstance(g_, dict) and "_filling_set" in A.show(g_)]
            chk.check(gpos == [True] and gneg == [False], "R3", fnn.where, "scaling for filling_set[n] > 0, zeroing otherwise (one if/else)", "normalize:branches")
    ian = prog.fn("vfps::PhaseSpace::integrateAndNormalize")
    chk.used(ian)
    gi = Fl.CFG(ian)
    r = gi.every_path_to(Fl.is_call_to("vfps::PhaseSpace::normalize"), Fl.is_call_to("vfps::PhaseSpace::integrate"))
    chk.check(bool(r) and all(ok for _, ok in r), "R3", ian.where, "integrateAndNormalize integrates (fresh filling[n]) before it normalises", "integrateAndNormalize:order")
    # "after charge renormalisation EACH bunch integrates to its share": the renormalisation entry point normalises on every path; a
    # shortcut taken when the TOTAL looks right leaves wrong per-bunch shares that cancel in the sum
    mn_, mx_ = gi.count_on_paths(Fl.is_call_to("vfps::PhaseSpace::normalize"))
    chk.check(mn_ is not None and mn_ >= 1, "R3", ian.where, "integrateAndNormalize calls normalize() on every path (min %s, max %s calls)" % (mn_, mx_),
              "integrateAndNormalize:normalizes-on-every-path:%s" % mn_)

    # ---- R4 -------------------------------------------------------------------------------------
    ctors = prog.fns("vfps::PhaseSpace::PhaseSpace")
    cp = [c for c in ctors if c.get("copy_ctor")]
    A.require(len(cp) == 1, "PhaseSpace copy constructor not found")
    cp = cp[0]
    chk.used(cp)
    dl = [i for i in cp["inits"] if i.get("ikind") == "delegating"]
    A.require(len(dl) == 1, "PhaseSpace copy constructor does not delegate")
    de = A.strip(dl[0]["expr"], casts=False)
    names = de.get("callee_params", [])
    got = {}
    for pn, a_ in zip(names, de.get("args", [])):
        got[pn] = A.show(a_).replace(" ", "")
    want = {"axis": "other._axis", "oclh": "other._oclh", "beam_charge": "other.charge", "beam_current": "other.current", "filling": "other._filling_set",
            "zoom": "1", "data": "other._data.data()"}
    for k, v in want.items():
        chk.check(v in got.get(k, ""), "R4", A.loc(cp, {"line": dl[0]["line"]}), "copy: parameter '%s' receives %s (got %s)" % (k, v, got.get(k)), "copy:%s:%s" % (k, got.get(k)))
    main_c = [c for c in ctors if [p["name"] for p in c["params"]][:1] == ["axis"]]
    A.require(len(main_c) == 1, "PhaseSpace(axis, ...) constructor not found")
    mc = main_c[0]
    chk.used(mc)
    smc = I.scan(mc)
    cpy = I.copies(smc)
    ok = len(cpy) == 1 and str(cpy[0]["src"]) == "data" and sp.expand(S.norm(cpy[0]["length"]) - N * N * B) == 0 and \
        "data(_data)" in str(cpy[0]["dst"]) and any("data != nullptr" in A.show(g_).replace("(", "").replace(")", "") and pol for g_, pol in cpy[0]["call"].guards if isinstance(g_, dict))
    chk.check(ok, "R4", A.loc(mc, {"line": cpy[0]["call"].line if cpy else mc["line"]}), "with data given the constructor copies all B*N*N values into _data", "ctor:copy-data")
    gm = Fl.CFG(mc)
    for callee in ("updateXProjection", "updateYProjection", "integrate"):
        mn, mx = gm.count_on_paths(Fl.is_call_to("vfps::PhaseSpace::" + callee))
        chk.check(mn >= 1, "R4", mc.where, "the constructor reaches %s() on every path (min %s)" % (callee, mn), "ctor:reaches:%s:%s" % (callee, mn))
    r = gm.every_path_to(Fl.is_call_to("vfps::PhaseSpace::integrate"), Fl.is_call_to("vfps::PhaseSpace::updateXProjection"))
    chk.check(bool(r) and all(ok for _, ok in r), "R4", mc.where, "the X projection is refreshed before the constructor integrates", "ctor:order")
    ini = {i.get("target"): A.show(i["expr"]).replace(" ", "") for i in mc["inits"] if i.get("ikind") == "member"}
    chk.check("filling.begin()" in ini.get("_filling_set", "") and ini.get("_axis") in ("axis", "array(axis)", "array<meshRuler_ptr,2>(axis)") or "axis" in ini.get("_axis", ""), "R4", mc.where,
              "_filling_set and _axis are taken from the parameters", "ctor:members")
    # ---- R5: in main, a reported moment is computed from the projection that is reported with it --------------------------------
    # (freshness typestate of C10/R1, restricted to the dependence of population, mean and width on the projections of the same grid:
    # staleness caused by a later projection/integral refresh of that grid, not by a change of the grid itself)
    from .. import mainmodel as M
    from .. import fresh as Fr
    mm = M.MainModel(prog)
    chk.used(mm.fn)
    MOM = {"_moment", "_rms", "_filling", "_integral"}
    n5, seen5 = 0, set()
    for asg, g in mm.case_split():
        fr = Fr.Freshness(mm, g)
        fr.run()
        kl = fr.killers()
        byname = {}
        for (_, _, n_, e_) in fr.events:
            for sub_ in (e_.get("sequence") or [e_]):
                byname.setdefault("%s.%s" % (sub_["var"], sub_["method"]), []).append(sub_)
        for bid, i_, n_, e_ in fr.events:
            if e_["var"] != "hdf_file" or not e_["method"].startswith("append"):
                continue
            need = {Fr.norm_loc(r) for r in e_["reads"] if r[1] in MOM}
            if not need:
                continue
            n5 += 1
            st, pos = fr.before(n_)
            stale = sorted((r for r in need if not any(Fr.covers(f_, r) and (f_[2] == r[2] or f_[2] is None) for f_ in st)), key=str)
            bad = set()
            for (f_, k_) in kl[pos]:
                if f_ not in stale:
                    continue
                evs = byname.get(k_, [])
                if evs and all(f_[0] == ev["var"] and any(w[1] in ("_projection", "_filling", "_integral") for w in ev["may_writes"])
                               and not any(w[1] == "_data" for w in ev["may_writes"]) for ev in evs):
                    bad.add((("%s.%s%s" % (f_[0], f_[1], "" if f_[2] is None else "[%s]" % f_[2])), k_))
            key = "main:moment-before-projection:%s" % sorted(bad)
            if key in seen5:
                continue
            seen5.add(key)
            chk.check(not bad, "R5", A.loc(mm.fn, n_),
                      "the population, means and widths stored at this record are computed after the last refresh of the projections they are moments of%s"
                      % ("" if not bad else ": " + ", ".join("%s is older than %s" % b_ for b_ in sorted(bad))), key)
    chk.floor("R5-record-sites-x-cases", n5, 16)
    # ---- RD: dimensional consistency of the quantities this property depends on (sa/dims.py) ----------------------------------------
    from . import dimrules
    nrd = dimrules.run(chk, prog, "RD")
    chk.floor("RD-requirements", nrd or 0, 1)
    chk.notes.append("C09: bunch subscripts, moment/projection/Simpson formulas, normalisation factor and coverage, copy path. "
                     "NOT decided: discretisation error of the moments.")
