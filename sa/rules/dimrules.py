"""RD -- dimensional consistency (E7, sa/dims.py), attributed to the properties whose statements depend on the quantities involved.

The whole program is analysed once; a property evaluates
  * the *sinks* (requirements with a known right-hand side) that lie in its classes: unit attributes of the results file, named scales
    of rulers, arguments of transcendental functions;
  * every *conflict* (a constraint that contradicts the accumulated system) that lies in its classes, or in main in a statement that
    feeds (backward slice over main's locals) the construction of one of its classes.
What is decided is a necessary condition: a quantity whose dimension does not fit cannot have the right value for every choice of units
(every machine parameter set); a dimensionally neutral slip (f_rev for f_s, a factor 2*pi) is not visible to this rule."""
from .. import ast as A
from .. import dims as D
from ..compdb import AnalysisBroken

# property -> (classes whose members' constraints belong to it, classes whose construction in main it depends on, sink kinds)
SCOPE = {
    "C03": (("vfps::RFKickMap", "vfps::DriftMap", "vfps::KickMap"), ("RFKickMap", "DriftMap"), ("transcendental",)),
    "C04": (("vfps::FokkerPlanckMap",), ("FokkerPlanckMap",), ("transcendental",)),
    "C05": (("vfps::ElectricField", "vfps::WakePotentialMap", "vfps::WakeKickMap"), ("ElectricField", "WakePotentialMap"), ("transcendental",)),
    "C06": (("vfps::ElectricField",), ("ElectricField",), ("transcendental", "ruler-scale")),
    "C07": (("vfps::ElectricField",), ("ElectricField",), ("transcendental",)),
    "C09": (("vfps::PhaseSpace",), ("PhaseSpace",), ("transcendental", "ruler-scale")),
    "C10": (("vfps::HDF5File", "vfps::ElectricField", "vfps::PhaseSpace", "vfps::Impedance"), ("HDF5File", "ElectricField", "PhaseSpace"),
            ("h5-attribute", "ruler-scale")),
    "C16": (("vfps::Impedance", "vfps::FreeSpaceCSR", "vfps::ParallelPlatesCSR", "vfps::ResistiveWall", "vfps::CollimatorImpedance",
             "vfps::ConstImpedance", "vfps::makeImpedance"), ("makeImpedance",), ("transcendental", "ruler-scale")),
    "C19": (("vfps::DynamicRFKickMap", "vfps::RFKickMap"), ("DynamicRFKickMap", "RFKickMap"), ("transcendental",)),
}


def _in_classes(qnames, classes):
    for q in qnames:
        for c in classes:
            if q == c or q.startswith(c + "::"):
                return True
    return False


def main_slice(prog, targets):
    """names of main's locals that (transitively) feed the arguments of the constructions / calls named in targets"""
    mainf = prog.fn("main")
    deps = {}
    for x in A.walk(mainf["body"]):
        if x.get("k") == "DeclStmt":
            for d in x.get("decls", []):
                if isinstance(d.get("init"), dict):
                    deps.setdefault(d["name"], set()).update(y["name"] for y in A.walk(d["init"]) if y.get("k") == "DeclRefExpr" and y.get("dkind") == "Var")
        if x.get("k") in ("BinaryOperator", "CompoundAssignOperator", "CXXOperatorCallExpr") and (x.get("op") or "").endswith("=") and x.get("op") not in ("==", "!=", "<=", ">="):
            ops = x.get("args") or x.get("c") or []
            if len(ops) == 2:
                l = A.declref(ops[0])
                if l is not None:
                    deps.setdefault(l["name"], set()).update(y["name"] for y in A.walk(ops[1]) if y.get("k") == "DeclRefExpr" and y.get("dkind") == "Var")
    roots = set()
    sites = 0
    for x in A.walk(mainf["body"]):
        hit = False
        if x.get("k") in ("CXXConstructExpr", "CXXTemporaryObjectExpr") and (x.get("callee_class") or "").split("::")[-1] in targets:
            hit = True
        elif x.get("k") == "CXXNewExpr" and any((x.get("alloc_type") or "").endswith(t) for t in targets):
            hit = True
        elif x.get("k") == "CallExpr" and ((x.get("callee") or "").split("::")[-1] in targets or
                                           (x.get("callee") in ("std::make_shared", "std::make_unique") and any(("vfps::" + t) in (x.get("ctype") or "") for t in targets))):
            hit = True
        if hit:
            sites += 1
            roots |= {y["name"] for y in A.walk(x) if y.get("k") == "DeclRefExpr" and y.get("dkind") == "Var"}
    out, st = set(), list(roots)
    while st:
        v = st.pop()
        if v in out:
            continue
        out.add(v)
        st += list(deps.get(v, ()))
    return out, sites


C09_FUNCS = ("integrate", "average", "variance", "normalize", "updateXProjection", "updateYProjection", "createFromProjections", "gaus",
             "simpsonWeights", "integrateAndNormalize")


def _mine(pid, classes, qnames):
    if pid == "C09":
        # the moments and the normalisation, not the unit factors the constructor stores (those are C10's)
        return any(q.startswith("vfps::PhaseSpace::") and q.split("::")[-1] in C09_FUNCS for q in qnames[-1:])
    return _in_classes(qnames, classes)


def _failures(pid, an, classes, kinds, slice_names):
    """-> (sink groups, list of failure records (site, text, key)) attributed to property pid by one analysis"""
    groups = {}
    for s in an.sinks:
        if s["kind"] not in kinds:
            continue
        if s["kind"] != "h5-attribute" and not _mine(pid, classes, s["classes"]):
            continue
        groups.setdefault((s["site"], s["what"]), []).append(s)
    fails = []
    for (site, what), ss in groups.items():
        bad = [s for s in ss if not s["ok"]]
        if bad:
            s = bad[0]
            fails.append((site, "%s -- but it is %s%s" % (what, D.fmt(s["got"]), (" [%s]" % s["chain"]) if s["chain"] else ""),
                          "dims:%s:%s:%s" % (s["fn"].replace("vfps::", ""), what.split(" times ")[0].split(" is ")[0][:80], D.fmt(s["got"]))))
    seenc = set()
    sink_sites = {(s["site"], s["what"]) for s in an.sinks if not s["ok"]}
    for c in an.S.conflicts:
        if (c["site"], c["what"]) in sink_sites:
            continue
        mine = _mine(pid, classes, c.get("classes", []))
        if not mine and c.get("fn") == "main" and pid != "C09" and (set(c.get("names", [])) & slice_names):
            mine = True
        if not mine:
            continue
        key = (c.get("fn"), c["what"], D.fmt(c["lhs"]), D.fmt(c["rhs"]))
        if key in seenc:
            continue
        seenc.add(key)
        fails.append((c["site"], "dimension conflict in %s: %s -- %s vs %s in `%s`%s" % (
            (c.get("fn") or "?").replace("vfps::", ""), c["what"], D.fmt(c["lhs"]), D.fmt(c["rhs"]), c.get("text", ""), (" [%s]" % c["chain"]) if c.get("chain") else ""),
            "dims:%s:%s:%s-vs-%s" % ((c.get("fn") or "?").replace("vfps::", ""), c["what"][:60], D.fmt(c["lhs"]), D.fmt(c["rhs"]))))
    return groups, fails


def run(chk, prog, rule="RD"):
    pid = chk.pid
    if pid not in SCOPE:
        return
    classes, targets, kinds = SCOPE[pid]
    a1, a2 = D.analysis_of(prog)
    for an in (a1, a2):
        if an.unit_problems:
            raise AnalysisBroken("dimension analysis: " + "; ".join(an.unit_problems[:3]))
    chk.assume("dimensions: literals are pure numbers (0 fits every dimension; a literal that initialises, is passed, compared or returned stands for a "
               "quantity of the receiving dimension); energies in eV count as volts; options carry the unit written in their help text, none = pure number")
    slice_names, nsites = main_slice(prog, targets)
    A.require(nsites >= 1, "dimension rule: main builds none of %s" % (targets,))
    nd, nt = a1.determined()
    chk.tables["dimensions"] = {"constraints": a1.S.nconstraints, "function_bodies_analysed": a1.bodies, "call_chains_cloned": a1.stats["calls_cloned"],
                                "locations_with_determined_dimension": nd, "locations": nt,
                                "option_units": {f: "%s %s" % u for f, u in sorted(a1.option_units.items())}}
    g1, f1 = _failures(pid, a1, classes, kinds, slice_names)
    g2, f2 = _failures(pid, a2, classes, kinds, slice_names)
    ns = len(g1)
    for (site, what), ss in g1.items():
        if not any(not s["ok"] for s in ss):
            det = any(s["determined"] for s in ss) or any(s["determined"] for s in g2.get((site, what), []))
            chk.ok(rule, site, "%s%s" % (what, "" if det else " (defines the dimension of the stored numbers)"), nontrivial=det)
    # Which of two contradicting constraints is blamed depends on the order in which they are met.  The system is solved in two orders
    # (callers first / callees first); the property reports a contradiction only if both orders put one into its scope.
    if f1 and f2:
        seen = set()
        for site, text, key in f1 + f2:
            if key in seen:
                continue
            seen.add(key)
            chk.fail(rule, site, text, key)
    elif f1 or f2:
        chk.notes.append("RD: a dimension conflict elsewhere in the program touches this property's scope under one solving order only (%s); "
                         "it is reported by the property both orders implicate" % [k for _, _, k in (f1 or f2)][:2])
    chk.ok(rule, prog.fn("main").where, "dimension constraints of the program are consistent where this property depends on them: %d constraints from %d function bodies "
           "(%d call chains), %d of %d tracked locations have a determined dimension; %d requirements of this property evaluated; solved in two orders"
           % (a1.S.nconstraints, a1.bodies, a1.stats["calls_cloned"], nd, nt, ns))
    return ns
