"""Stencil table of the Fokker-Planck map, read off the constructor's stores
(shared by C01/R3 and C04/R1)."""
import sympy as sp
from .. import ast as A
from .. import indexmap as I
from ..compdb import AnalysisBroken
from . import gridmodel as G

e1 = sp.Symbol("e1", real=True)
P = sp.Symbol("P", real=True)          # energy coordinate of the destination row
d = G.AX(1, "delta")
jsym = sp.Symbol("j", integer=True)


def eval_cond(n, env):
    """evaluate a boolean expression over enum constants; env: field/var name -> int"""
    n = A.strip(n)
    k = n["k"]
    if k == "BinaryOperator":
        op = n["op"]
        if op == "&&":
            return eval_cond(n["c"][0], env) and eval_cond(n["c"][1], env)
        if op == "||":
            return eval_cond(n["c"][0], env) or eval_cond(n["c"][1], env)
        a, b = eval_val(n["c"][0], env), eval_val(n["c"][1], env)
        return {"==": a == b, "!=": a != b, "<": a < b, ">": a > b, "<=": a <= b, ">=": a >= b}[op]
    if k == "UnaryOperator" and n["op"] == "!":
        return not eval_cond(n["c"][0], env)
    if k == "CXXBoolLiteralExpr":
        return bool(n["value"])
    if k == "DeclRefExpr" and "__scan" in env:
        # a condition given a name: const bool with_damping = (...);
        sc = env["__scan"]
        d_ = sc.locals.get(n.get("decl"))
        if d_ is not None and "init" in d_ and sc.assigned.get(n["decl"], 0) == 0:
            return eval_cond(d_["init"], env)
    raise AnalysisBroken("gate condition not evaluable: %s" % A.show(n))


def eval_val(n, env):
    n = A.strip(n)
    if n["k"] == "DeclRefExpr" and n.get("dkind") == "EnumConstant":
        return n["enumval"]
    if n["k"] == "IntegerLiteral":
        return n["value"]
    nm = A.this_field(n) or (A.declref(n) or {}).get("name")
    if nm in env:
        return env[nm]
    raise AnalysisBroken("gate operand not evaluable: %s" % A.show(n))


class Block:
    def __init__(self, dt, loop, scan=None):
        self.dt, self.loop, self.scan = dt, loop, scan
        self.cells = {}     # k -> dict(offset=sympy, parts=[(gates, op, value, line)])
        self.line = loop.node["line"] if loop is not None else 0

    def weights(self, t):
        """k -> folded weight expression for FPType value t, as polynomial in e1, P, d"""
        out = {}
        for k, c in self.cells.items():
            w = None
            for gates, op, val, line in c["parts"]:
                if not all(eval_cond(g, {"_fptype": t, "fptype": t, "__scan": self.scan}) == pol for g, pol in gates):
                    continue
                if op == "=":
                    w = val
                elif op == "+=":
                    A.require(w is not None, "FokkerPlanckMap: += on a weight before it was set")
                    w = w + val
                elif op == "-=":
                    w = w - val
                else:
                    raise AnalysisBroken("FokkerPlanckMap: unsupported weight update " + op)
            A.require(w is not None, "FokkerPlanckMap: weight %d of block at line %d never set" % (k, self.line))
            out[k] = sp.expand(w)
        return out


class Stencils:
    def __init__(self, prog):
        self.fn = fn = prog.fn("vfps::FokkerPlanckMap::FokkerPlanckMap")
        hook = G.make_hook()
        s = self.scan = I.scan(fn, hooks=[hook])
        A.require(not s.noncanonical_loops, "FokkerPlanckMap ctor: non-canonical loop")
        pnames = [p["name"] for p in fn["params"]]
        A.require("e1" in pnames and "dt" in pnames, "FokkerPlanckMap ctor: parameters e1/dt not found")
        self.ip = sp.Symbol("_ip", real=True)
        self.blocks = {}    # dt -> [Block] in program order
        self.border = {}    # dt -> list of (row expr, k, index value, weight value, line)
        self.gate_nodes = []
        en = prog.enums.get("vfps::FokkerPlanckMap::DerivationType")
        A.require(en is not None, "FokkerPlanckMap::DerivationType not found")
        self.dt_values = sorted(e_["value"] for e_ in en["constants"])
        for a in s.accesses:
            if a.kind != "store" or a.base != "_hinfo" or a.idx is None:
                continue
            # which derivation types reach this store: every guard that tests the constructor parameter `dt`, as a case label or
            # as a plain condition (if / else-if chain), evaluated for each enumerator
            dtdecl = [p["decl"] for p in fn["params"] if p["name"] == "dt"][0]

            def on_dt(g):
                if isinstance(g, dict) and g.get("k") == "SwitchCase":
                    dr = A.declref(g["cond"])
                    return dr is not None and dr.get("decl") == dtdecl
                return isinstance(g, dict) and g.get("k") != "Catch" and any(y.get("k") == "DeclRefExpr" and y.get("decl") == dtdecl for y in A.walk(g))
            dtg = [(g, pol) for g, pol in a.guards if on_dt(g)]
            A.require(dtg, "FokkerPlanckMap ctor: _hinfo store outside the derivation-type switch")
            gates = [(g, pol) for g, pol in a.guards if not on_dt(g)]
            reach = []
            for dtv in self.dt_values:
                ok_ = True
                for g, pol in dtg:
                    if g.get("k") == "SwitchCase":
                        hit = dtv in g["labels"] or ("default" in g["labels"] and False)
                        ok_ = ok_ and (hit == pol)
                    else:
                        ok_ = ok_ and (eval_cond(g, {"dt": dtv, "__scan": s}) == pol)
                if ok_:
                    reach.append(dtv)
            for dt in reach:
                idx = sp.expand(a.idx[0])
                loops_ = list(a.loops)
                # a loop over the cells of one row (index coefficient 1, bounds [0,_ip)) is unrolled: _ip == number of cells == dt
                cellL = [L_ for L_ in loops_ if L_.sym is not None and sp.expand(idx.coeff(L_.sym, 1) - 1) == 0 and L_.lo == 0 and L_.hi in (self.ip, sp.Integer(dt))]
                if cellL:
                    L_ = cellL[0]
                    rest_loops = [x_ for x_ in loops_ if x_ is not L_]
                    for kk in range(dt):
                        a2 = I.Access(a.kind, a.base, (sp.expand(idx.subs(L_.sym, kk)),), a.path, a.node, a.line, a.guards, rest_loops, a.op,
                                      a.value.subs(L_.sym, kk) if a.value is not None else None, a.value_node, a.base_node)
                        self._take(a2, dt, gates)
                    continue
                self._take(a, dt, gates)
        A.require(self.blocks, "FokkerPlanckMap ctor: no stencil block found")
        for dt, bl in self.blocks.items():
            for b in bl:
                for k, c in b.cells.items():
                    A.require(c["offset"] is not None and c["offset"].is_Integer,
                              "FokkerPlanckMap ctor: source offset of cell %d is not j + const" % k)

    def _take(self, a, dt, gates):
        s = self.scan
        if True:
            if True:
                idx = sp.expand(a.idx[0])
                if a.loops:
                    L = a.loops[-1]
                    A.require(len(a.loops) == 1, "FokkerPlanckMap ctor: nested loops in stencil block")
                    k = sp.expand(idx - self.ip * L.sym)
                    A.require(k.is_Integer, "FokkerPlanckMap ctor: cell index %s is not _ip*j + const" % idx)
                    bl = self.blocks.setdefault(dt, [])
                    b = next((x for x in bl if x.loop.node is L.node), None)
                    if b is None:
                        b = Block(dt, L, s)
                        bl.append(b)
                    c = b.cells.setdefault(int(k), {"offset": None, "parts": [], "index_line": None})
                    A.require(a.value is not None, "FokkerPlanckMap ctor: untranslatable stencil entry at line %d" % a.line)
                    if a.path == ".index":
                        A.require(not gates and a.op == "=", "FokkerPlanckMap ctor: conditional source index")
                        c["offset"] = sp.expand(a.value - L.sym)
                        c["index_line"] = a.line
                    elif a.path == ".weight":
                        val = a.value.subs(G.AX(1, "min") + L.sym * d, P)
                        val = sp.expand(val).subs(G.AX(1, "min"), P - L.sym * d)
                        c["parts"].append((gates, a.op, sp.expand(val), a.line))
                        for g, pol in gates:
                            self.gate_nodes.append((dt, L.node["line"], g))
                    else:
                        raise AnalysisBroken("FokkerPlanckMap ctor: whole-struct store in a loop at line %d" % a.line)
                else:
                    A.require(not gates, "FokkerPlanckMap ctor: conditional border entry")
                    self.border.setdefault(dt, []).append((idx, a.path, a.value, a.line))

    def block_range(self, b):
        return b.loop.lo, b.loop.hi
