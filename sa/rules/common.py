"""Shared extraction helpers used by several property rule modules."""
import os
import sympy as sp
from .. import ast as A
from ..algebra import Translator, Unconvertible, lvalue_key
from ..compdb import AnalysisBroken


def switch_cases(sw):
    """SwitchStmt -> list of (labels, stmts); labels are ints or 'default'.
    Statements following a label up to the next label belong to it; a group that does not end in
    break/return falls through into the next one (its statements are appended)."""
    body = sw.get("body")
    A.require(body and body["k"] == "CompoundStmt", "switch body is not a compound statement")
    groups = []
    cur = None
    for st in body.get("c", []):
        labels = []
        s = st
        while isinstance(s, dict) and s["k"] in ("CaseStmt", "DefaultStmt"):
            labels.append(s.get("value") if s["k"] == "CaseStmt" else "default")
            s = s.get("sub")
        if labels:
            cur = {"labels": labels, "stmts": [], "line": st["line"]}
            groups.append(cur)
            if s is not None:
                cur["stmts"].append(s)
        else:
            A.require(cur is not None, "statement before first case label")
            cur["stmts"].append(st)
    # fallthrough
    out = []
    for i, g in enumerate(groups):
        stmts = list(g["stmts"])
        j = i
        while not (stmts and stmts[-1]["k"] in ("BreakStmt", "ReturnStmt")) and j + 1 < len(groups):
            j += 1
            stmts += groups[j]["stmts"]
        out.append((g["labels"], stmts, g["line"]))
    return out


def if_chain_cases(body, decl):
    """`if (v == A) {...} else if (v == B) {...} [else {...}]` over the variable `decl` -> the same list switch_cases() gives
    ([labels], stmts, line); an else without test is labelled 'default'"""
    out = []

    def test(cond):
        c = A.strip(cond)
        if c.get("k") != "BinaryOperator" or c.get("op") != "==":
            return None
        for e_, k_ in ((c["c"][0], c["c"][1]), (c["c"][1], c["c"][0])):
            d_ = A.declref(e_)
            kk = A.strip(k_)
            if d_ is not None and d_.get("decl") == decl:
                if kk.get("k") == "DeclRefExpr" and kk.get("dkind") == "EnumConstant":
                    return kk["enumval"]
                if kk.get("k") == "IntegerLiteral":
                    return kk["value"]
                if "const" in kk:
                    return kk["const"]
        return None

    def stmts_of(s_):
        return list(s_.get("c", [])) if s_.get("k") == "CompoundStmt" else [s_]

    def chain(ifs):
        v = test(ifs["cond"])
        if v is None:
            return False
        out.append(([v], stmts_of(ifs["then"]), ifs["line"]))
        el = ifs.get("else")
        if el is None:
            return True
        if el.get("k") == "IfStmt":
            return chain(el)
        out.append((["default"], stmts_of(el), el["line"]))
        return True
    for st in (body.get("c", []) if body.get("k") == "CompoundStmt" else [body]):
        if st.get("k") == "IfStmt" and test(st["cond"]) is not None:
            if not chain(st):
                return []
    return out


def flatten(stmts):
    """expand nested CompoundStmts"""
    out = []
    for s in stmts:
        if s is None:
            continue
        if s["k"] == "CompoundStmt":
            out += flatten(s.get("c", []))
        else:
            out.append(s)
    return out


class Fold:
    """Straight-line folding of assignments into one expression per cell
    (reaching definitions + substitution; no branching)."""

    def __init__(self, tr):
        self.tr = tr
        self.state = {}
        self.order = []

        def cell_hook(n, tr_):
            # a cell that an earlier statement of the block assigned, read on a right-hand side (ic[2] = ic[0] + f), stands for that value
            if n.get("k") == "ArraySubscriptExpr" or (n.get("k") == "CXXOperatorCallExpr" and n.get("op") == "[]"):
                try:
                    key = lvalue_key(n, tr_)
                except Unconvertible:
                    return None
                return self.state.get(key)
            return None
        self.tr.hooks.append(cell_hook)

    def old(self, key):
        return self.tr.sym("old_" + "_".join(str(x) for x in key[1:]))

    def assign(self, key, op, val):
        if op == "=":
            new = val
        else:
            cur = self.state.get(key)
            if cur is None:
                cur = self.old(key)
            b = op[:-1]
            new = {"+": cur + val, "-": cur - val, "*": cur * val, "/": cur / val}[b]
        if key not in self.state:
            self.order.append(key)
        self.state[key] = new

    def stmt(self, s):
        k = s["k"]
        if k in ("BreakStmt", "NullStmt"):
            return
        if k == "DeclStmt":
            for d in s["decls"]:
                if d.get("k") == "VarDecl" and "init" in d:
                    try:
                        self.tr.bind(d["decl"], self.tr.conv(d["init"]))
                    except Unconvertible:
                        pass
            return
        n = A.strip(s, casts=False)
        if n["k"] in ("BinaryOperator", "CompoundAssignOperator") and n["op"].endswith("=") and \
                n["op"] not in ("==", "!=", "<=", ">="):
            key = lvalue_key(n["c"][0], self.tr)
            rhs = A.strip(n["c"][1], casts=False)
            if rhs["k"] == "InitListExpr" or (rhs["k"] in ("CXXConstructExpr",) and False):
                raise Unconvertible(n, "aggregate assignment")
            val = self.tr.conv(n["c"][1])
            if key[0] == "var" and len(key) == 3:
                self.tr.bind(key[1], val if n["op"] == "=" else
                             {"+": self.tr.env.get(key[1], self.tr.sym(key[2])) + val,
                              "-": self.tr.env.get(key[1], self.tr.sym(key[2])) - val,
                              "*": self.tr.env.get(key[1], self.tr.sym(key[2])) * val,
                              "/": self.tr.env.get(key[1], self.tr.sym(key[2])) / val}[n["op"][:-1]])
            self.assign(key, n["op"], val)
            return
        raise Unconvertible(s, "statement not foldable")

    def run(self, stmts):
        for s in flatten(stmts):
            self.stmt(s)
        return self.state


# ---------------------------------------------------------------------------
# interpolation weights (SourceMap::calcCoefficiants)

def interp_weights(prog):
    """-> (fn, {n: {'weights': [sympy in f], 'line': int, 'raw': [expr nodes]}})"""
    fn = prog.fn("vfps::SourceMap::calcCoefficiants", nparams=3)
    ic, fpar, it = fn["params"]
    sws = [x for x in A.walk(fn["body"]) if x["k"] == "SwitchStmt"]
    A.require(len(sws) <= 1, "calcCoefficiants: expected at most one switch")
    if sws:
        sw = sws[0]
        cond = A.declref(sw["cond"])
        A.require(cond and cond["decl"] == it["decl"], "calcCoefficiants: switch is not over the order parameter")
        groups = switch_cases(sw)
    else:
        groups = if_chain_cases(fn["body"], it["decl"])
        A.require(groups, "calcCoefficiants: neither a switch nor an if-chain over the order parameter")
    out = {}
    f = sp.Symbol("f", real=True)
    for labels, stmts, line in groups:
        tr = Translator()
        tr.bind(fpar["decl"], f)
        fold = Fold(tr)
        fold.run(stmts)
        cells = {}
        raw = {}
        for key, val in fold.state.items():
            A.require(key[0] == "arr" and key[1] == ic["name"],
                      "calcCoefficiants: assignment to something other than the weight array: %r" % (key,))
            idx = key[2]
            A.require(idx.is_Integer, "calcCoefficiants: non-constant weight index")
            cells[int(idx)] = val
        # raw right-hand sides (for the structural f-factor rule)
        for s in flatten(stmts):
            n = A.strip(s, casts=False)
            if n["k"] in ("BinaryOperator", "CompoundAssignOperator") and n["op"].endswith("="):
                try:
                    key = lvalue_key(n["c"][0], tr)
                    raw.setdefault(int(key[2]), []).append((n["op"], n["c"][1]))
                except Exception:
                    pass
        for lab in labels:
            out[lab] = {"cells": cells, "line": line, "raw": raw}
    return fn, out, f


def stencil_origin(prog, qname, idx_field="index"):
    """In a function that stores `ph[...] .index = j0`-style source indices built as
    base + j1 - c(_it), return the list of (site line, offset expr in (k, n)) where k is the
    interpolation point number and n the order: node_k = k - c(n)."""
    raise NotImplementedError


def append_data_args(x):
    """the arguments of a call of HDF5File::_appendData by what they are, not by where they stand: (dataset info, data pointer, count or None).
    The helper is private; its parameter order is not part of any interface."""
    ds = data = n = None
    for a in x.get("args", []):
        t = A.strip(a)
        ty = (t.get("ctype") or "") + " " + (a.get("ctype") or "")
        if a.get("k") == "CXXDefaultArgExpr":
            continue
        if "DatasetInfo" in ty:
            ds = a
        elif "*" in ty or t.get("k") == "UnaryOperator" and t.get("op") == "&":
            data = a
        else:
            n = a
    return ds, data, n


def reeval(chk, prog, other, pred, as_rule, floor_name=None, floor=0, _cache={}):
    """Re-evaluate rule instances decided under another property's module as instances of `as_rule` of this check.
    A property that depends on machinery another property "owns" must evaluate the shared rules itself (round-2 lesson d).
    pred(instance) selects; the instance key keeps the owning rule so that a finding is identified the same way everywhere.
    A sub-result computed inside a dependency cycle lacks only the instances it would itself have re-evaluated from the module further up the
    chain (which evaluates them directly); consumers select by the rules a module owns, so nothing is lost through the cache."""
    import importlib
    ck = (id(prog), other, chk.tier)
    active = _cache.setdefault("__active__", [])
    pushed_root = False
    if not active:
        active.append(chk.pid)      # the check this chain of re-evaluations started from; removed again when this call returns
        pushed_root = True
    try:
        if other in active:
            return []               # mutual dependence (C03 <-> C04): the rules of `other` are being evaluated further up this chain
        if ck not in _cache:
            mod = importlib.import_module("sa.rules." + other)
            # the names the other module's rules read must exist, exactly as when that module runs as a check of its own
            from .. import main as _main
            _main.check_anchors(other, prog)
            sub = type(chk)(other, chk.tier)
            active.append(other)
            try:
                mod.run(sub, prog)
            finally:
                active.pop()
            _cache[ck] = sub
    finally:
        if pushed_root:
            active.pop()
    sub = _cache[ck]
    r = [i for i in sub.instances if pred(i)]
    for i in r:
        k = i.get("key", "ok")
        k = k.split(":", 2)[2] if k.count(":") >= 2 and k.startswith(other + ":") else k
        chk.check(i["ok"], as_rule, i["site"], "(%s/%s) %s" % (other, i["rule"], i["what"].split("\n")[0][:240]), "%s-%s:%s" % (other, i["rule"], k))
    for f in sub.functions:
        chk.functions.add(f)
    if floor_name:
        chk.floor(floor_name, len(r), floor)
    return r


# which property's statement covers the interface contract of the functions defined in a file: a parameter swapped between declaration and
# definition is reported once, under that property (reporting it under every property anchored in the file would raise alarms for
# properties the swapped arguments cannot affect)
INTERFACE_OWNER = {
    "IO/HDF5File": "C10", "PS/PhaseSpaceFactory": "C11", "PS/ElectricField": "C06", "PS/PhaseSpace": "C09", "PS/Ruler": "C09",
    "SM/SourceMap": "C01", "SM/KickMap": "C08", "SM/DriftMap": "C03", "SM/WakePotentialMap": "C05", "SM/WakeKickMap": "C05",
    "SM/RFKickMap": "C19", "SM/DynamicRFKickMap": "C19", "SM/FokkerPlanckMap": "C04", "SM/Identity": "C01", "SM/RotationMap": "C02",
    "Z/Impedance": "C16", "Z/ImpedanceFactory": "C16", "Z/FreeSpaceCSR": "C16", "Z/ParallelPlatesCSR": "C16", "Z/ResistiveWall": "C16",
    "Z/CollimatorImpedance": "C16", "Z/ConstImpedance": "C16", "IO/ProgramOptions": "C20", "IO/Display": "C14", "FFTWWrapper": "C18",
}


def anchor_files(pid):
    """the files whose interfaces are judged under property pid (see INTERFACE_OWNER)"""
    out = set()
    for stem, owner in INTERFACE_OWNER.items():
        if owner == pid:
            out.add("src/%s.cpp" % stem)
            out.add("inc/%s.hpp" % stem)
    return out


def decl_def_params(chk, prog, rule, files):
    """Interface rule: callers pass arguments in the order of the declaration they see (header prototype, in-class declaration); the body
    reads them under the definition's names.  A name that the declaration has at one position and the definition at another means the
    body receives another argument than the one its name says (two parameters of one type swapped in the definition only compile
    silently).  Renamed parameters (a name that occurs on one side only) are not judged."""
    from ..compdb import REPO
    import os
    n = 0
    for f in prog.functions.values():
        rel = os.path.relpath(f["file"], REPO)
        if rel not in files or not f.get("decl_params"):
            continue
        dn = [p["name"] for p in f["params"]]
        for d in f["decl_params"]:
            if len(d) != len(dn):
                continue
            n += 1
            moved = [(i, nm) for i, nm in enumerate(dn) if nm and nm != d[i] and nm in d]
            chk.used(f)
            chk.check(not moved, rule, f.where,
                      "%s: no parameter name of the declaration sits at another position in the definition%s"
                      % (f["qname"].replace("vfps::", ""), "" if not moved else " (definition %s, declaration %s)" % (dn, d)),
                      "%s:parameter-order:%s" % (f["qname"].replace("vfps::", ""), [nm for _, nm in moved]))
    return n


class CondEval:
    """Three-valued evaluation of branch conditions of one function under a hypothesis about atomic tests, looking through the
    spellings a condition can be given: `!`, `&&`, `||`, comparison of a count with 0, a const bool local standing for its
    initialiser, and a local lambda whose body is `return <expression>` (called with literal arguments).
    atom(node, env) -> True / False / None; env maps parameter decls of the lambda being looked into to argument nodes."""

    def __init__(self, fn):
        self.fn = fn
        self.inits, self.lambdas = {}, {}
        for x in A.walk(fn["body"]):
            if x.get("k") == "DeclStmt":
                for d in x.get("decls", []):
                    if d.get("k") != "VarDecl" or not isinstance(d.get("init"), dict):
                        continue
                    lam = [y for y in A.walk(d["init"]) if y.get("k") == "LambdaExpr"]
                    if lam:
                        self.lambdas[d["decl"]] = lam[0]
                    elif d.get("is_const"):
                        self.inits[d["decl"]] = d["init"]

    def lambda_of(self, call):
        """the local lambda a call expression invokes, with its arguments: (LambdaExpr, [args]) or None"""
        c = A.strip(call)
        if c.get("k") == "CXXOperatorCallExpr" and c.get("op") == "()" and c.get("args"):
            d = A.declref(c["args"][0])
            if d is not None and d.get("decl") in self.lambdas:
                return self.lambdas[d["decl"]], c["args"][1:]
        return None

    def resolve(self, n, env):
        """argument node standing for a lambda parameter"""
        d = A.declref(n)
        if d is not None and d.get("decl") in env:
            return env[d["decl"]]
        return n

    def tv(self, c, atom, env=None, depth=0):
        env = env or {}
        c = A.strip(c)
        if depth > 6:
            return None
        k = c.get("k")
        if k == "CXXBoolLiteralExpr":
            return bool(c.get("value"))
        if k == "UnaryOperator" and c.get("op") == "!":
            v = self.tv(c["c"][0], atom, env, depth)
            return None if v is None else (not v)
        if k == "BinaryOperator" and c.get("op") in ("&&", "||"):
            a_, b_ = self.tv(c["c"][0], atom, env, depth), self.tv(c["c"][1], atom, env, depth)
            if c["op"] == "&&":
                return False if (a_ is False or b_ is False) else (True if (a_ and b_) else None)
            return True if (a_ is True or b_ is True) else (False if (a_ is False and b_ is False) else None)
        if k == "BinaryOperator" and c.get("op") in ("!=", ">", "==") and A.strip(c["c"][1]).get("k") == "IntegerLiteral" and A.strip(c["c"][1]).get("value") == 0:
            v = self.tv(c["c"][0], atom, env, depth)
            return v if c["op"] in ("!=", ">") or v is None else (not v)
        if k == "DeclRefExpr" and c.get("decl") in self.inits:
            return self.tv(self.inits[c["decl"]], atom, env, depth + 1)
        lam = self.lambda_of(c)
        if lam is not None:
            lm, args = lam
            rets = [y for y in A.walk(lm["body"]) if y.get("k") == "ReturnStmt" and y.get("c")]
            if len(rets) == 1 and len(lm["body"].get("c", [])) == 1:
                env2 = dict(env)
                for p_, a_ in zip(lm.get("params", []), args):
                    env2[p_["decl"]] = self.resolve(a_, env)
                return self.tv(rets[0]["c"][0], atom, env2, depth + 1)
            return None
        return atom(c, env)

    def return_value(self, ret):
        """truth value a `return e;` hands back when it is decidable without a hypothesis: literal, or a call of a local lambda all of whose
        returns are the same literal"""
        if not ret.get("c"):
            return None
        e = A.strip(ret["c"][0])
        if e.get("k") == "CXXBoolLiteralExpr":
            return bool(e.get("value"))
        lam = self.lambda_of(e)
        if lam is not None:
            vals = {A.strip(y["c"][0]).get("value") if A.strip(y["c"][0]).get("k") == "CXXBoolLiteralExpr" else "?" for y in A.walk(lam[0]["body"])
                    if y.get("k") == "ReturnStmt" and y.get("c")}
            if len(vals) == 1 and "?" not in vals:
                return bool(vals.pop())
        return None

    def string_arg(self, n, env):
        """the string literal an argument denotes (directly, or through a lambda parameter bound to one)"""
        n = self.resolve(n, env)
        lit = [y for y in A.walk(n) if y.get("k") == "StringLiteral"]
        if len(lit) == 1:
            return lit[0].get("value")
        refs = [y for y in A.walk(n) if y.get("k") == "DeclRefExpr" and y.get("decl") in env]
        if len(refs) == 1:
            return self.string_arg(env[refs[0]["decl"]], {})
        return None


def no_state_between_calls(chk, fq, rule):
    """A function whose result must depend on its arguments only keeps nothing between calls: no static (or thread_local) local that is
    mutable or initialised from an argument, no assignment to a global.  A memo is accepted only if the stored result is handed out
    under a test that compares EVERY parameter directly (p == s, or container.size() == p) with a static local."""
    stat = []
    for x in A.walk(fq["body"]):
        if x.get("k") == "DeclStmt":
            for d in x.get("decls", []):
                if d.get("static_local"):
                    dep = [y for y in A.walk(d["init"]) if y.get("k") == "DeclRefExpr" and y.get("dkind") in ("ParmVar", "Var") and y.get("local")] if isinstance(d.get("init"), dict) else []
                    if not d.get("is_const") or dep:
                        stat.append(d["name"])
    gl = []
    for y, lhs, op, rhs in A.assignments_in(fq["body"]):
        dl = A.declref(lhs)
        if dl is not None and dl.get("dkind") == "Var" and not dl.get("local"):
            gl.append(dl["qname"])
    if stat and not gl:
        keyed = set()
        for y in A.walk(fq["body"]):
            if y.get("k") == "BinaryOperator" and y.get("op") == "==":
                for a_, b_ in ((y["c"][0], y["c"][1]), (y["c"][1], y["c"][0])):
                    pa_, sb_ = A.declref(a_), A.strip(b_)
                    if pa_ is not None and pa_.get("dkind") == "ParmVar":
                        sd_ = A.declref(sb_)
                        if sd_ is not None and sd_.get("name") in stat:
                            keyed.add(pa_["name"])
                        elif sb_.get("k") == "CXXMemberCallExpr" and (sb_.get("callee") or "").endswith("::size") and \
                                (A.declref(A.call_object(sb_)) or {}).get("name") in stat:
                            keyed.add(pa_["name"])
        outs = {p_["name"] for p_ in fq["params"] if "*" in (p_.get("ctype") or "") and "const" not in (p_.get("ctype") or "").split("*")[0]}
        if keyed >= {p_["name"] for p_ in fq["params"]} - outs:
            stat = []
    chk.used(fq)
    return chk.check(not stat and not gl, rule, fq.where,
                     "%s keeps nothing between calls: no static local that is mutable or initialised from an argument, no assignment to a global%s"
                     % (fq["qname"].replace("vfps::", ""), "" if not (stat or gl) else " (static: %s, globals: %s)" % (stat, gl)),
                     "%s:state-between-calls:%s" % (fq["qname"].replace("vfps::", ""), sorted(stat + gl)))


# functions that change how the processor rounds, flushes subnormals or traps: results of the SAME arithmetic differ afterwards
FP_ENV_CALLEES = {"_mm_setcsr", "__builtin_ia32_ldmxcsr", "_mm_set_flush_zero_mode", "fesetenv", "fesetround", "feupdateenv", "feholdexcept",
                  "feenableexcept", "fedisableexcept", "_controlfp", "_control87", "_FPU_SETCW", "std::fesetenv", "std::fesetround",
                  "std::feupdateenv", "std::feholdexcept", "__builtin_ia32_fxrstor", "__builtin_ia32_xrstor", "fesetmode"}
FP_UNSAFE_FLAGS = ("-ffast-math", "-Ofast", "-funsafe-math-optimizations", "-fassociative-math", "-ffinite-math-only", "-freciprocal-math",
                   "-mdaz-ftz", "-fno-signed-zeros", "-fno-trapping-math=", "-fflush-to-zero")


def fp_environment_untouched(chk, prog, rule):
    """`bit for bit` statements presuppose IEEE arithmetic in the default environment: no function of the program changes the
    floating-point control state (rounding mode, flush-to-zero / denormals-are-zero, traps), contains inline assembly, and no unit
    is built with a flag that licenses value-changing rewrites or links the FTZ start-up object."""
    nfun, hits = 0, []
    for f in prog.functions.values():
        roots = [f["body"]] if f.get("body") else []
        roots += [i["expr"] for i in f.get("inits", []) if isinstance(i.get("expr"), dict)]
        if not roots:
            continue
        nfun += 1
        for r in roots:
            for x in A.walk(r):
                cal = x.get("callee") or ""
                if cal in FP_ENV_CALLEES or cal.split("::")[-1] in FP_ENV_CALLEES:
                    hits.append((f, x, "calls " + cal))
                elif x.get("k") in ("GCCAsmStmt", "MSAsmStmt"):
                    hits.append((f, x, "contains inline assembly"))
    chk.floor(rule + "-functions-scanned", nfun, 200)
    for f, x, what in hits:
        chk.check(False, rule, A.loc(f, x), "%s %s: the floating-point environment is no longer the default one, equal operands give other results"
                  % (f["qname"], what), "fp-environment:%s:%s" % (f["qname"].replace("vfps::", ""), what.split()[-1]))
    from .. import compdb
    units, _ = compdb.load()
    bad = sorted({(os.path.relpath(s, compdb.REPO), fl) for s, fls in units for fl in fls if fl.startswith(FP_UNSAFE_FLAGS)})
    chk.check(not bad, rule, "CMakeLists.txt", "no unit is compiled with a flag that changes floating-point results (%s); %d functions with bodies "
              "contain no call that sets the floating-point control state and no inline assembly" % (bad[:4] or "none", nfun),
              "fp-flags:%s" % sorted({b[1] for b in bad}))


_INT_WIDTH = {"char": 8, "signed char": 8, "unsigned char": 8, "short": 16, "unsigned short": 16, "int": 32, "unsigned int": 32,
              "long": 64, "unsigned long": 64, "long long": 64, "unsigned long long": 64, "__int128": 128, "unsigned __int128": 128}


def int_width(ctype):
    t = (ctype or "").replace("const ", "").replace("volatile ", "").strip()
    return _INT_WIDTH.get(t)


def no_index_narrowing(chk, prog, rule, scope):
    """Grid indices and sizes are 32/64-bit quantities (meshindex_t, size_t).  Converting an expression that mentions such a variable,
    member or call result to an integer type of 16 bits or fewer wraps it for every grid larger than that type's range; literals,
    enumerators and operands that are themselves of a small type are bounded by their type and not judged.  `scope(f)` selects the
    functions; returns the number of integral conversions examined."""
    nconv = 0
    for f in prog.functions.values():
        if not scope(f):
            continue
        roots = [f["body"]] if f.get("body") else []
        roots += [i["expr"] for i in f.get("inits", []) if isinstance(i.get("expr"), dict)]
        for r in roots:
            for x in A.walk(r):
                if x.get("cast") != "IntegralCast" or not x.get("c"):
                    continue
                to, fr = int_width(x.get("ctype")), int_width(x["c"][0].get("ctype"))
                if not to or not fr:
                    continue
                nconv += 1
                if not (to < fr and to <= 16):
                    continue
                wide = []
                for y in A.walk(x["c"][0]):
                    if y.get("k") in ("DeclRefExpr", "MemberExpr") and y.get("dkind") != "EnumConstant" and (int_width(y.get("ctype")) or 0) >= 32:
                        wide.append(y.get("name") or (y.get("member") or {}).get("name") or "?")
                    elif y.get("k") in ("CallExpr", "CXXMemberCallExpr", "CXXOperatorCallExpr") and (int_width(y.get("ctype")) or 0) >= 32:
                        wide.append((y.get("callee") or "call").split("::")[-1] + "()")
                if wide:
                    chk.used(f)
                    chk.check(False, rule, A.loc(f, x), "%s: a value computed from %s (%s) is converted to %s: it wraps for grids larger than %d"
                              % (f["qname"].replace("vfps::", ""), sorted(set(wide)), x["c"][0].get("ctype"), x.get("ctype"), 2 ** to),
                              "narrowing:%s:%s:%s" % (f["qname"].replace("vfps::", ""), "+".join(sorted(set(wide))), x.get("ctype")))
    return nconv


def owns_its_configuration(chk, prog, rule, classes, floor=1):
    """What a class was set up with (sizes, bucket numbers, factors) must be what its methods later use: a data member of reference type
    aliases an object of the caller, so a later change of that object changes the results of an already constructed instance; the same
    holds for a raw pointer member that a constructor binds to (data of) a by-reference parameter.  shared_ptr members are the
    declared sharing idiom of this code base and are judged by the effect rules instead."""
    n = 0
    for q in classes:
        rec = prog.records.get(q)
        if rec is None:
            raise AnalysisBroken("class %s not found" % q)
        for fld in rec["fields"]:
            n += 1
            ct = (fld.get("ctype") or "").rstrip()
            chk.check(not ct.endswith("&"), rule, "%s:%d" % (os.path.relpath(rec["file"], _repo()), fld["line"]),
                      "%s::%s (%s) is owned by the object, not a reference to caller data" % (q.replace("vfps::", ""), fld["name"], fld.get("type")),
                      "reference-member:%s::%s" % (q.replace("vfps::", ""), fld["name"]))
        ptr = {fld["name"] for fld in rec["fields"] if (fld.get("ctype") or "").rstrip().endswith("*")}
        for f in prog.functions.values():
            if f.get("class") != q or not f.get("inits"):
                continue
            refparams = {p_["name"] for p_ in f.get("params", []) if (p_.get("ctype") or "").rstrip().endswith(("&", "*"))}
            for i in f["inits"]:
                if i.get("ikind") == "member" and i.get("target") in ptr and isinstance(i.get("expr"), dict):
                    al = sorted({y["name"] for y in A.walk(i["expr"]) if y.get("k") == "DeclRefExpr" and y.get("dkind") == "ParmVar" and y["name"] in refparams})
                    n += 1
                    chk.check(not al, rule, A.loc(f, {"line": i["line"]}), "%s::%s is not bound to data of the by-reference parameter %s"
                              % (q.replace("vfps::", ""), i["target"], al or ""), "pointer-member-aliases-parameter:%s::%s" % (q.replace("vfps::", ""), i["target"]))
    chk.floor(rule + "-members", n, floor)
    return n


def _repo():
    from .. import compdb
    return compdb.REPO


SIZE_CHANGING = {"swap", "resize", "assign", "push_back", "emplace_back", "clear", "insert", "erase", "pop_back", "shrink_to_fit"}


def _grow_only_resize(idx, x):
    """`v.resize(e)` that can only lengthen v: e is std::max(v.size(), ..), or the call is in the then-branch of `e > v.size()` /
    `v.size() < e` (same e, same v, by structure)"""
    if (x.get("callee") or "").split("::")[-1] != "resize" or not x.get("args"):
        return False
    v, e = A.show(A.call_object(x)), A.strip(x["args"][0])
    size_of_v = lambda n: n.get("k") == "CXXMemberCallExpr" and (n.get("callee") or "").endswith("::size") and A.show(A.call_object(n)) == v
    if e.get("k") == "CallExpr" and e.get("callee") in ("std::max",) and any(size_of_v(A.strip(a_)) for a_ in e.get("args", [])):
        return True
    for c in A.enclosing(idx, x, {"IfStmt"}):
        if not any(y is x or y.get("id") == x["id"] for y in A.walk(c.get("then") or {})):
            continue
        t = A.strip(c["cond"])
        if t.get("k") == "BinaryOperator" and t.get("op") in (">", "<"):
            big, small = (t["c"][0], t["c"][1]) if t["op"] == ">" else (t["c"][1], t["c"][0])
            if size_of_v(A.strip(small)) and A.show(A.strip(big)) == A.show(e):
                return True
    return False


def length_changing_members(prog, classes, field):
    """methods (not constructors) of `classes` that can change the length of the container member `field`, directly or through another
    member: sig -> (why, grow_only)"""
    meths = [fq for fq in prog.functions.values() if fq.get("class") in classes and fq.get("body") and fq.get("kind") not in ("ctor", "dtor")]
    changing = {}
    for fq in meths:
        idx = A.index(fq)
        for x in A.walk(fq["body"]):
            why = None
            if x.get("k") == "CXXMemberCallExpr" and (x.get("callee") or "").split("::")[-1] in SIZE_CHANGING and A.member_name(A.call_object(x)) == field:
                why = ("%s on %s (line %d)" % (x["callee"].split("::")[-1], field, x["line"]), _grow_only_resize(idx, x))
            elif x.get("k") == "CallExpr" and (x.get("callee") or "") in ("std::swap", "swap") and any(A.member_name(a_) == field for a_ in x.get("args", [])):
                why = ("std::swap of %s (line %d)" % (field, x["line"]), False)
            elif x.get("k") in ("CXXOperatorCallExpr", "BinaryOperator") and x.get("op") == "=":
                lhs_ = (x.get("args") or x.get("c"))[0]
                if A.member_name(lhs_) == field and "vector" in (A.strip(lhs_).get("ctype") or ""):
                    why = ("assignment to %s (line %d)" % (field, x["line"]), False)
            if why is not None:
                old = changing.get(fq["sig"])
                changing[fq["sig"]] = why if old is None else (old[0], old[1] and why[1])
    grew = True
    while grew:
        grew = False
        for fq in meths:
            if fq["sig"] in changing:
                continue
            for x in A.walk(fq["body"]):
                if x.get("callee_sig") in changing:
                    changing[fq["sig"]] = ("calls %s" % x["callee"].split("::")[-1], changing[x["callee_sig"]][1])
                    grew = True
                    break
    return changing


def external_callers(prog, sig, classes):
    sites = []
    for g_ in prog.functions.values():
        if g_.get("class") in classes or not (g_.get("body") or g_.get("inits")):
            continue
        roots = ([g_["body"]] if g_.get("body") else []) + [i_["expr"] for i_ in g_.get("inits", []) if isinstance(i_.get("expr"), dict)]
        for r_ in roots:
            for x in A.walk(r_):
                if x.get("callee_sig") == sig:
                    sites.append(A.loc(g_, x))
    return sites


def bulk_copies(scan):
    """block copies a function performs, in one form whatever the spelling: [(src expr, number of ELEMENTS, dst expr, line)] for
    std::copy_n(src, n, dst), std::copy(first, last, dst) and memcpy(dst, src, sizeof(T)*n) (a byte count without a sizeof factor cannot be
    turned into elements and is reported with length None)"""
    out = []
    for c in scan.calls:
        cal = c.callee or ""
        if cal == "std::copy_n" and len(c.args) == 3:
            out.append((c.args[0], c.args[1], c.args[2], c.line))
        elif cal == "std::copy" and len(c.args) == 3 and c.args[0] is not None and c.args[1] is not None:
            out.append((c.args[0], sp.expand(c.args[1] - c.args[0]), c.args[2], c.line))
        elif cal in ("memcpy", "std::memcpy", "memmove", "std::memmove") and len(c.args) == 3:
            nb = c.args[2]
            ln = None
            if nb is not None:
                szs = [z for z in nb.atoms(sp.Function) if str(z.func) == "sizeof"]
                if len(szs) == 1 and sp.expand(nb).coeff(szs[0], 0) == 0:
                    ln = sp.expand(nb / szs[0])
            out.append((c.args[1], ln, c.args[0], c.line))
    return out


def offset_copy_from_field(scan):
    """how WakePotentialMap::update fills _offset from the field's wake potential, in one form whatever the spelling:
    (source text, number of elements, line, plain) for std::copy_n(src, n, _offset.data()) or for the loop `_offset[i] = p[i]` over
    i in [0, n) with p the pointer the field returned; plain is False when the stored value is anything but the source element"""
    for c in scan.calls:
        if c.callee == "std::copy_n" and len(c.args) == 3 and str(c.args[2]) == "data(_offset)":
            return str(c.args[0]), c.args[1], c.line, True
    st = [a for a in scan.accesses if a.kind == "store" and a.base == "_offset" and a.idx is not None and a.op == "=" and a.loops]
    if len(st) == 1 and st[0].value is not None:
        a = st[0]
        L = a.loops[-1]
        v = a.value
        if isinstance(v, sp.Indexed) and len(v.indices) == 1 and sp.expand(v.indices[0] - a.idx[0]) == 0 and a.idx[0] == L.sym and L.lo == 0:
            base = str(v.base)
            # a local pointer stands for the call it was initialised from
            for d in scan.locals.values():
                if d.get("name") == base and isinstance(d.get("init"), dict):
                    t_ = scan._try(d["init"])
                    if t_ is not None:
                        base = str(t_)
            return base, L.hi, a.line, True
        return str(v), L.hi, a.line, False
    return None
