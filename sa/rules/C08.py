"""C08 — in a multi-bunch run every bunch evolves exactly as it would on its own.

Independence of bunches is equality of index maps, for all B, N, orders:
 R1  source-map table: the row KickMap::apply reads for bunch n, perpendicular
     row r, point j is the row KickMap::updateSM wrote for offset row
     b(n)*N + r, point j, with b(n) = min(n,_lastbunch) (own rows when the map is
     per-bunch, the shared rows otherwise);
 R2  who fills which rows: a subclass that fills offsets for one bunch only must
     run as a shared map (_lastbunch == 0), one that fills B*N offsets as a
     per-bunch map (_lastbunch == B-1); the x-kick reads rows [0,N) only;
 R3  data blocks: source and destination cells of KickMap::apply (both
     branches) and FokkerPlanckMap::apply carry the same bunch term n*N*N and
     the source stays inside the bunch through the bounds guard;
 R4  Identity copies all B blocks; WakePotentialMap::update copies B*N offsets
     from the field's [B][N] wake-potential array (bunch-major on both sides).
"""
import sympy as sp
from .. import ast as A
from .. import indexmap as I
from ..compdb import AnalysisBroken
from . import interp, sizemodel as S, kickmodel as K

LEVEL = "other"
N, B = S.N, S.B
ip_ = sp.Symbol("_ip", real=True)
mkd, mpd = sp.Symbol("_meshsize_kd", real=True), sp.Symbol("_meshsize_pd", real=True)
lastb = sp.Symbol("_lastbunch", real=True)


def class_axis(prog, cls):
    """kick axis ('x'/'y') a KickMap subclass passes up the constructor chain, and the chain"""
    chain = []
    cur = cls
    axis = None
    guard = 0
    while cur != "vfps::KickMap" and guard < 6:
        guard += 1
        ctors = prog.fns(cur + "::" + cur.split("::")[-1])
        A.require(ctors, "constructor of %s not found" % cur)
        nxt = None
        for c in ctors:
            for i in c.get("inits", []):
                if i.get("ikind") == "base":
                    e = A.strip(i["expr"], casts=False)
                    nxt = e.get("callee_class")
                    if nxt == "vfps::KickMap":
                        names = e.get("callee_params", [])
                        A.require("kd" in names, "KickMap constructor has no parameter kd")
                        arg = A.declref(e["args"][names.index("kd")])
                        A.require(arg is not None and arg.get("dkind") == "EnumConstant", "%s: kick axis is not a constant" % cur)
                        ax = arg["name"]
                        A.require(axis in (None, ax), "%s: constructors disagree on the kick axis" % cur)
                        axis = ax
        chain.append(cur)
        A.require(nxt is not None, "%s: base class not found" % cur)
        cur = nxt
    return axis, chain


def lastbunch_values(prog, cls, lb0, memo=None):
    """set of values `_lastbunch` can have after construction of cls, one per constructor chain"""
    if cls == "vfps::KickMap":
        return {lb0}
    out = set()
    ctors = prog.fns(cls + "::" + cls.split("::")[-1])
    A.require(ctors, "constructor of %s not found" % cls)
    for c in ctors:
        s = I.scan(c)
        own = [a for a in s.accesses if a.kind == "store" and a.base == "_lastbunch" and a.idx is None]
        if own:
            v = own[-1].value
            out.add(S.norm(v) if v is not None and not own[-1].guards and not own[-1].loops else sp.Symbol("unknown"))
            continue
        base = [A.strip(i["expr"], casts=False).get("callee_class") for i in c.get("inits", []) if i.get("ikind") == "base"]
        A.require(len(base) == 1, "%s: base initialiser not found" % c["sig"])
        out |= lastbunch_values(prog, base[0], lb0)
    return out


def run(chk, prog):
    chk.assume("all size symbols >= 1", "CPU code path (INOVESA_USE_OPENCL=0 is the analysed build)")
    S.lemmas(chk, prog)
    ka = K.KickApply(prog)
    usm = interp.UpdateSM(prog)
    chk.used(ka.fn); chk.used(usm.fn)
    kfn, ks, kf = K.kick_fields(prog)
    chk.used(kfn)
    sz = {mkd: N, mpd: N}

    # KickMap's own size fields under the size model
    for fld in ("_meshsize_kd", "_meshsize_pd"):
        v = kf.get(fld)
        chk.check(v is not None and sp.expand(v - N) == 0, "R1", kfn.where, "KickMap::%s == N for either kick axis (got %s)" % (fld, v),
                  "KickMap::ctor:%s:%s" % (fld, v))
    # _offset holds B*N rows
    rs = [c for c in ks.calls if c.callee and c.callee.endswith("::resize") and A.this_field(A.call_object(c.node)) == "_offset"]
    A.require(len(rs) == 1, "KickMap ctor: _offset.resize not found")
    ext = S.norm(rs[0].args[0]).subs(sz) if rs[0].args[0] is not None else None
    chk.check(ext is not None and sp.expand(ext - N * B) == 0, "R1", A.loc(kfn, {"line": rs[0].line}),
              "_offset has B*N rows (resize(%s))" % ext, "KickMap::ctor:offset-size:%s" % ext)

    # writer: _hinfo[i*_ip + j1], i over all rows of _offset
    wr = usm.hinfo_stores
    for a in wr:
        outer, inner = a.loops[0], a.loops[-1]
        chk.check(sp.expand(a.idx[0] - (outer.sym * ip_ + inner.sym)) == 0 and outer.lo == 0 and
                  str(outer.hi) == "size(_offset)", "R1", A.loc(usm.fn, {"line": a.line}),
                  "writer: point %s of offset row %s -> _hinfo[%s], rows = all of _offset" % (inner.name, outer.name, a.idx[0]),
                  "updateSM:writer:%s" % a.idx[0])
    nread = 0
    for axis, b in sorted(ka.branches.items()):
        h = b.hinfo[0]
        site = A.loc(ka.fn, {"line": h.line})
        loops = {L.name: L for L in h.loops}
        n = loops["n"].sym
        pt = h.loops[-1]
        R = sp.expand(h.idx[0].subs(sz))
        row = sp.expand((R - pt.sym) / ip_)
        if not chk.check(not row.has(ip_) and row.is_polynomial(*[L.sym for L in h.loops]) or
                         (not row.has(ip_) and not any(isinstance(x, sp.Pow) and x.exp < 0 for x in sp.preorder_traversal(row))),
                         "R1", site, "%s-kick reader: _hinfo[%s] is (row)*_ip + point, the stride the writer uses (row = %s)" % (axis, h.idx[0], row),
                         "KickMap::apply:%s:reader-stride:%s" % (axis, R)):
            nread += 1
            continue
        nread += 1
        perp = [L for L in h.loops if L.name not in ("n",) and L is not pt and row.has(L.sym)]
        A.require(len(perp) == 1, "KickMap::apply(%s): perpendicular row variable not identified" % axis)
        r = perp[0].sym
        bterm = sp.expand((row - r) / N)
        if axis == "y":
            ok = bterm == sp.Min(lastb, n)
            chk.check(ok, "R1", site, "y-kick reader uses offset row min(n,_lastbunch)*N + %s: bunch n reads its own rows (bunch term %s)" % (perp[0].name, bterm),
                      "KickMap::apply:y:bunch-term:%s" % bterm)
        else:
            chk.check(bterm == 0, "R1", site, "x-kick reader uses the shared rows [0,N) for every bunch (bunch term %s)" % bterm,
                      "KickMap::apply:x:bunch-term:%s" % bterm)
        chk.check(perp[0].lo == 0 and sp.expand(S.norm(perp[0].hi).subs(sz) - N) == 0 and pt.lo == 0 and pt.hi == ip_, "R1", site,
                  "%s-kick reader visits rows [0,N) and points [0,_ip)" % axis, "KickMap::apply:%s:reader-range" % axis)
    chk.floor("R1-readers", nread, 2)

    # ---- R2: fillers vs. _lastbunch ---------------------------------------------------------------
    lb0 = kf.get("_lastbunch")
    chk.check(lb0 is not None and sp.expand(lb0 - (B - 1)) == 0, "R2", kfn.where,
              "KickMap initialises _lastbunch = B-1 (per-bunch map by default): %s" % lb0, "KickMap::ctor:lastbunch:%s" % lb0)
    subs = sorted(c for c in prog.subclasses("vfps::KickMap"))
    A.require(len(subs) >= 4, "expected at least 4 KickMap subclasses, found %s" % subs)
    fillers = 0
    for cls in subs:
        rec = prog.record(cls)
        if rec.get("abstract"):
            continue
        axis, chain = class_axis(prog, cls)
        xs = 1 if axis == "x" else N
        ys = N if axis == "x" else 1
        fill_rows = None
        fill_sites = []
        lb = lb0
        for c in reversed(chain):           # base first
            for f in prog.functions.values():
                if f.get("class") != c or not f.get("body"):
                    continue
                s = I.scan(f)
                for a in s.accesses:
                    if a.kind == "store" and a.base == "_lastbunch" and a.idx is None and f["kind"] != "ctor":
                        raise AnalysisBroken("%s writes _lastbunch outside a constructor" % f["qname"])
                    if a.kind == "store" and a.base == "_offset" and a.idx is not None:
                        A.require(len(a.loops) >= 1, "%s: _offset store outside a loop" % f["qname"])
                        L = a.loops[0]
                        if a.loops[-1].cmp == "range" and a.idx[0] == a.loops[-1].sym:
                            # for (auto& o : _offset): an in-place pass over the rows already there; adds no rows
                            continue
                        if a.idx[0] != L.sym and len(a.loops) == 2 and a.loops[0].lo == 0 and a.loops[1].lo == 0:
                            # rows filled block by block: _offset[n*X + j], n over the bunches, j over the X rows of a bunch
                            Ln, Lj = a.loops
                            X_ = S.norm(Lj.hi)
                            want_idx = sp.expand(Ln.sym * X_ + Lj.sym)
                            okl = sp.expand(S.norm(a.idx[0]) - want_idx) == 0
                            chk.check(okl, "R2", A.loc(f, {"line": a.line}), "%s fills the offset rows bunch-major (_offset[n*%s + j], got %s)" % (f["qname"].replace("vfps::", ""), X_, a.idx[0]),
                                      "%s:fill-layout:%s" % (f["qname"].replace("vfps::", ""), a.idx[0]))
                            # a block copy: bunch n's rows must come from bunch n's rows of the source (no permutation of the bunches)
                            src_ix = [t_ for t_ in (a.value.atoms(sp.Indexed) if a.value is not None else [])]
                            if a.op == "=" and len(src_ix) == 1 and a.value == src_ix[0]:
                                d_ = sp.expand(S.norm(src_ix[0].indices[0]) - S.norm(a.idx[0]))
                                chk.check(d_ == 0, "R2", A.loc(f, {"line": a.line}),
                                          "%s: the rows of bunch n are copied from the rows of bunch n of the source (source index - destination index = %s)"
                                          % (f["qname"].replace("vfps::", ""), d_), "%s:fill-source-permuted:%s" % (f["qname"].replace("vfps::", ""), d_))
                            hi = sp.expand(S.norm(Ln.hi) * X_).subs({sp.Symbol("_xsize", real=True): xs, sp.Symbol("_ysize", real=True): ys})
                            fill_rows = hi if fill_rows is None else sp.Max(fill_rows, hi)
                            fill_sites.append(A.loc(f, {"line": a.line}))
                            chk.used(f)
                            continue
                        A.require(a.idx[0] == L.sym and L.lo == 0, "%s: _offset filled at %s, not at the loop variable" % (f["qname"], a.idx[0]))
                        hi = S.norm(L.hi).subs({sp.Symbol("_xsize", real=True): xs, sp.Symbol("_ysize", real=True): ys})
                        fill_rows = hi if fill_rows is None else sp.Max(fill_rows, hi)
                        fill_sites.append(A.loc(f, {"line": a.line}))
                        chk.used(f)
                for cl in s.calls:
                    if cl.callee in ("std::copy_n", "std::fill_n") and cl.args and str(cl.args[-1] if cl.callee == "std::copy_n" else cl.args[0]) == "data(_offset)":
                        ln = S.norm(cl.args[1]).subs({sp.Symbol("_xsize", real=True): xs, sp.Symbol("_ysize", real=True): ys})
                        fill_rows = ln if fill_rows is None else sp.Max(fill_rows, ln)
                        fill_sites.append(A.loc(f, {"line": cl.line}))
                        chk.used(f)
        if fill_rows is None:
            continue
        fillers += 1
        site = fill_sites[0]
        if axis == "x":
            chk.check(sp.expand(fill_rows - N) == 0 or sp.expand(fill_rows - N * B) == 0, "R2", site,
                      "%s (x-kick) fills offset rows [0,%s) >= the shared rows [0,N) the reader uses" % (cls, fill_rows),
                      "%s:fill-rows:%s" % (cls, fill_rows))
        else:
            for lb in sorted(lastbunch_values(prog, cls, lb0), key=str):
                if lb is None:
                    chk.fail("R2", site, "%s (y-kick): _lastbunch has no value from the KickMap constructor: which rows the reader takes for bunch n is indeterminate" % cls,
                             "%s:lastbunch-uninitialised" % cls.split("::")[-1])
                    continue
                want = sp.expand((lb + 1) * N)
                chk.check(sp.expand(fill_rows - want) == 0, "R2", site,
                          "%s (y-kick) fills offset rows [0,%s); the reader consumes rows [0,(_lastbunch+1)*N) with _lastbunch = %s"
                          % (cls, fill_rows, lb), "%s:fill-rows:%s:lastbunch:%s" % (cls.split("::")[-1], fill_rows, lb))
    chk.floor("R2-fillers", fillers, 3)

    # ---- R3: data blocks -----------------------------------------------------------------------------
    hidx = sp.Symbol("h.index", real=True)
    nsite = 0
    for axis, b in sorted(ka.branches.items()):
        for acc, what in ((b.din[0], "source"), (b.dout[0], "destination")):
            e = sp.expand(S.norm(acc.idx[0]).subs(sz))
            n = [L for L in acc.loops if L.name == "n"][0].sym
            rest = sp.expand(e - n * N * N)
            chk.check(not rest.has(n), "R3", A.loc(ka.fn, {"line": acc.line}),
                      "%s-kick %s cell = n*N*N + (in-bunch part %s)" % (axis, what, rest), "KickMap::apply:%s:%s:bunch-term:%s" % (axis, what, e))
            nsite += 1
            if what == "destination":
                cl = [L for L in acc.loops if L.name != "n"]
                inb = all(L.lo == 0 and sp.expand(S.norm(L.hi).subs(sz) - N) == 0 for L in cl) and len(cl) == 2
                c1 = sorted([sp.expand(rest.coeff(L.sym, 1)) for L in cl], key=str)
                chk.check(inb and c1 == sorted([sp.Integer(1), N], key=str), "R3", A.loc(ka.fn, {"line": acc.line}),
                          "%s-kick destination covers exactly the N*N cells of bunch n" % axis, "KickMap::apply:%s:destination-cover" % axis)
                nsite += 1
    for axis, b in sorted(ka.branches.items()):
        ok, why = K.source_guard(ka, b)
        chk.check(ok, "R3", A.loc(ka.fn, {"line": b.din[0].line}), "%s-kick: the source cell stays inside bunch n: %s" % (axis, why),
                  "KickMap::apply:%s:source-guard" % axis)
        nsite += 1
    fa = prog.fn("vfps::FokkerPlanckMap::apply", nparams=0)
    chk.used(fa)
    s = I.scan(fa)
    fsz = {sp.Symbol("_meshxsize", real=True): N, sp.Symbol("_ysize", real=True): N}
    for a in s.accesses:
        if a.idx is None or a.base not in ("data_in", "data_out"):
            continue
        e = sp.expand(a.idx[0].subs(fsz))
        n = [L for L in a.loops if L.name == "n"][0].sym
        rest = sp.expand(e - n * N * N)
        chk.check(not rest.has(n), "R3", A.loc(fa, {"line": a.line}), "FokkerPlanckMap::apply %s cell = n*N*N + %s" % (a.base, rest),
                  "FP::apply:%s:bunch-term:%s" % (a.base, e))
        nsite += 1
    for nm in ("vfps::KickMap::apply", "vfps::FokkerPlanckMap::apply"):
        f = prog.fn(nm, nparams=0)
        sc = I.scan(f)
        nl = [L for a in sc.accesses for L in a.loops if L.name == "n"]
        A.require(nl, "%s: bunch loop not found" % nm)
        for L in {id(x): x for x in nl}.values():
            chk.check(L.lo == 0 and sp.expand(S.norm(L.hi) - B) == 0, "R3", A.loc(f, {"line": L.node["line"]}),
                      "%s: bunch loop runs over all B bunches" % nm.split("::")[-2], "%s:bunch-loop" % nm)
            nsite += 1
    chk.floor("R3-sites", nsite, 8)

    # ---- R4 ------------------------------------------------------------------------------------------
    idf = prog.fn("vfps::Identity::apply", nparams=0)
    chk.used(idf)
    s = I.scan(idf)
    from .common import bulk_copies
    cp = bulk_copies(s)
    A.require(len(cp) == 1, "Identity::apply: expected one block copy (copy_n / copy / memcpy)")
    ln = S.norm(cp[0][1]) if cp[0][1] is not None else None
    chk.check(ln is not None and sp.expand(ln - N * N * B) == 0, "R4", A.loc(idf, {"line": cp[0][3]}),
              "Identity copies all B blocks of N*N cells (length %s)" % ln, "Identity:length:%s" % ln)
    wu = prog.fn("vfps::WakePotentialMap::update", nparams=0)
    chk.used(wu)
    s = I.scan(wu)
    from .common import offset_copy_from_field
    oc = offset_copy_from_field(s)
    A.require(oc is not None, "WakePotentialMap::update: how _offset is filled from the field is not recognised (copy_n or a plain copy loop)")
    src_t, ln_e, line_c, plain_c = oc
    ln = S.norm(ln_e).subs(sp.Symbol("_xsize", real=True), N) if ln_e is not None else None
    chk.check(plain_c and ln is not None and sp.expand(ln - N * B) == 0 and src_t == "wakePotential(_field)",
              "R4", A.loc(wu, {"line": line_c}), "wake map copies B*N offsets from the field's wake potential into _offset (length %s, source %s)" % (ln, src_t),
              "WakePotentialMap::update:copy:%s" % ln)
    # layout of the source: ElectricField::_wakepotential is [B][N], bunch-major, written as [b][x]
    wp = prog.fn("vfps::ElectricField::wakePotential", nparams=0)
    chk.used(wp)
    s = I.scan(wp)
    st = [a for a in s.accesses if a.kind == "store" and a.base == "_wakepotential" and a.idx is not None]
    A.require(len(st) >= 1, "ElectricField::wakePotential: store to _wakepotential not found")
    for a in st:
        names = [L.name for L in a.loops]
        ok = len(a.idx) == 2 and len(a.loops) == 2 and a.idx[0] == a.loops[0].sym and a.idx[1] == a.loops[1].sym
        chk.check(ok, "R4", A.loc(wp, {"line": a.line}), "wake potential of bunch %s at position %s is stored at [bunch][position]" % tuple(names[:2] if len(names) > 1 else ("?", "?")),
                  "wakePotential:layout:%s" % (a.idx,))
    r = [x for x in s.returns]
    chk.check(any("origin" in A.show(x[0]) or "data" in A.show(x[0]) for x in r), "R4", wp.where,
              "wakePotential() returns the start of the contiguous [B][N] array", "wakePotential:return")
    # ---- R6: the source-map table is rebuilt whenever the displacement field changes (a stale table moves the grid by old offsets) ----
    K.offset_table_sync(chk, prog, "R6")
    chk.notes.append("C08: every table/grid index in the transport code decomposes into (bunch n) + (in-bunch) parts that agree between "
                     "writer and reader; fill extents agree with _lastbunch. Exhaustive over the index sites of KickMap, its subclasses, "
                     "FokkerPlanckMap::apply, Identity, WakePotentialMap::update.")
