"""C11 — continuing from a results file equals never having stopped.

Equality of a split run with an uninterrupted one relates two executions and is NOT decided.
Decided:
 R1  HDF5File::readPhaseSpace: for every rank it accepts, the hyperslab start selects record
     `use_step` in dimension 0 and 0 elsewhere, the count is one full record, the memory space has
     the same extent, the chosen step is reduced modulo the number of records, and the read into
     the grid is executed only when the grid holds exactly as many cells as were selected -
     otherwise it throws: exactly the stored values of one record land in the grid, or nothing;
 R2  after loading (HDF5, text or generated start alike) main refreshes the X projection, the
     integral, the Y projection and the energy spread before the first loop iteration and before the
     first record; at the loop head the projection the wake needs is fresh on every path;
 R3  the last record of leg one is produced by the same refresh sequence as the records of leg two
     (final block == loop output block): rule R2 of C10, re-evaluated here;
 R4  refusal discipline: the reader is called inside try with catch(...); no handler rethrows;
     all of them fall through to `return nullptr`; a multi-bunch file reaches the size-mismatch throw
     because the reader sizes the grid for one bunch; main tests the result for null, prints a
     message and returns before the first dereference; an unknown file type is refused likewise.
"""
import sympy as sp
from .. import ast as A
from .. import indexmap as I
from .. import flow as Fl
from .. import mainmodel as M
from .. import fresh as F
from ..compdb import AnalysisBroken

LEVEL = "other"


def run(chk, prog):
    chk.assume("HDF5 C++ API: selectHyperslab(op, count, start); DataSet::read(buf, type, memspace, filespace) reads the selection",
               "H5::Exception and HDF5FileException do not derive from std::exception (checked for the latter)")
    rp = prog.fn("vfps::HDF5File::readPhaseSpace")
    chk.used(rp)
    s = I.scan(rp)
    idx = A.index(rp)
    # ---- R1 -------------------------------------------------------------------------------------
    # per accepted rank: the stores to ps_offset / ps_ext, whether the ranks are told apart by a switch or by an if-chain; the
    # elements are read as values, so steps given a name (first_record = (n + use_step) % n) count as what they stand for
    rank_decl = [d_ for x in A.walk(rp["body"]) if x["k"] == "DeclStmt" for d_ in x["decls"] if d_.get("name") == "rank"]
    rank_decl = rank_decl[0]["decl"] if rank_decl else None
    us = [a for a in s.accesses if a.kind == "store" and a.base == "use_step" and a.idx is None]
    nrec = sp.IndexedBase("ps_dims")[0]
    ustep = sp.Symbol("use_step", real=True)

    def is_wrapped(v):
        """v == (n_records + k*... + use_step) mod n_records"""
        if v is None or v.func != sp.Mod:
            return False
        a0, a1 = v.args
        if sp.expand(a1 - nrec) != 0:
            return False
        k_ = sp.simplify((a0 - ustep) / a1)
        return bool(k_.is_Integer)
    reassigned = len(us) == 1 and is_wrapped(us[0].value)
    percase = {}
    for a in s.accesses:
        if a.kind != "store" or a.base not in ("ps_offset", "ps_ext") or a.idx is not None or a.value_node is None:
            continue
        il = [y for y in A.walk(a.value_node) if y["k"] == "InitListExpr"]
        if not il:
            continue
        labels = [g_["labels"] for g_, pol in a.guards if isinstance(g_, dict) and g_.get("k") == "SwitchCase" and pol and
                  (A.declref(g_["cond"]) or {}).get("name") == "rank"]
        if len(labels) != 1 or len(labels[0]) != 1 or not isinstance(labels[0][0], int):
            continue
        percase.setdefault(labels[0][0], {})[a.base] = (il[-1]["inits"], a)
    ncases = 0
    for rank, got in sorted(percase.items()):
        ncases += 1
        off, ext = got.get("ps_offset"), got.get("ps_ext")
        site = A.loc(rp, {"line": (off or ext)[1].line})
        ok = off is not None and len(off[0]) == rank
        shown = None
        if ok:
            vals = [s._try(e_) for e_ in off[0]]
            shown = [str(v_) for v_ in vals]
            first = vals[0]
            ok = all(v_ == 0 for v_ in vals[1:]) and first is not None and ((first == ustep and reassigned) or is_wrapped(first))
        chk.check(ok, "R1", site, "rank %d: hyperslab start = (chosen record, 0, ..., 0) (%s)" % (rank, shown), "readPhaseSpace:rank%d:offset:%s" % (rank, shown))
        want_ext = ["1"] + (["nBunches"] if rank == 4 else []) + ["ps_size", "ps_size"]
        ext_t = [A.show(A.strip(z)).replace(" ", "") for z in ext[0]] if ext is not None else None
        if ext_t is not None and ext_t != want_ext:
            # spelled through named locals: compare by value
            ev_ = [str(s._try(z)) for z in ext[0]]
            wv_ = [str(s._try_name(t_)) if hasattr(s, "_try_name") else t_ for t_ in want_ext]
            ext_t = want_ext if ev_ == [str(sp.Integer(1))] + [str(sp.Symbol(t_, real=True)) if t_ != "1" else "1" for t_ in want_ext[1:]] else ext_t
        chk.check(ext_t == want_ext, "R1", site, "rank %d: hyperslab count = one full record %s (%s)" % (rank, want_ext, ext_t), "readPhaseSpace:rank%d:extent:%s" % (rank, ext_t))
    chk.floor("R1-rank-cases", ncases, 2)
    sel = [x for x in A.walk(rp["body"]) if x.get("k") == "CXXMemberCallExpr" and (x.get("callee") or "").endswith("::selectHyperslab")]
    ok = len(sel) == 1 and [A.show(a).replace(" ", "") for a in sel[0]["args"][1:3]] == ["ps_ext.data()", "ps_offset.data()"] and "ps_space" in A.show(A.call_object(sel[0]))
    chk.check(ok, "R1", A.loc(rp, sel[0]) if sel else rp.where, "the file space selects (count = ps_ext, start = ps_offset)", "readPhaseSpace:selectHyperslab")
    ms = [d for st in A.walk(rp["body"]) if st["k"] == "DeclStmt" for d in st["decls"] if d.get("name") == "memspace"]
    ok = len(ms) == 1 and "ps_ext.data()" in A.show(ms[0]["init"]).replace(" ", "") and "rank" in A.show(ms[0]["init"])
    chk.check(ok, "R1", rp.where, "the memory space has the extent of one record (rank, ps_ext)", "readPhaseSpace:memspace")
    firsts = []
    for rank, got in percase.items():
        if got.get("ps_offset"):
            firsts.append(s._try(got["ps_offset"][0][0]))
    ok = reassigned or (bool(firsts) and all(is_wrapped(v_) for v_ in firsts))
    chk.check(ok, "R1", A.loc(rp, {"line": us[0].line if us else rp["line"]}), "the chosen step is (n_records + use_step) mod n_records: -1 selects the last record (%s)"
              % (us[0].value if us else [str(v_) for v_ in firsts]), "readPhaseSpace:use_step")
    # the step index must arrive as the signed 64-bit number the user gave: "-1 = last record" relies on (n + use_step) wrapping
    # modulo 2^64 in hsize_t arithmetic, which a narrower or unsigned hop on the way (option field, getter, factory parameter,
    # reader parameter) silently turns into (2^32 - 1) mod n
    S64 = ("long", "long long")
    hops = []
    rec = prog.record("vfps::ProgramOptions")
    fld = [f for f in rec["fields"] if f["name"] == "_startdiststep"]
    A.require(len(fld) == 1, "ProgramOptions::_startdiststep not found")
    hops.append(("option field _startdiststep", fld[0]["ctype"], "inc/IO/ProgramOptions.hpp:%d" % fld[0]["line"]))
    mainf0 = prog.fn("main")
    mkc = [x for x in A.walk(mainf0["body"]) if x.get("callee") == "vfps::makePSFromHDF5"]
    A.require(len(mkc) == 1, "main: call of makePSFromHDF5 not found")
    mkf = prog.fn("vfps::makePSFromHDF5")
    pn = [p_["name"] for p_ in mkf["params"]]
    A.require("startdiststep" in pn or any("step" in n_ for n_ in pn), "makePSFromHDF5: step parameter not found")
    pi = pn.index("startdiststep") if "startdiststep" in pn else [i for i, n_ in enumerate(pn) if "step" in n_][0]
    arg = mkc[0]["args"][pi]
    inner = A.strip(arg)
    hops.append(("value handed over by main (%s)" % A.show(inner), inner.get("ctype"), A.loc(mainf0, mkc[0])))
    for y in A.walk(arg):
        if y.get("k") in ("ImplicitCastExpr", "CStyleCastExpr", "CXXStaticCastExpr", "CXXFunctionalCastExpr") and y.get("cast") == "IntegralCast":
            hops.append(("conversion in main's argument", y.get("ctype"), A.loc(mainf0, y)))
    hops.append(("makePSFromHDF5 parameter %s" % pn[pi], mkf["params"][pi]["ctype"], mkf.where))
    rdc = [x for x in A.walk(mkf["body"]) if x.get("callee") == "vfps::HDF5File::readPhaseSpace"]
    A.require(len(rdc) == 1, "makePSFromHDF5: reader call not found")
    rpn = [p_["name"] for p_ in rp["params"]]
    A.require("use_step" in rpn, "readPhaseSpace: parameter use_step not found")
    ui = rpn.index("use_step")
    ok_arg = ui < len(rdc[0]["args"]) and (A.declref(rdc[0]["args"][ui]) or {}).get("name") == pn[pi]
    chk.check(ok_arg, "R1", A.loc(mkf, rdc[0]), "the factory hands its step parameter to the reader's use_step unchanged", "makePSFromHDF5:step-arg")
    if ui < len(rdc[0]["args"]):
        for y in A.walk(rdc[0]["args"][ui]):
            if y.get("cast") == "IntegralCast":
                hops.append(("conversion in the factory's argument", y.get("ctype"), A.loc(mkf, y)))
    hops.append(("readPhaseSpace parameter use_step", rp["params"][ui]["ctype"], rp.where))
    for what, ty, site in hops:
        chk.check(ty in S64, "R1", site, "step index stays a signed 64-bit integer on its way to the reader: %s has type %s" % (what, ty), "step-chain:%s:%s" % (what.split(" (")[0], ty))
    chk.floor("R1-step-chain", len(hops), 4)
    rd = [x for x in A.walk(rp["body"]) if x.get("k") == "CXXMemberCallExpr" and (x.get("callee") or "").endswith("DataSet::read")]
    A.require(len(rd) == 1, "readPhaseSpace: dataset read not found")
    enc = A.enclosing(idx, rd[0], {"IfStmt"})
    rc = [c_ for c_ in s.calls if c_.node.get("id") == rd[0]["id"]]
    A.require(len(rc) == 1, "readPhaseSpace: dataset read not seen by the scanner")
    # the conditions under which the read is executed (if/else, or an early throw before it), in one form
    cts = [A.show(g_).replace(" ", "").replace("vfps::", "") for g_, pol in I.plain_guards(rc[0].guards) if pol and isinstance(g_, dict) and g_.get("k") == "BinaryOperator"]
    ct = [t_ for t_ in cts if "getSelectNpoints" in t_]
    ct = ct[0] if ct else ""
    ok = ct in ("PhaseSpace::nxyb==ps_space.getSelectNpoints()", "ps_space.getSelectNpoints()==PhaseSpace::nxyb")
    chk.check(ok, "R1", A.loc(rp, rd[0]), "the read happens only if the grid holds exactly the selected number of cells (%s)" % ct, "readPhaseSpace:read-guard:%s" % ct)
    args = [A.show(a).replace(" ", "") for a in rd[0]["args"]]
    chk.check(args[0] == "ps->getData()" and args[2:4] == ["memspace", "ps_space"], "R1", A.loc(rp, rd[0]), "the record is read into the new grid's data through (memspace, ps_space): %s" % args,
              "readPhaseSpace:read-args:%s" % args)
    thr = [x for i_ in A.walk(rp["body"]) if i_.get("k") == "IfStmt" and "getSelectNpoints" in A.show(i_["cond"])
           for x in A.walk(i_) if x["k"] == "CXXThrowExpr"]
    chk.check(len(thr) == 1, "R1", A.loc(rp, rd[0]), "a size mismatch throws instead of reading", "readPhaseSpace:mismatch-throws")
    # ---- R2 -------------------------------------------------------------------------------------
    mm = M.MainModel(prog)
    mainf = mm.fn
    chk.used(mainf)
    loop = mm.main_loop()
    loop_ids = {y["id"] for y in A.walk(loop)}
    n2 = 0
    seen = set()
    ob_ids = {y["id"] for y in A.walk(mm.output_block())}
    def loop_head_reads(splits):
        """{(reader, site): fresh on every path of every case} and the number of (case, reader) pairs looked at"""
        res, cnt = {}, 0
        for asg, g in splits:
            fr = F.Freshness(mm, g)
            fr.run()
            for bid, i, n, e in fr.events:
                if n["id"] not in loop_ids or n["id"] in ob_ids:
                    continue
                if (e["var"], e["method"]) not in (("wkm", "update"), ("grid_t1", "integrateAndNormalize")):      # (integrate() alone feeds only the log and the records)
                    continue
                st, pos = fr.before(n)
                cnt += 1
                k_ = (e["var"], e["method"], n["id"])
                res[k_] = res.get(k_, True) and (("grid_t1", "_projection", 0) in st)
        return res, cnt
    res2, n2 = loop_head_reads(mm.case_split(loop_continues=True))
    if not all(res2.values()):
        # a reader that looks stale when only the null/non-null cases are told apart may sit under the same sign condition as the refresh
        # (`if (r > 0) refresh(); ... if (r > 0) read();`): decide again with the sign of main's const integers fixed per case
        res2, _ = loop_head_reads(mm.case_split(refine=True, loop_continues=True))
    byid = {y["id"]: y for y in A.walk(loop)}
    for (var_, meth_, nid_), ok in sorted(res2.items()):
        key = "%s.%s:xprojection-at-loop-head:%s" % (var_, meth_, ok)
        if key in seen:
            continue
        seen.add(key)
        chk.check(ok, "R2", A.loc(mainf, byid[nid_]), "%s.%s() at the loop head reads an X projection that is fresh on every path (first iteration after any kind of start, and every later one)"
                  % (var_, meth_), key)
    chk.floor("R2-loop-head-reads", n2, 8)
    pre = [x for x in A.walk(mainf["body"]) if x.get("k") == "CXXMemberCallExpr" and "grid_t1" in A.show(A.call_object(x)) and x["line"] < loop["line"] and
           (x.get("callee") or "").split("::")[-1] in ("updateXProjection", "integrate", "updateYProjection", "variance")]
    idxm = mm.idx
    uncond = [x for x in pre if not A.enclosing(idxm, x, {"IfStmt", "WhileStmt", "ForStmt", "CXXTryStmt"})]
    names = [(x["callee"].split("::")[-1]) for x in sorted(uncond, key=lambda t: t["id"])]
    chk.check(names[-4:] == ["updateXProjection", "integrate", "updateYProjection", "variance"], "R2", A.loc(mainf, loop),
              "before the loop main unconditionally recomputes X projection, integral, Y projection and energy spread, whatever the start was (%s)" % names, "main:pre-loop-refresh:%s" % names)
    # ---- R3 -------------------------------------------------------------------------------------
    from . import C10 as c10
    sub = type(chk)("C10", chk.tier)
    from .. import main as _main
    _main.check_anchors("C10", prog)
    c10.run(sub, prog)
    r2 = [i for i in sub.instances if i["rule"] == "R2"]
    for i in r2:
        chk.check(i["ok"], "R3", i["site"], "(C10/R2) " + i["what"].split("\n")[0], "C10-R2:" + i.get("key", "ok"))
    chk.floor("R3-block-agreement", len(r2), 2)
    # ---- R4 -------------------------------------------------------------------------------------
    mk = prog.fn("vfps::makePSFromHDF5")
    chk.used(mk)
    midx = A.index(mk)
    calls = [x for x in A.walk(mk["body"]) if x.get("callee") == "vfps::HDF5File::readPhaseSpace"]
    A.require(len(calls) == 1, "makePSFromHDF5: reader call not found")
    tr = A.enclosing(midx, calls[0], {"CXXTryStmt"})
    ok = bool(tr) and calls[0]["id"] in {y["id"] for y in A.walk(tr[0]["body"])}
    handlers = tr[0].get("handlers", []) if tr else []
    chk.check(ok and any(h.get("caught") == "..." for h in handlers), "R4", A.loc(mk, calls[0]), "the reader runs inside try with a catch(...) handler (%s)" % [h.get("caught") for h in handlers],
              "makePSFromHDF5:try")
    for h in handlers:
        bad = [y for y in A.walk(h["body"]) if y["k"] in ("CXXThrowExpr", "ReturnStmt")]
        says = any(y["k"] == "CXXOperatorCallExpr" and y.get("op") == "<<" for y in A.walk(h["body"])) or any("printError" in (y.get("callee") or "") for y in A.walk(h["body"]))
        chk.check(not bad and says, "R4", A.loc(mk, h), "handler for %s reports and falls through (no rethrow, no early return)" % h.get("caught"), "makePSFromHDF5:handler:%s" % h.get("caught"))
    last = mk["body"]["c"][-1]
    chk.check(last["k"] == "ReturnStmt" and "nullptr" in A.show(last), "R4", A.loc(mk, last), "after a failure the factory returns nullptr", "makePSFromHDF5:return-null")
    argmap = dict(zip(calls[0].get("callee_params", []), [A.show(a).replace(" ", "") for a in calls[0]["args"]]))
    want = {"fname": "fname", "qmin": "qmin", "qmax": "qmax", "pmin": "pmin", "pmax": "pmax", "Qb": "beam_charge", "Ib_unscaled": "beam_current", "bl": "xscale", "dE": "yscale",
            "use_step": "startdiststep"}
    bad = {k: argmap.get(k) for k, v in want.items() if v not in (argmap.get(k) or "")}
    chk.check(not bad, "R4", A.loc(mk, calls[0]), "the factory hands file name, axis limits, charge, current, scales and the chosen step to the reader's parameters of those roles (%s)" % (bad or "all match"),
              "makePSFromHDF5:args:%s" % sorted(bad))
    # multi-bunch refusal: the reader sizes the grid for one bunch
    fl = [d for st in A.walk(rp["body"]) if st["k"] == "DeclStmt" for d in st["decls"] if d.get("name") == "filling"]
    one = len(fl) == 1 and len([y for y in A.walk(fl[0]["init"]) if y["k"] in ("FloatingLiteral", "IntegerLiteral")]) == 1
    ss = [x for x in A.walk(rp["body"]) if x.get("callee") == "vfps::PhaseSpace::setSize"]
    ok = one and len(ss) == 1 and [A.show(a).replace(" ", "") for a in ss[0]["args"]] == ["ps_size", "filling.size()"]
    chk.check(ok, "R4", A.loc(rp, ss[0]) if ss else rp.where, "the reader sizes the grid as ps_size x ps_size x 1 bunch, so a record with several bunches fails the size guard and is refused",
              "readPhaseSpace:single-bunch-size")
    exc = prog.records.get("vfps::HDF5FileException")
    chk.check(exc is not None and not exc["bases"], "R4", "src/IO/HDF5File.cpp", "HDF5FileException is not a std::exception: it is caught by catch(...)", "HDF5FileException:bases")
    # main: null test before first dereference
    mcall = [x for x in A.walk(mainf["body"]) if x.get("callee") == "vfps::makePSFromHDF5"]
    A.require(len(mcall) == 1, "main: makePSFromHDF5 call not found")
    asn = A.enclosing(idxm, mcall[0], {"CXXOperatorCallExpr", "BinaryOperator"})
    blk = idxm[1].get(asn[0]["id"]) if asn else None
    while blk is not None and blk["k"] != "CompoundStmt":
        blk = idxm[1].get(blk["id"])
    ok = False
    if blk is not None:
        sts = blk.get("c", [])
        pos = [k for k, st in enumerate(sts) if mcall[0]["id"] in {y["id"] for y in A.walk(st)}]
        if pos and pos[0] + 1 < len(sts):
            nxt = sts[pos[0] + 1]
            if nxt["k"] == "IfStmt" and M.MainModel.null_test(nxt["cond"]) == ("grid_t1", False):
                ok = any(y["k"] == "ReturnStmt" for y in A.walk(nxt["then"])) and any(y["k"] == "CXXOperatorCallExpr" and y.get("op") == "<<" for y in A.walk(nxt["then"]))
    chk.check(ok, "R4", A.loc(mainf, mcall[0]), "main tests the loaded grid for null right after loading, reports and returns before using it", "main:null-check-after-load")
    unk = [x for x in A.walk(mainf["body"]) if x["k"] == "StringLiteral" and "Unknown format of input file" in x.get("value", "")]
    ok = False
    if unk:
        e_ = A.enclosing(idxm, unk[0], {"CompoundStmt"})
        ok = bool(e_) and any(y["k"] == "ReturnStmt" for y in A.walk(e_[0]))
    chk.check(ok, "R4", A.loc(mainf, unk[0]) if unk else mainf.where, "a start file of unknown type is refused with a message and a return", "main:unknown-start-format")
    for key_ in list(mm.eff.memo):
        chk.functions.add(key_[0])
    # ---- R5: the start file named by the user is the one main tries to load -------------------------------------------------------------------
    # "missing ... is refused with a message": the refusal happens in main/the factory on the name the options hand out, so nothing between
    # the command line and getStartDistFile() may drop or replace that name other than the documented '/dev/null' = none spelling
    # (writers of the bound fields and the normalisation idiom are decided under C20 R2; re-evaluated here for _startdistfile)
    from .common import reeval
    reeval(chk, prog, "C20", lambda i: i["rule"] == "R2" and ("_startdistfile" in i["what"] or "writers of _vm and of bound fields" in i["what"]),
           "R5", "R5-start-file-name", 2)
    # ---- R6: nothing the next step uses survives outside the phase space ---------------------------------------------------------------------------
    # a continued run rebuilds every map from the loaded grid; it equals the uninterrupted run only if the uninterrupted run's maps hold nothing
    # else: the wake map's offsets are, after every update(), the field's potential for the current grid (copied unconditionally: C05 R3)
    reeval(chk, prog, "C05", lambda i: i["rule"] == "R3" and ("copied without arithmetic" in i["what"] or "rebuilt on every path" in i["what"]), "R6", "R6-wake-map-holds-no-history", 2)
    # ---- R7: the last record of an interrupted run is a completed step -----------------------------------------------------------------------------------
    # "continuing from a results file": the file may come from a run stopped with Ctrl+C; its last record is the state after a whole step only
    # if no transport code outside main reacts to the abort flag (decided under C14 R2; re-evaluated here; what main itself does with the
    # flag after the step is C14's and C10's business)
    reeval(chk, prog, "C14", lambda i: i["rule"] == "R2" and "nobody reads the flag" in i["what"], "R7", "R7-abort-flag-readers", 1)
    chk.notes.append("C11: record selection and guarded read, refresh before the first step for every start kind, block agreement, refusal discipline. "
                     "NOT decided: numerical equality of a split run and an uninterrupted run.")
