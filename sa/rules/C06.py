"""C06 — wake potential = discrete convolution of the bunch profiles with the impedance.

Equality with a double-precision DFT is numeric and is NOT decided.  Decided (code shape):
 R1  writer/reader agreement of the padded layout: bunch b's profile (row b of the [B][N]
     projection) is placed at _bucket[b]*_spacing_bins, and bunch b's wake potential is read
     back from the same offset + x into _wakepotential[b][x];
 R2  pipeline: pad -> r2c(_bp_padded -> _formfactor) -> _wakelosses[i] = Z[i]*F[i] (same i) ->
     c2r(_wakelosses -> _wakepotential_padded) -> scale; each stage reads what the previous wrote;
 R3  the product loop covers exactly [0, floor(_nmax/2)): the non-negative-frequency half;
 R4  the only factor between the inverse transform and the result is _wakescaling =
     wakescalining/_nmax, and the physical scaling handed to the delegating constructor is
     Ib*dt*c/(scale0("Meter")*delta1*sigma_delta*E0);
 R5  main pairs each field with the impedance built for its transform length and passes
     spacing/bucket numbers to the parameters of that role.
"""
import sympy as sp
from .. import ast as A
from .. import indexmap as I
from .. import callargs as CA
from ..compdb import AnalysisBroken
from . import efield as E, sizemodel as S, gridmodel as G

LEVEL = "other"
MAIN_ALIAS = {"grid_t1": ("ps",), "wake_impedance": ("impedance",), "rdtn_impedance": ("impedance",), "bucketnumbers": ("bucketnumber", "bucketnumbers"),
              "spacing_bins": ("spacing_bins",), "oclh": ("oclh",), "f_rev": ("f_rev",), "revolutionpart": ("revolutionpart",),
              "Ib": ("Ib",), "E0": ("E0",), "sE": ("sigma_delta",), "dt": ("dt",)}


def run(chk, prog):
    chk.assume("FFTW computes the unnormalised DFT pair (trusted library)", "CPU path")
    m = E.Model(prog)
    wp = m.fns["wakePotential"]
    pad = m.fns["padBunchProfiles"]
    for f in list(m.fns.values()) + m.setup:
        chk.used(f)
    S.lemmas(chk, prog)
    ev = m.flat("wakePotential")
    N, B = S.N, S.B
    # ---- R1 ------------------------------------------------------------------------------------
    wr_all = [e for e in ev if e.kind == "write" and e.buf == "_bp_padded" and e.what == "std::copy_n"]
    tr_all = [e for e in ev if e.kind == "write" and e.buf == "_bp_padded" and e.what == "std::transform"]
    for e in tr_all:
        chk.fail("R1", A.loc(pad, {"line": e.line}), "the padded train receives transformed values (std::transform into _bp_padded+%s), not the bunch profiles themselves: "
                 "the wake is then not the convolution of the profiles (any factor must be the constant scaling applied to the result)" % e.lo, "padBunchProfiles:transformed-profiles")
    if tr_all and not wr_all:
        wr_all = tr_all
    A.require(len(wr_all) >= 1, "padBunchProfiles: no copy of the profiles into the padded buffer")
    # the read-back (needed below to judge every placement)
    rd = [e for e in ev if e.kind == "read" and e.buf == "_wakepotential_padded"]
    st = [e for e in ev if e.kind == "write" and e.buf == "_wakepotential" and isinstance(e.lo, tuple)]
    A.require(len(rd) == 1 and len(st) == 1, "wakePotential: read-back not found")
    r, s_ = rd[0], st[0]
    lb, lx = s_.loops[0], s_.loops[1]
    looped = [w_ for w_ in wr_all if len(w_.loops) == 1]
    A.require(len(looped) == 1, "padBunchProfiles: expected one bunch loop placing the profiles (found %d)" % len(looped))
    # further copies outside the bunch loop (a special case for some filling, say) place one fixed row: each must put that row
    # where the read-back looks for it
    for w_ in wr_all:
        if w_ is looped[0]:
            continue
        A.require(not w_.loops, "padBunchProfiles: profile copy in a nest of loops")
        srcs = [e for e in ev if e.kind == "read-src" and e.nid == w_.nid and e.seq is not None and w_.seq is not None and abs(w_.seq - e.seq - 0.25) < 1e-9]
        row = E.profile_row(srcs[0].value) if srcs else None
        if row is None or not sp.sympify(row).is_Integer:
            raise AnalysisBroken("padBunchProfiles: a profile copy outside the bunch loop whose source row cannot be read (%s)" % (srcs[0].value if srcs else None))
        placed = sp.expand(w_.lo)
        wanted = sp.expand(r.lo[0] - lx.sym).subs(lb.sym, row)
        chk.check(sp.expand(placed - wanted) == 0 and sp.expand(w_.length - N) == 0, "R1", A.loc(pad, {"line": w_.line}),
                  "the separately placed profile of bunch %s lies where the read-back looks for it (placed at %s, read at %s; guards: %s)"
                  % (row, placed, wanted, I.guard_text(w_.guards)), "padBunchProfiles:extra-copy:layout:%s" % sp.expand(placed - wanted))
    w = looped[0]
    b = w.loops[0].sym
    src = [e for e in ev if e.kind == "read-src" and e.nid == w.nid and e.seq is not None and w.seq is not None and abs(w.seq - e.seq - 0.25) < 1e-9]
    sv = src[0].value if src else None
    org = [x for x in (sv.atoms(sp.Function) if sv is not None else []) if str(x.func) == "origin"]
    so = sp.expand(S.norm(sv - org[0])) if len(org) == 1 else None
    chk.check(so is not None and sp.expand(so - N * b) == 0 and sp.expand(w.length - N) == 0, "R1",
              A.loc(pad, {"line": w.line}), "bunch %s's profile = N values starting at row %s of the [B][N] projection (source %s)" % (b, b, sv),
              "padBunchProfiles:source:%s" % sv)
    chk.check(w.loops[0].lo == 0 and sp.expand(S.norm(w.loops[0].hi) - B) == 0, "R1", A.loc(pad, {"line": w.line}), "all B bunches are placed", "padBunchProfiles:bunch-range")
    # the object whose storage is copied (X in X.origin()) is the X projection of the field's own phase space, under whatever name
    oobj = str(org[0].args[0]).replace(" ", "") if len(org) == 1 and org[0].args else ""
    ok = oobj in ("getProjection(_phasespace,0)", "getProjection(*_phasespace,0)")
    if not ok:
        cand = [x for x in A.walk(pad["body"]) if x["k"] == "DeclStmt" for x in x["decls"] if x.get("name") == oobj and "init" in x]
        ok = len(cand) == 1 and "getProjection(0)" in A.show(cand[0]["init"]).replace(" ", "") and "_phasespace" in A.show(cand[0]["init"])
    chk.check(ok, "R1", pad.where, "the profiles placed are the current X projection of the field's phase space", "padBunchProfiles:projection")
    chk.check(s_.lo == (lb.sym, lx.sym) and lb.lo == 0 and sp.expand(S.norm(lb.hi) - B) == 0 and lx.lo == 0 and sp.expand(S.norm(lx.hi) - N) == 0,
              "R1", A.loc(wp, {"line": s_.line}), "result cell [b][x] for all b in [0,B), x in [0,N)", "wakePotential:result-range")
    diff = sp.expand(r.lo[0] - lx.sym - w.lo.subs(b, lb.sym))
    chk.check(diff == 0, "R1", A.loc(wp, {"line": r.line}),
              "bunch b is read back at the offset it was placed at: read index %s - x == placement %s" % (r.lo[0], w.lo),
              "wakePotential:layout:%s" % diff)
    # ---- R2 pipeline -----------------------------------------------------------------------------
    seq = [e for e in ev if e.kind == "execute" or (e.kind == "write" and e.buf in ("_wakelosses", "_wakepotential", "_bp_padded"))]
    order = []
    for e in seq:
        tag = ("exec:" + e.plan) if e.kind == "execute" else ("write:" + e.buf)
        if not order or order[-1] != tag:
            order.append(tag)
    want = ["write:_bp_padded", "exec:_fft_bunchprofile", "write:_wakelosses", "exec:_fft_wakelosses", "write:_wakepotential"]
    chk.check(order == want, "R2", wp.where, "stages run in the order %s (found %s)" % (want, order), "wakePotential:order:%s" % order)
    p1, p2 = m.plans["_fft_bunchprofile"], m.plans["_fft_wakelosses"]
    chk.check(p1["inp"] == "_bp_padded" and p1["out"] == "_formfactor" and p1["kind"] == "r2c", "R2", p1["site"],
              "forward plan: real _bp_padded -> complex _formfactor (%s)" % p1, "plan:forward:%s->%s" % (p1["inp"], p1["out"]))
    chk.check(p2["inp"] == "_wakelosses" and p2["out"] == "_wakepotential_padded" and p2["kind"] == "c2r", "R2", p2["site"],
              "inverse plan: complex _wakelosses -> real _wakepotential_padded (%s)" % p2, "plan:inverse:%s->%s" % (p2["inp"], p2["out"]))
    chk.check(E.norm(p1["n"]) == E.NMAX and E.norm(p2["n"]) == E.NMAX, "R2", p2["site"], "both plans have the transform length _nmax", "plan:length")
    # the four work buffers are four allocations: the inverse transform reads bins [0, nmax/2] of its input, of which the product loop
    # writes [0, nmax/2); bin nmax/2 must be the zero it was allocated with, so nothing else (in particular not the forward transform,
    # through an alias) may write that buffer
    def root(b):
        seen_ = set()
        while b in m.alloc and m.alloc[b].get("alias_of") and b not in seen_:
            seen_.add(b)
            b = m.alloc[b]["alias_of"]
        return b
    bufs = ["_bp_padded", "_formfactor", "_wakelosses", "_wakepotential_padded"]
    roots = {b_: root(b_) for b_ in bufs}
    # reinterpret_cast aliases of the FFTW allocation (_x = reinterpret_cast<T*>(_x_fft)) are the same buffer by design
    harmful = roots["_formfactor"] == roots["_wakelosses"]
    chk.check(not harmful, "R2", p2["site"], "the forward transform's output (nmax/2+1 bins written) and the inverse transform's input (nmax/2 bins rewritten by the product loop) "
              "are separate allocations (%s)" % roots, "buffers:aliased:formfactor=wakelosses")
    if not harmful and len(set(roots.values())) != 4:
        # any other in-place arrangement is outside the footprint model of this check and of C18
        raise AnalysisBroken("work buffers alias each other (%s): the footprint model assumes separate allocations" % roots)
    wl_writers = sorted({(e_.what, e_.line) for e_ in ev if e_.kind == "write" and root(e_.buf) == root("_wakelosses")})
    chk.check(len(wl_writers) == 1 and wl_writers[0][0] == "=", "R2", A.loc(wp, {"line": wl_writers[0][1] if wl_writers else wp["line"]}),
              "the inverse transform's input is written only by the product loop: its Nyquist bin stays the zero it was allocated with (%s)" % wl_writers,
              "wakelosses:writers:%s" % [w_[0] for w_ in wl_writers])
    for nm in ("_bp_padded", "_formfactor", "_wakelosses", "_wakepotential_padded"):
        a = m.alloc.get(nm)
        chk.check(a is not None and E.norm(a["extent"]) == E.NMAX, "R2", a["site"] if a else wp.where, "%s holds _nmax elements" % nm, "alloc:%s" % nm)
    wl = [e for e in ev if e.kind == "write" and e.buf == "_wakelosses"]
    A.require(len(wl) == 1 and len(wl[0].loops) == 1, "wakePotential: product loop not found")
    e = wl[0]
    i_ = e.loops[0].sym
    v = e.value
    ok = v is not None and e.lo == (i_,) and {str(x) for x in v.atoms(sp.Indexed)} == {"*_impedance[%s]" % i_, "_formfactor[%s]" % i_} and \
        sp.expand(v - sp.Mul(*list(v.atoms(sp.Indexed)))) == 0
    chk.check(ok, "R2", A.loc(wp, {"line": e.line}), "_wakelosses[i] = Z[i]*F[i] with one index i (value %s)" % v, "wakePotential:product:%s" % v)
    # ---- R3 --------------------------------------------------------------------------------------
    L = e.loops[0]
    chk.check(L.lo == 0 and sp.expand(E.norm(L.hi) - sp.floor(E.NMAX / 2)) == 0 and L.cmp == "<", "R3", A.loc(wp, {"line": e.line}),
              "the product runs over i in [0, floor(_nmax/2)): non-negative frequencies only (range [%s,%s))" % (L.lo, L.hi), "wakePotential:product-range:%s" % L.hi)
    # ---- R4 --------------------------------------------------------------------------------------
    v = s_.value
    q = sp.simplify(v / sp.Symbol("_wakescaling", real=True)) if v is not None else None
    ok = q is not None and isinstance(q, sp.Indexed) and str(q.base) == "_wakepotential_padded"
    chk.check(ok, "R4", A.loc(wp, {"line": s_.line}), "result = _wakescaling * padded value, nothing else (%s)" % v, "wakePotential:scaling:%s" % v)
    c8 = [c for c in m.setup if c["kind"] == "ctor" and len(c["params"]) == 8][0]
    sc = I.scan(c8, hooks=[G.make_hook()])
    ini = {a.base: a.value for a in sc.accesses if a.kind == "store" and a.idx is None}
    ws = ini.get("_wakescaling")
    nm_ = ini.get("_nmax")
    chk.check(ws is not None and sp.simplify(ws - sp.Symbol("wakescalining", real=True) / sp.Symbol("_nmax", real=True)) == 0, "R4", c8.where,
              "_wakescaling = wakescalining/_nmax (1/N of the unnormalised transform pair): %s" % ws, "ctor:_wakescaling:%s" % ws)
    chk.check(str(nm_) == "nFreqs(impedance)", "R4", c8.where, "_nmax is the number of impedance samples (%s)" % nm_, "ctor:_nmax:%s" % nm_)
    # "places every bunch at bucket_number*spacing": the spacing and the bucket numbers the placement uses are the ones the field was given
    for fld_, par_ in (("_spacing_bins", "spacing_bins"), ("_bucket", "bucketnumber")):
        v_ = ini.get(fld_)
        A.require(any(p_["name"] == par_ for p_ in c8["params"]), "ElectricField constructor: parameter %s not found" % par_)
        chk.check(v_ is not None and sp.simplify(v_ - sp.Symbol(par_, real=True)) == 0, "R7", c8.where,
                  "%s is the constructor argument %s, unchanged (%s)" % (fld_, par_, v_), "ctor-argument-stored:%s:%s" % (fld_, v_))
    c11 = [c for c in m.setup if c["kind"] == "ctor" and len(c["params"]) == 11][0]
    dl = [i for i in c11["inits"] if i.get("ikind") == "delegating"]
    A.require(len(dl) == 1, "ElectricField: delegating initialiser not found")
    de = A.strip(dl[0]["expr"], casts=False)
    for j in CA.judge(de):
        chk.check(j["ok"], "R4", A.loc(c11, {"line": dl[0]["line"]}), "delegation: '%s' -> parameter '%s'" % (j["var"], j["param"]), "ctor:delegate:%s->%s" % (j["var"], j["param"]))
    names = de.get("callee_params", [])
    sc11 = I.Scanner(c11, hooks=[G.make_hook()])
    warg = sc11._try(de["args"][names.index("wakescalining")])
    cc = sp.Symbol("physcons_c", real=True)
    want = sp.Symbol("Ib", real=True) * sp.Symbol("dt", real=True) * cc / sp.Symbol("AX0_scale_Meter", positive=True) / \
        (G.AX(1, "delta") * sp.Symbol("sigma_delta", real=True) * sp.Symbol("E0", real=True))
    chk.check(warg is not None and sp.simplify(warg - want) == 0, "R4", A.loc(c11, {"line": dl[0]["line"]}),
              "physical scaling = Ib*dt*c/(scale0('Meter')*delta1*sigma_delta*E0): %s" % warg, "ctor:wakescalining:%s" % warg)
    body_calls = [x for x in A.walk(c11["body"]) if x.get("callee") == "vfps::ElectricField::_initWakeLossFFT"]
    chk.check(len(body_calls) == 1, "R4", c11.where, "the wake constructor sets up the inverse transform", "ctor:initWakeLossFFT")
    # ---- R5 --------------------------------------------------------------------------------------
    mainf = prog.fn("main")
    chk.used(mainf)
    cons = [x for x in A.walk(mainf["body"]) if x["k"] == "CXXConstructExpr" and x.get("callee_class") == "vfps::ElectricField"]
    A.require(len(cons) == 2, "main: expected two ElectricField constructions")
    for x in cons:
        site = A.loc(mainf, x)
        for j in CA.judge(x, MAIN_ALIAS):
            chk.check(j["ok"], "R5", site, "main: ElectricField argument %d '%s' lands on parameter '%s'" % (j["pos"], j["var"], j["param"]),
                      "main:ElectricField:%s->%s" % (j["var"], j["param"]))
        names = x.get("callee_params", [])
        imp = (CA.plain_var(x["args"][names.index("impedance")]) or {}).get("name")
        sp_arg = A.strip(x["args"][names.index("spacing_bins")])
        if len(names) == 11:
            chk.check(imp == "wake_impedance" and (A.declref(sp_arg) or {}).get("name") == "spacing_bins", "R5", site,
                      "the wake field uses the wake impedance and the bucket spacing", "main:wake-field:%s" % imp)
        else:
            chk.check(imp == "rdtn_impedance" and sp_arg.get("value") == 0, "R5", site,
                      "the radiation field uses the radiation impedance with spacing 0 (one padded bunch)", "main:rdtn-field:%s" % imp)
    # ---- RD: dimensional consistency of the quantities this property depends on (sa/dims.py) ----------------------------------------
    from . import dimrules
    nrd = dimrules.run(chk, prog, "RD")
    chk.floor("RD-requirements", nrd or 0, 2)
    # ---- R6: the field owns what it was set up with (bucket numbers, sizes, factors) ----------------------------------------------------------
    from .common import owns_its_configuration
    owns_its_configuration(chk, prog, "R6", ["vfps::ElectricField"], floor=20)
    chk.notes.append("C06: padded-layout writer/reader agreement, plan/buffer pipeline, half-spectrum range, 1/N and physical scaling "
                     "normal forms, main wiring. Not decided: numerical equality with a reference DFT.")
