"""Coordinate model of the phase-space grid, used by the algebraic rules.

`hook` translates calls on rulers / phase spaces into closed forms
(at(i) = min + i*delta, ...).  Every closed form used here is a *lemma* that
`lemmas(chk, prog)` re-derives from the accessor bodies and the Ruler
constructor on each run, so the hook is not an assumption."""
import sympy as sp
from .. import ast as A
from .. import indexmap as I
from ..compdb import AnalysisBroken


def AX(k, what):
    return sp.Symbol("AX%d_%s" % (k, what), real=True, positive=(what in ("delta", "steps")) or None)


def axis_of(obj, _depth=0):
    """which axis (0/1) does a ruler-valued expression denote? None if unknown"""
    n = A.strip(obj)
    while isinstance(n, dict) and n.get("k") in ("CXXConstructExpr", "MaterializeTemporaryExpr", "CXXBindTemporaryExpr", "ExprWithCleanups") and \
            len(n.get("args", n.get("c", []))) == 1:
        n = A.strip((n.get("args") or n.get("c"))[0])
    if n is None:
        return None
    k = n.get("k")
    # shared_ptr operator-> / operator*
    if k == "CXXOperatorCallExpr" and n.get("op") in ("->", "*") and n.get("args"):
        return axis_of(n["args"][0], _depth)
    if k == "CXXOperatorCallExpr" and n.get("op") == "[]" and len(n.get("args", [])) == 2:
        base = A.strip(n["args"][0])
        if A.member_name(base) == "_axis" or (A.declref(base) or {}).get("name") == "_axis":
            idx = A.strip(n["args"][1])
            if "const" in idx:
                return idx["const"]
            if idx["k"] == "IntegerLiteral":
                return idx["value"]
        return None
    if k == "ArraySubscriptExpr":
        base = A.strip(n["c"][0])
        if A.member_name(base) == "_axis":
            idx = A.strip(n["c"][1])
            if idx["k"] == "IntegerLiteral":
                return idx["value"]
        return None
    if k == "CXXMemberCallExpr" and n.get("callee") == "vfps::PhaseSpace::getAxis" and n.get("args"):
        idx = A.strip(n["args"][0])
        if idx["k"] == "IntegerLiteral":
            return idx["value"]
        if "const" in idx:
            return idx["const"]
        return None
    if k == "DeclRefExpr" and n.get("_axis_alias") is not None:
        return n["_axis_alias"]
    if k == "DeclRefExpr" and _depth < 3:
        # a local that was given the ruler (const meshRuler_ptr& ax = _axis[1]; auto ax = ps->getAxis(1);), written nowhere else
        sc = I.active_scanner()
        if sc is not None:
            loc = sc.locals.get(n.get("decl"))
            if loc is not None and "init" in loc and sc.assigned.get(n["decl"], 0) == 0:
                return axis_of(loc["init"], _depth + 1)
    if k == "UnaryOperator" and n.get("op") == "*" and n.get("c"):
        return axis_of(n["c"][0], _depth)
    if k == "CXXMemberCallExpr" and (n.get("callee") or "").endswith("::get") and A.call_object(n) is not None:
        return axis_of(A.call_object(n), _depth)      # shared_ptr::get()
    return None


def _axis_arg(n):
    idx = A.strip(n)
    if idx["k"] == "IntegerLiteral":
        return idx["value"]
    if "const" in idx:
        return idx["const"]
    return None


def make_hook(axis_alias=None):
    """axis_alias: decl id -> axis number, for locals/params that hold a ruler"""
    axis_alias = axis_alias or {}

    def hook(n, tr):
        k = n["k"]
        if k != "CXXMemberCallExpr":
            return None
        callee = n.get("callee") or ""
        obj = A.call_object(n)
        if callee.startswith("vfps::Ruler"):
            meth = callee.split("::")[-1]
            ax = axis_of(obj)
            if ax is None:
                o = A.declref(obj) if obj is not None else None
                if o is not None and o["decl"] in axis_alias:
                    ax = axis_alias[o["decl"]]
            if ax is None:
                return None
            if meth == "at" or meth == "operator[]":
                return AX(ax, "min") + tr.conv(n["args"][0]) * AX(ax, "delta")
            if meth in ("delta", "min", "max", "zerobin", "steps"):
                return AX(ax, {"zerobin": "zb"}.get(meth, meth))
            if meth == "length":
                return AX(ax, "max") - AX(ax, "min")
            if meth == "scale" and len(n["args"]) == 1:
                s = A.strip(n["args"][0])
                lit = [x for x in A.walk(s) if x["k"] == "StringLiteral"]
                if len(lit) == 1:
                    return sp.Symbol("AX%d_scale_%s" % (ax, lit[0]["value"]), positive=True)
            return None
        if callee in ("vfps::PhaseSpace::p", "vfps::PhaseSpace::q"):
            ax = 1 if callee.endswith("::p") else 0
            return AX(ax, "min") + tr.conv(n["args"][0]) * AX(ax, "delta")
        if callee in ("vfps::PhaseSpace::getDelta", "vfps::PhaseSpace::getMin", "vfps::PhaseSpace::getMax"):
            ax = _axis_arg(n["args"][0])
            if ax is None:
                return None
            return AX(ax, {"getDelta": "delta", "getMin": "min", "getMax": "max"}[callee.split("::")[-1]])
        if callee == "vfps::PhaseSpace::getScale" and len(n["args"]) == 2:
            ax = _axis_arg(n["args"][0])
            lit = [x for x in A.walk(n["args"][1]) if x["k"] == "StringLiteral"]
            if ax is not None and len(lit) == 1:
                return sp.Symbol("AX%d_scale_%s" % (ax, lit[0]["value"]), positive=True)
        if callee == "vfps::PhaseSpace::length":
            ax = _axis_arg(n["args"][0])
            if ax is not None:
                return AX(ax, "max") - AX(ax, "min")
        return None
    return hook


QP = sp.Function("QP", real=True)          # QP(axis, i): coordinate of grid point i on axis `axis` (axis may be a run-time value)
DELTA = sp.Function("DELTA", real=True)    # DELTA(axis): cell size of that axis


def _axis_subscript(obj, scanner=None, depth=0):
    """obj denotes *_axis[e] (directly, dereferenced, through getAxis(e), or through a local reference/pointer bound to it) -> node of e"""
    if obj is None:
        return None
    o = A.strip(obj, casts=False)
    while o.get("k") in ("UnaryOperator",) and o.get("op") == "*":
        o = A.strip(o["c"][0], casts=False)
    while o.get("k") == "CXXOperatorCallExpr" and o.get("op") in ("*", "->") and o.get("args"):
        o = A.strip(o["args"][0], casts=False)
    if o.get("k") == "CXXMemberCallExpr" and (o.get("callee") or "").endswith("::get") and A.call_object(o) is not None:
        return _axis_subscript(A.call_object(o), scanner, depth)
    if o.get("k") == "ArraySubscriptExpr" and A.this_field(o["c"][0]) == "_axis":
        return o["c"][1]
    if o.get("k") == "CXXOperatorCallExpr" and o.get("op") == "[]" and A.this_field(o["args"][0]) == "_axis":
        return o["args"][1]
    if o.get("k") == "CXXMemberCallExpr" and (o.get("callee") or "") == "vfps::PhaseSpace::getAxis" and (A.call_object(o) is None or A.is_this(A.call_object(o))):
        return o["args"][0]
    d = A.declref(o)
    if d is not None and scanner is not None and depth < 3:
        loc = scanner.locals.get(d.get("decl"))
        if loc is not None and "init" in loc and scanner.assigned.get(d["decl"], 0) == 0:
            return _axis_subscript(loc["init"], scanner, depth + 1)
    return None


def make_axis_hook(get_scanner):
    """PhaseSpace's own coordinate accessors and the Ruler calls they wrap, in one vocabulary:
    _qp(a,i) and _axis[a]->at(i) -> QP(a,i);  getDelta(a) and _axis[a]->delta() -> DELTA(a).
    The equivalence is the body of the accessors, re-read by axis_lemmas()."""
    def hook(n, tr):
        if n.get("k") != "CXXMemberCallExpr":
            return None
        callee = n.get("callee") or ""
        obj = A.call_object(n)
        own = obj is None or A.is_this(obj)
        try:
            if callee == "vfps::PhaseSpace::_qp" and own:
                return QP(tr.conv(n["args"][0]), tr.conv(n["args"][1]))
            if callee == "vfps::PhaseSpace::getDelta" and own:
                return DELTA(tr.conv(n["args"][0]))
            if callee.startswith("vfps::Ruler") and callee.split("::")[-1] in ("at", "operator[]", "delta"):
                e = _axis_subscript(obj, get_scanner())
                if e is None:
                    return None
                if callee.endswith("::delta"):
                    return DELTA(tr.conv(e))
                return QP(tr.conv(e), tr.conv(n["args"][0]))
        except Exception:
            return None
        return None
    return hook


def axis_lemmas(chk, prog, rule="L"):
    """_qp(axis,n) is _axis[axis]->at(n) and getDelta(x) is _axis[x]->delta(): read from the accessor bodies"""
    for nm, meth in (("_qp", "at"), ("getDelta", "delta")):
        if nm == "_qp" and not prog.fns("vfps::PhaseSpace::_qp"):
            continue            # the private helper has been inlined into q()/p(): their bodies are read directly (lemmas below)
        f = prog.fn("vfps::PhaseSpace::" + nm)
        r = _single_return(f)
        ok = False
        if r is not None:
            c = A.strip(r)
            if c.get("k") == "CXXMemberCallExpr" and (c.get("callee") or "").startswith("vfps::Ruler") and (c.get("callee") or "").endswith("::" + meth):
                e = _axis_subscript(A.call_object(c))
                pd = A.declref(e) if e is not None else None
                ok = pd is not None and pd.get("decl") == f["params"][0]["decl"]
                if ok and meth == "at":
                    ad = A.declref(c["args"][0])
                    ok = ad is not None and ad.get("decl") == f["params"][1]["decl"]
        chk.check(ok, rule, f.where, "PhaseSpace::%s(a, ...) is _axis[a]->%s(...)" % (nm, meth), "PhaseSpace::%s:body" % nm)


def _single_return(fn):
    body = fn.get("body")
    if not body or body["k"] != "CompoundStmt" or len(body.get("c", [])) != 1:
        return None
    r = body["c"][0]
    if r["k"] != "ReturnStmt" or not r.get("c"):
        return None
    return r["c"][0]


def lemmas(chk, prog, rule="L"):
    """re-derive every closed form `hook` uses from the current source"""
    n = 0
    # Ruler accessors return the field of the same meaning
    acc = {"delta": "_delta", "min": "_min", "max": "_max", "zerobin": "_zerobin", "steps": "_steps"}
    for meth, field in acc.items():
        fns = [f for f in prog.fns("vfps::Ruler::" + meth)]
        A.require(fns, "Ruler::%s not found" % meth)
        for f in fns[:1]:
            r = _single_return(f)
            ok = r is not None and A.this_field(r) == field
            chk.check(ok, rule, f.where, "Ruler::%s() returns %s" % (meth, field), "Ruler::%s:returns" % meth)
            chk.used(f); n += 1
    f = prog.fns("vfps::Ruler::at")
    A.require(f, "Ruler::at not found")
    f = f[0]
    r = _single_return(f)
    ok = False
    if r is not None:
        s = A.strip(r)
        ok = s["k"] == "ArraySubscriptExpr" and A.this_field(s["c"][0]) == "_data" and \
            (A.declref(s["c"][1]) or {}).get("decl") == f["params"][0]["decl"]
    chk.check(ok, rule, f.where, "Ruler::at(d) returns _data[d]", "Ruler::at:returns"); chk.used(f); n += 1
    f = prog.fns("vfps::Ruler::length")
    if f:
        r = _single_return(f[0])
        s = I.Scanner(f[0])
        v = s._try(r) if r is not None else None
        chk.check(v is not None and sp.simplify(v - (sp.Symbol("_max", real=True) - sp.Symbol("_min", real=True))) == 0,
                  rule, f[0].where, "Ruler::length() returns _max - _min", "Ruler::length"); n += 1
    # Ruler constructor: _data[i] = _min + i*_delta, _delta = (max-min)/(steps-1), zerobin = -min/delta
    ctors = [c for c in prog.fns("vfps::Ruler::Ruler") if len(c["params"]) == 4]
    A.require(ctors, "Ruler(steps,min,max,scale) constructor not found")
    c = ctors[0]
    chk.used(c)
    sc = I.scan(c)
    st = [a for a in sc.accesses if a.kind == "store" and a.idx is not None and a.loops]
    A.require(len(st) == 1, "Ruler ctor: expected one array fill")
    a = st[0]
    L = a.loops[0]
    steps, mn, mx = (sp.Symbol(x, real=True) for x in ("steps", "min", "max"))
    _min, _delta, _steps = (sp.Symbol(x, real=True) for x in ("_min", "_delta", "_steps"))
    ok = a.idx[0] == L.sym and a.value is not None and sp.expand(a.value - (_min + L.sym * _delta)) == 0 and \
        L.lo == 0 and L.cmp == "<" and L.hi == _steps
    chk.check(ok, rule, A.loc(c, {"line": a.line}), "Ruler ctor fills [%s] = _min + i*_delta for i in [0,_steps): got %s over %s"
              % (a.idx[0], a.value, L), "Ruler::ctor:fill"); n += 1
    dstore = [x for x in sc.accesses if x.kind == "store" and x.base == "_data" and x.idx is None]
    chk.check(len(dstore) == 1 and dstore[0].value is not None and str(dstore[0].value) == a.base, rule,
              A.loc(c, {"line": dstore[0].line if dstore else c["line"]}), "_data is the filled array", "Ruler::ctor:data"); n += 1
    inits = {x.base: x.value for x in sc.accesses if x.kind == "store" and x.idx is None and x.base.startswith("_")}
    chk.check(inits.get("_delta") is not None and sp.simplify(inits["_delta"] - (mx - mn) / (steps - 1)) == 0, rule, c.where,
              "_delta = (max-min)/(steps-1): %s" % inits.get("_delta"), "Ruler::ctor:delta"); n += 1
    chk.check(inits.get("_min") == mn and inits.get("_max") == mx and inits.get("_steps") == steps, rule, c.where,
              "_min,_max,_steps initialised from the parameters of those names", "Ruler::ctor:minmax"); n += 1
    zb = inits.get("_zerobin")
    chk.check(zb is not None and sp.simplify(zb - (-mn * (steps - 1) / (mx - mn))) == 0, rule, c.where,
              "_zerobin = -min*(steps-1)/(max-min) (the fractional bin of coordinate 0): %s" % zb, "Ruler::ctor:zerobin:%s" % zb); n += 1
    # PhaseSpace accessors
    for meth, ax in (("p", 1), ("q", 0)):
        f = prog.fn("vfps::PhaseSpace::" + meth)
        r = _single_return(f)
        s = A.strip(r) if r is not None else None
        ok = s is not None and s["k"] == "CXXMemberCallExpr" and s.get("callee") == "vfps::PhaseSpace::_qp" and \
            _axis_arg(s["args"][0]) == ax and (A.declref(s["args"][1]) or {}).get("decl") == f["params"][0]["decl"]
        if not ok and s is not None and s["k"] == "CXXMemberCallExpr" and (s.get("callee") or "").startswith("vfps::Ruler") and s["callee"].endswith("::at"):
            # written out: _axis[ax]->at(i)
            e_ = _axis_subscript(A.call_object(s))
            ok = e_ is not None and _axis_arg(e_) == ax and (A.declref(s["args"][0]) or {}).get("decl") == f["params"][0]["decl"]
        chk.check(ok, rule, f.where, "PhaseSpace::%s(i) is the coordinate of grid point i on axis %d (_qp(%d,i) or _axis[%d]->at(i))" % (meth, ax, ax, ax), "PhaseSpace::%s" % meth); chk.used(f); n += 1
    qpf = prog.fns("vfps::PhaseSpace::_qp")
    f = qpf[0] if qpf else None
    r = _single_return(f) if f is not None else None
    s = A.strip(r) if r is not None else None
    ok = f is None
    if s is not None and s["k"] == "CXXMemberCallExpr" and (s.get("callee") or "").startswith("vfps::Ruler") and s["callee"].endswith("::at"):
        o = A.strip(A.call_object(s))
        # _axis[axis]->at(n)
        sub = A.strip(o["args"][0]) if o.get("k") == "CXXOperatorCallExpr" and o.get("op") == "->" else o
        if sub.get("k") == "CXXOperatorCallExpr" and sub.get("op") == "[]":
            ok = A.member_name(sub["args"][0]) == "_axis" and \
                (A.declref(sub["args"][1]) or {}).get("decl") == f["params"][0]["decl"] and \
                (A.declref(s["args"][0]) or {}).get("decl") == f["params"][1]["decl"]
    if f is not None:
        chk.check(ok, rule, f.where, "PhaseSpace::_qp(axis,n) is _axis[axis]->at(n)", "PhaseSpace::_qp"); chk.used(f); n += 1
    for meth, rm in (("getDelta", "delta"), ("getMin", "min"), ("getMax", "max"), ("getAxis", None)):
        f = prog.fn("vfps::PhaseSpace::" + meth)
        r = _single_return(f)
        s = A.strip(r) if r is not None else None
        ok = False
        if s is not None:
            if rm is None:
                ok = s.get("k") == "CXXOperatorCallExpr" and s.get("op") == "[]" and A.member_name(s["args"][0]) == "_axis" \
                    and (A.declref(s["args"][1]) or {}).get("decl") == f["params"][0]["decl"]
            elif s["k"] == "CXXMemberCallExpr" and (s.get("callee") or "").endswith("::" + rm):
                o = A.strip(A.call_object(s))
                sub = A.strip(o["args"][0]) if o.get("k") == "CXXOperatorCallExpr" and o.get("op") == "->" else o
                ok = sub.get("k") == "CXXOperatorCallExpr" and sub.get("op") == "[]" and \
                    A.member_name(sub["args"][0]) == "_axis" and \
                    (A.declref(sub["args"][1]) or {}).get("decl") == f["params"][0]["decl"]
        chk.check(ok, rule, f.where, "PhaseSpace::%s(x) forwards to _axis[x]%s" % (meth, "->%s()" % rm if rm else ""),
                  "PhaseSpace::%s" % meth); chk.used(f); n += 1
    # SourceMap::_axis = {in->getAxis(0), in->getAxis(1)}
    ctor = [c for c in prog.fns("vfps::SourceMap::SourceMap") if len(c["params"]) == 8]
    A.require(len(ctor) == 1, "SourceMap primary constructor not found")
    c = ctor[0]
    ini = [i for i in c["inits"] if i.get("target") == "_axis"]
    A.require(len(ini) == 1, "SourceMap: _axis initialiser not found")
    calls = [x for x in A.walk(ini[0]["expr"]) if x["k"] == "CXXMemberCallExpr" and x.get("callee") == "vfps::PhaseSpace::getAxis"]
    order = [_axis_arg(x["args"][0]) for x in calls]
    objs = [(A.declref(A.strip(A.call_object(x))["args"][0]) or {}).get("name") if A.strip(A.call_object(x)).get("k") == "CXXOperatorCallExpr"
            else None for x in calls]
    chk.check(order == [0, 1] and objs == ["in", "in"], rule, A.loc(c, {"line": ini[0]["line"]}),
              "SourceMap::_axis = {in->getAxis(0), in->getAxis(1)} (got %s on %s)" % (order, objs), "SourceMap::_axis"); chk.used(c); n += 1
    return n
