"""C19 — zero-amplitude RF modulation is the static RF; applied modulation is recorded.

 R1  forwarding agreement (E5): every DynamicRFKickMap constructor hands each of its
     parameters to the RFKickMap constructor parameter of the same name (so the linear
     constructor reaches the linear base constructor, the sinusoidal the sinusoidal one);
     likewise main's constructions of RFKickMap / DynamicRFKickMap through the alias table.
 R2  (E1) the queued modulation folds to (_syncphase + r1*_phasenoise + _modampl*sin(_modtimedelta*i),
     1 + r2*_amplnoise); with zero amplitudes that is (_syncphase, 1) = the arguments of the static
     constructors' _calcKick(_syncphase) with the default amplitude 1; _modtimedelta = 2*pi*increment,
     and main's increment is the configured frequency times dt.
 R3  (E3) DynamicRFKickMap::apply: on every path exactly one _calcKick (reading front()), one
     KickMap::apply, one emplace_back of front() to the past list, one pop(), in this order;
     getPastModulation moves everything out and clears; every call site hands its result to
     HDF5File::appendRFKicks, which appends all of it.
 R4  the queue is filled with as many entries as the main loop has iterations (same variable),
     and the RF map is applied once per iteration.
"""
import sympy as sp
from .. import ast as A
from .. import indexmap as I
from .. import flow as Fl
from .. import callargs as CA
from ..compdb import AnalysisBroken

LEVEL = "other"

# main variable -> constructor parameter roles it may be bound to (confirmed by reading main.cpp; reason per line)
MAIN_ALIAS = {
    "grid_t1": ("in", "out"), "grid_t2": ("in", "out"), "grid_t3": ("in", "out"),   # the three work grids are chained
    "ps_bins": ("xsize", "ysize"),                      # square grid: one size for both axes
    "rf_phase_noise": ("phasespread",),                 # RF phase noise amplitude (rad)
    "rf_ampl_noise": ("amplspread", "mulnoise"),        # relative amplitude noise; header names it mulnoise
    "rf_mod_ampl": ("modampl",),                        # phase modulation amplitude (rad)
    "rf_mod_step": ("modtimeincrement",),               # modulation frequency * dt
    "laststep": ("steps",),                             # number of simulation steps = queue length
    "V_eff": ("V_RF",),                                 # effective RF voltage sqrt(V_RF^2 - V0^2)
    "interpolationtype": ("it",), "interpol_clamp": ("interpol_clamp",), "oclh": ("oclh",),
    "angle": ("angle",), "revolutionpart": ("revolutionpart",), "f_RF": ("f_RF",), "V0": ("V0",),
}


def run(chk, prog):
    chk.assume("std::queue/std::vector semantics (front/pop/emplace_back/move/clear) as documented",
               "RF modulation values reach the kick only through _calcKick's two parameters")
    # ---- R1 ----------------------------------------------------------------------------------
    n1 = 0
    for cls in ("vfps::DynamicRFKickMap",):
        ctors = prog.fns(cls + "::DynamicRFKickMap")
        A.require(len(ctors) == 2, "expected two DynamicRFKickMap constructors")
        for c in ctors:
            chk.used(c)
            base = [i for i in c["inits"] if i.get("ikind") == "base"]
            A.require(len(base) == 1, "%s: base initialiser not found" % c["sig"])
            e = A.strip(base[0]["expr"], casts=False)
            A.require(e.get("callee_class") == "vfps::RFKickMap", "DynamicRFKickMap base is not RFKickMap")
            site = A.loc(c, {"line": base[0]["line"]})
            mine = [p["name"] for p in c["params"]]
            theirs = e.get("callee_params", [])
            model = "linear" if "angle" in mine else "sinusoidal"
            bmodel = "linear" if "angle" in theirs else "sinusoidal"
            chk.check(model == bmodel, "R1", site,
                      "%s constructor (parameters %s) initialises the %s RFKickMap constructor (parameters %s)"
                      % (model, [m for m in mine if m in ("angle", "V_RF", "V0")], bmodel, theirs),
                      "DynamicRFKickMap:%s->RFKickMap:%s" % (model, bmodel))
            n1 += 1
            for j in CA.judge(e):
                chk.check(j["ok"], "R1", site, "argument %d: parameter '%s' is forwarded to base parameter '%s'" % (j["pos"], j["var"], j["param"]),
                          "DynamicRFKickMap:%s:forward:%s->%s" % (model, j["var"], j["param"]))
                n1 += 1
    mainf = prog.fn("main")
    chk.used(mainf)
    news = [x for x in A.walk(mainf["body"]) if x["k"] == "CXXNewExpr" and x.get("alloc_type") in
            ("vfps::DynamicRFKickMap", "vfps::RFKickMap", "DynamicRFKickMap", "RFKickMap")]
    A.require(len(news) == 4, "main: expected 4 constructions of RF kick maps, found %d" % len(news))
    lin_guard = {}
    built = {}
    byid, parent = A.index(mainf)
    for x in news:
        ce = A.strip(x.get("init"), casts=False)
        A.require(ce and ce["k"] == "CXXConstructExpr", "main: new-expression without constructor call")
        site = A.loc(mainf, x)
        for j in CA.judge(ce, MAIN_ALIAS):
            chk.check(j["ok"], "R1", site, "main: %s argument %d '%s' lands on parameter '%s'" % (x["alloc_type"], j["pos"], j["var"], j["param"]),
                      "main:new %s:%s->%s" % (x["alloc_type"], j["var"], j["param"]))
            n1 += 1
        # model agreement with the linearRF switch
        ifs = [p for p in A.enclosing((byid, parent), x, {"IfStmt"})]
        lin = None
        for p in ifs:
            cnd, flip = A.strip(p["cond"]), False
            while cnd.get("k") == "UnaryOperator" and cnd.get("op") == "!" and cnd.get("c"):
                cnd, flip = A.strip(cnd["c"][0]), not flip
            c = A.declref(cnd)
            if c is not None and c["name"] == "linearRF":
                then_ids = {y["id"] for y in A.walk(p["then"])}
                lin = (x["id"] in then_ids) != flip        # under `if (!linearRF)` the then-branch is the nonlinear one
                break
        A.require(lin is not None, "main: RF map construction not under the linearRF switch")
        model = "linear" if "angle" in ce.get("callee_params", []) else "sinusoidal"
        chk.check((model == "linear") == lin, "R1", site, "main: the %s constructor of %s is used on the linearRF=%s branch" % (model, x["alloc_type"], lin),
                  "main:new %s:model:%s:linearRF:%s" % (x["alloc_type"], model, lin))
        n1 += 1
        built.setdefault(model, {})["dynamic" if "Dynamic" in x["alloc_type"] else "static"] = (x, ce)
    # sibling agreement: with zero modulation the dynamic map must be the static one, so on each branch of the linearRF switch
    # main has to hand both constructions the same value for every parameter they share (a name-role rule cannot see V_RF passed
    # where both constructors call the parameter V_RF but the static sibling receives V_eff)
    for model, pair in sorted(built.items()):
        if not chk.check(set(pair) == {"static", "dynamic"}, "R1", mainf.where, "main builds a static and a dynamic %s RF map (found %s)" % (model, sorted(pair)),
                         "main:siblings:%s:present:%s" % (model, sorted(pair))):
            continue
        (xs, cs), (xd, cd) = pair["static"], pair["dynamic"]
        argmap = lambda c_: {p_: A.show(A.strip(a_)).replace(" ", "") for p_, a_ in zip(c_.get("callee_params", []), c_.get("args", []))}
        ms, md = argmap(cs), argmap(cd)
        # the dynamic constructors take the grid sizes explicitly and call the amplitude noise differently; shared = same name
        for pn in sorted(set(ms) & set(md)):
            chk.check(ms[pn] == md[pn], "R1", A.loc(mainf, xd), "main: the %s dynamic map gets the same '%s' as the static map (%s vs %s)" % (model, pn, md[pn], ms[pn]),
                      "main:siblings:%s:%s:%s:%s" % (model, pn, md[pn], ms[pn]))
            n1 += 1
        chk.check(len(set(ms) & set(md)) >= (6 if model == "linear" else 8), "R1", A.loc(mainf, xd), "main: %s static and dynamic constructors share their physical parameters (%s)"
                  % (model, sorted(set(ms) & set(md))), "main:siblings:%s:shared" % model)
    chk.floor("R1-arguments", n1, 55)

    # ---- R2 ----------------------------------------------------------------------------------
    rec0 = prog.record("vfps::DynamicRFKickMap")
    qt = [f_["ctype"] for f_ in rec0["fields"] if f_["name"] == "_next_modulation"]
    A.require(qt and "std::queue<" in qt[0], "DynamicRFKickMap::_next_modulation is not a std::queue any more (%s): the push/front/pop rules of R3 do not apply to it" % qt)
    cm = prog.fn("vfps::DynamicRFKickMap::__calcModulation")
    chk.used(cm)
    s = I.scan(cm)
    em = [c for c in s.calls if c.callee and c.callee.split("::")[-1] in ("emplace", "push") and "queue" in c.callee]
    A.require(len(em) == 1, "__calcModulation: expected one entry queued per step (found %d emplace/push calls)" % len(em))
    il = [x for x in A.walk(em[0].node) if x["k"] == "InitListExpr" and len(x.get("inits", [])) == 2]
    if not il:
        # the entry is built in a named local first: {phase, amplitude} is that local's initialiser
        for a_ in em[0].node.get("args", []):
            d_ = A.declref(a_)
            if d_ is not None:
                for y_ in A.walk(cm["body"]):
                    if y_.get("k") == "DeclStmt":
                        for dd in y_.get("decls", []):
                            if dd.get("decl") == d_.get("decl") and isinstance(dd.get("init"), dict):
                                il = [x for x in A.walk(dd["init"]) if x["k"] == "InitListExpr" and len(x.get("inits", [])) == 2]
    A.require(il, "__calcModulation: {phase, amplitude} initialiser not found")
    il = il[-1]
    ph, am = s._try(il["inits"][0]), s._try(il["inits"][1])
    A.require(ph is not None and am is not None, "__calcModulation: modulation expressions not translatable")
    site = A.loc(cm, {"line": em[0].line})
    zero = {sp.Symbol("_phasenoise", real=True): 0, sp.Symbol("_amplnoise", real=True): 0, sp.Symbol("_modampl", real=True): 0}
    ph0, am0 = sp.simplify(ph.subs(zero)), sp.simplify(am.subs(zero))
    chk.check(ph0 == sp.Symbol("_syncphase", real=True), "R2", site, "zero amplitudes: queued phase folds to _syncphase (phase = %s)" % ph,
              "__calcModulation:phase0:%s" % ph0)
    chk.check(am0 == 1, "R2", site, "zero amplitudes: queued amplitude folds to 1 (amplitude = %s)" % am, "__calcModulation:ampl0:%s" % am0)
    L = em[0].loops
    A.require(len(L) == 1, "__calcModulation: emplace not in one loop")
    i_ = L[0].sym
    want_mod = sp.Symbol("_modampl", real=True) * sp.sin(sp.Symbol("_modtimedelta", real=True) * i_)
    noise_free = ph.subs({sp.Symbol("_phasenoise", real=True): 0})
    chk.check(sp.simplify(noise_free - sp.Symbol("_syncphase", real=True) - want_mod) == 0, "R2", site,
              "noise-free phase = _syncphase + _modampl*sin(_modtimedelta*i) (got %s)" % noise_free, "__calcModulation:modulation:%s" % noise_free)
    chk.check(L[0].lo == 0 and L[0].hi == sp.Symbol(cm["params"][0]["name"], real=True), "R2", site,
              "one queue entry per step i in [0,steps)", "__calcModulation:range")
    for c in prog.fns("vfps::DynamicRFKickMap::DynamicRFKickMap"):
        sc = I.scan(c)
        ini = {a.base: a.value for a in sc.accesses if a.kind == "store" and a.idx is None and a.base.startswith("_")}
        site = c.where
        tp = [v for v in (ini.get("_modtimedelta").free_symbols if ini.get("_modtimedelta") is not None else []) if "two_pi" in str(v)]
        ok = ini.get("_modtimedelta") is not None and len(tp) == 1 and \
            sp.simplify(ini["_modtimedelta"] - tp[0] * sp.Symbol("modtimeincrement", real=True)) == 0
        chk.check(ok, "R2", site, "_modtimedelta = 2*pi*modtimeincrement (%s)" % ini.get("_modtimedelta"), "DynamicRFKickMap:modtimedelta:%s" % ini.get("_modtimedelta"))
        chk.check(ini.get("_modampl") == sp.Symbol("modampl", real=True), "R2", site, "_modampl = modampl", "DynamicRFKickMap:modampl")
        for fld, par in (("_phasenoise", "phasespread"), ("_amplnoise", "amplspread")):
            v = ini.get(fld)
            ok = v is not None and sp.simplify(v.subs(sp.Symbol(par, real=True), 0)) == 0 and v.has(sp.Symbol(par, real=True))
            chk.check(ok, "R2", site, "%s is proportional to %s (%s)" % (fld, par, v), "DynamicRFKickMap:%s:%s" % (fld, v))
        nm = [i["expr"] for i in c["inits"] if i.get("target") == "_next_modulation" and isinstance(i.get("expr"), dict) and
              any(x.get("callee") == "vfps::DynamicRFKickMap::__calcModulation" for x in A.walk(i["expr"]))]
        # ... or filled by assignment in the constructor body
        for y_, lhs_, op_, rhs_ in (A.assignments_in(c["body"]) if c.get("body") else []):
            if A.this_field(lhs_) == "_next_modulation" and op_ == "=":
                nm.append(rhs_)
        for y_ in (A.walk(c["body"]) if c.get("body") else []):
            if y_.get("k") == "CXXOperatorCallExpr" and y_.get("op") == "=" and len(y_.get("args", [])) == 2 and A.this_field(y_["args"][0]) == "_next_modulation":
                nm.append(y_["args"][1])
        A.require(len(nm) == 1, "DynamicRFKickMap: _next_modulation is not filled exactly once in the constructor (%d)" % len(nm))
        call = [x for x in A.walk(nm[0]) if x.get("callee") == "vfps::DynamicRFKickMap::__calcModulation"]
        ok = len(call) == 1 and (A.declref(call[0]["args"][0]) or {}).get("name") == "steps"
        chk.check(ok, "R2", site, "_next_modulation = __calcModulation(steps)", "DynamicRFKickMap:queue-init")
        # order of members: the queue is computed after the amplitudes it uses
        rec = prog.record("vfps::DynamicRFKickMap")
        order = [f["name"] for f in rec["fields"]]
        deps = ["_phasenoise", "_amplnoise", "_modampl", "_modtimedelta", "_prng", "_dist"]
        chk.check(all(d in order and order.index(d) < order.index("_next_modulation") for d in deps), "R2",
                  "inc/SM/DynamicRFKickMap.hpp:%d" % rec["line"],
                  "members used by __calcModulation are declared (hence initialised) before _next_modulation", "DynamicRFKickMap:member-order")
    # static constructors: _calcKick(_syncphase), default amplitude 1
    rk = prog.fn("vfps::RFKickMap::_calcKick", nparams=2)
    chk.used(rk)
    rec = prog.record("vfps::RFKickMap")
    decl = [m for m in rec["methods"] if m["name"] == "_calcKick"]
    A.require(len(decl) == 1, "RFKickMap::_calcKick declaration not found")
    dflt = [p.get("default_text") for p in decl[0]["params"]]
    chk.check(dflt[1] is not None and dflt[1].strip() in ("1", "1.0", "1.f", "1.0f"), "R2", "inc/SM/RFKickMap.hpp:%d" % decl[0]["line"],
              "default amplitude of _calcKick is 1 (%s)" % dflt[1], "RFKickMap::_calcKick:default-ampl:%s" % dflt[1])
    for c in prog.fns("vfps::RFKickMap::RFKickMap"):
        chk.used(c)
        calls = [x for x in A.walk(c["body"]) if x.get("callee") == "vfps::RFKickMap::_calcKick"]
        ok = len(calls) == 1 and A.this_field(calls[0]["args"][0]) == "_syncphase" and \
            (len(calls[0]["args"]) == 1 or calls[0]["args"][1]["k"] == "CXXDefaultArgExpr")
        chk.check(ok, "R2", c.where, "static constructor computes the kick with (_syncphase, default amplitude)", "RFKickMap::ctor:calcKick-args")
    # the place where the dynamic map rebuilds its kick: the one call of RFKickMap::_calcKick(phase, amplitude) in the class, be it in a
    # helper of its own (DynamicRFKickMap::_calcKick) or written out in apply()
    dyn_fns = [f for f in prog.functions.values() if f.get("class") == "vfps::DynamicRFKickMap" and f.get("body") and f.get("kind") not in ("ctor", "dtor")]
    sites = [(f, x) for f in dyn_fns for x in A.walk(f["body"]) if x.get("callee") == "vfps::RFKickMap::_calcKick"]
    A.require(len(sites) == 1, "DynamicRFKickMap: expected one call of RFKickMap::_calcKick outside the constructors, found %d" % len(sites))
    dk = sites[0][0]
    chk.used(dk)
    calls = [sites[0][1]]
    sdk = I.scan(dk)
    fc = [c for c in sdk.calls if c.callee == "vfps::RFKickMap::_calcKick"]
    txt = [str(a).replace(" ", "") for a in fc[0].args]
    chk.check(txt == ["front(_next_modulation)[0]", "front(_next_modulation)[1]"], "R2", A.loc(dk, calls[0]),
              "dynamic _calcKick passes (front()[0], front()[1]) as (phase, amplitude): %s" % txt, "DynamicRFKickMap::_calcKick:args:%s" % txt)
    gdk = Fl.CFG(dk)
    mn, mx = gdk.count_on_paths(Fl.is_call_to("vfps::RFKickMap::_calcKick"))
    chk.check(mn == 1 and mx == 1, "R2", dk.where,
              "dynamic _calcKick rebuilds the kick from the queued (phase, amplitude) exactly once on every path (min %s, max %s): "
              "the kick applied in step k is the one recorded for step k" % (mn, mx), "DynamicRFKickMap::_calcKick:count:%s-%s" % (mn, mx))
    # main: modulation increment = configured frequency * dt
    sm = I.scan(mainf)
    rms = [a for a in sm.accesses if a.kind == "store" and a.base == "rf_mod_step" and a.idx is None]
    A.require(len(rms) == 1, "main: rf_mod_step not found")
    v = rms[0].value
    ok = v is not None and sp.simplify(v - sp.Function("getRFPhaseModFrequency")(sp.Symbol("opts", real=True)) * sm.tr.env.get(
        [d for d, vd in sm.locals.items() if vd["name"] == "dt"][0], sp.Symbol("dt", real=True))) == 0
    chk.check(ok, "R2", A.loc(mainf, {"line": rms[0].line}), "main: modulation increment per step = RFPhaseModFrequency * dt (%s)" % v,
              "main:rf_mod_step")

    # ---- R3 ----------------------------------------------------------------------------------
    ap = prog.fn("vfps::DynamicRFKickMap::apply", nparams=0)
    chk.used(ap)
    g = Fl.CFG(ap)
    site = ap.where

    def on_field(callee_suffix, field):
        def pred(n):
            if n.get("k") not in ("CXXMemberCallExpr",) or not (n.get("callee") or "").endswith(callee_suffix):
                return False
            o = A.call_object(n)
            return o is not None and A.this_field(o) == field
        return pred
    ev = {
        "calcKick": Fl.is_call_to("vfps::RFKickMap::_calcKick") if dk["qname"] == "vfps::DynamicRFKickMap::apply" else Fl.is_call_to(dk["qname"]),
        "KickMap::apply": Fl.is_call_to("vfps::KickMap::apply"),
        "emplace_back(past)": (lambda n, p1=on_field("::emplace_back", "_past_modulation"), p2=on_field("::push_back", "_past_modulation"): p1(n) or p2(n)),
        "pop(next)": on_field("::pop", "_next_modulation"),
    }
    for nm, pr in ev.items():
        if nm == "calcKick":
            continue
        mn, mx = g.count_on_paths(pr)
        chk.check(mn == 1 and mx == 1, "R3", site, "apply(): exactly one %s on every path (min %s, max %s)" % (nm, mn, mx),
                  "DynamicRFKickMap::apply:count:%s:%s-%s" % (nm, mn, mx))
    # Lifecycle typestate (constructor; apply; apply; ...).  Abstract state (d, u): d = (queue position of the entry the current kick was
    # computed from) - (position of the queue front), None while no kick was computed from the queue; u = the same for the entry the
    # transport of this call used.  calcKick: d := 0; pop: d, u decrease; KickMap::apply requires d == 0 and sets u := 0; the record
    # (emplace_back of the front) requires u == 0.  Entry states of apply(): exits of the constructors and exits of apply() itself, on the
    # paths on which the queue is not yet exhausted (R4: it holds one entry per loop iteration).  This is independent of where in the
    # life cycle the kick is computed (at the start of apply() as today, or at its end for the next call).
    def is_empty_test(c):
        c = A.strip(c)
        neg = False
        while c.get("k") == "UnaryOperator" and c.get("op") == "!":
            c, neg = A.strip(c["c"][0]), not neg
        if c.get("k") == "CXXMemberCallExpr" and (c.get("callee") or "").endswith("::empty") and A.this_field(A.call_object(c)) == "_next_modulation":
            return neg          # value of the condition when the queue is NOT empty
        return None

    def lifecycle(cfg, entry):
        cfg = cfg.pruned(is_empty_test)

        def tr(n, facts):
            out = set()
            for (d_, u_) in facts:
                if ev["calcKick"](n):
                    d_ = 0
                if ev["pop(next)"](n):
                    d_ = d_ if not isinstance(d_, int) else max(d_ - 1, -4)
                    u_ = u_ if not isinstance(u_, int) else max(u_ - 1, -4)
                if ev["KickMap::apply"](n):
                    u_ = 0 if d_ == 0 else "bad"
                out.add((d_, u_))
            return frozenset(out)
        res = cfg.forward(tr, set(), must=False, init=frozenset(entry))
        return cfg, res
    entry = set()
    for c_ in prog.fns("vfps::DynamicRFKickMap::DynamicRFKickMap"):
        chk.used(c_)
        gc_, rc_ = lifecycle(Fl.CFG(c_), {(None, None)})
        entry |= set(rc_[("out", gc_.exit)]) if ("out", gc_.exit) in rc_ else {(None, None)}
    entry = {(d_, None) for d_, _ in entry}
    for _ in range(4):
        gl, rl = lifecycle(g, entry)
        ex = {(d_, None) for d_, _ in rl.get(("out", gl.exit), frozenset())}
        if ex <= entry:
            break
        entry |= ex
    at_apply = [(b_, i_, n_, rl[(b_, i_)]) for (b_, i_, n_) in gl.events(ev["KickMap::apply"])]
    badd = sorted({str(d_) for _, _, _, st_ in at_apply for d_, _ in st_ if d_ != 0})
    chk.check(bool(at_apply) and not badd, "R3", site,
              "whenever apply() transports the grid, the kick in effect was computed from the entry at the front of the queue (over the whole life cycle "
              "constructor; apply; apply; ...; offsets of the kick's entry from the front: %s)" % (badd or ["0"]), "DynamicRFKickMap::apply:kick-entry:%s" % badd)
    at_rec = [(b_, i_, n_, rl[(b_, i_)]) for (b_, i_, n_) in gl.events(ev["emplace_back(past)"])]
    badu = sorted({str(u_) for _, _, _, st_ in at_rec for _, u_ in st_ if u_ != 0})
    chk.check(bool(at_rec) and not badu, "R3", site, "the entry recorded by apply() is the one its transport used (no pop in between; offsets %s)" % (badu or ["0"]),
              "DynamicRFKickMap::apply:recorded-entry:%s" % badu)
    eb = g.events(ev["emplace_back(past)"])
    if eb:
        arg = eb[0][2]["args"][0] if eb[0][2].get("args") else None
        t = A.show(arg).replace(" ", "") if arg else ""
        ad_ = A.declref(arg) if arg is not None else None
        if ad_ is not None and "_next_modulation.front()" not in t:
            # a local that holds a copy of / reference to the front entry
            for st_ in A.walk(ap["body"]):
                if st_.get("k") == "DeclStmt":
                    for d_ in st_["decls"]:
                        if d_.get("decl") == ad_.get("decl") and "init" in d_:
                            t = A.show(d_["init"]).replace(" ", "")
        chk.check("_next_modulation.front()" in t, "R3", A.loc(ap, eb[0][2]), "the recorded entry is the front of the queue that was just applied (%s)" % t,
                  "DynamicRFKickMap::apply:recorded:%s" % t)
    # nothing else touches the two containers
    writers = {}
    for f in prog.functions.values():
        if f.get("class") != "vfps::DynamicRFKickMap" or not f.get("body"):
            continue
        for x in A.walk(f["body"]):
            if x.get("k") == "CXXMemberCallExpr":
                o = A.call_object(x)
                fld = A.this_field(o) if o is not None else None
                if fld in ("_next_modulation", "_past_modulation") and not x.get("callee_const"):
                    writers.setdefault(fld, set()).add((f["name"], x["callee"].split("::")[-1]))
    chk.check(writers.get("_next_modulation", set()) <= {("apply", "pop"), (dk["name"], "front"), ("apply", "front")}, "R3", site,
              "queue is consumed only by apply()/_calcKick: %s" % sorted(writers.get("_next_modulation", [])), "DynamicRFKickMap:queue-writers:%s" % sorted(writers.get("_next_modulation", [])))
    chk.check(writers.get("_past_modulation", set()) <= {("apply", "emplace_back"), ("apply", "push_back"), ("getPastModulation", "clear")}, "R3", site,
              "past list is written only by apply() and drained only by getPastModulation(): %s" % sorted(writers.get("_past_modulation", [])),
              "DynamicRFKickMap:past-writers:%s" % sorted(writers.get("_past_modulation", [])))
    gp = prog.fn("vfps::DynamicRFKickMap::getPastModulation", nparams=0)
    chk.used(gp)
    body = gp["body"]["c"]
    mv = [x for x in A.walk(gp["body"]) if x.get("callee") == "std::move" and A.this_field(x["args"][0]) == "_past_modulation"]
    ret = [x for x in A.walk(gp["body"]) if x["k"] == "ReturnStmt"]
    rv = [d for st in body if st["k"] == "DeclStmt" for d in st["decls"] if d.get("k") == "VarDecl"]
    ok = len(mv) == 1 and len(ret) == 1 and len(rv) == 1 and (A.declref(ret[0]["c"][0]) or {}).get("decl") == rv[0]["decl"] and \
        "init" in rv[0] and any(y is mv[0] or y["id"] == mv[0]["id"] for y in A.walk(rv[0]["init"]))
    gcf = Fl.CFG(gp)
    # the other spelling of "hand over everything and leave nothing": a freshly constructed (empty) local swapped with the list
    def is_swap_with(n, local_decl):
        if n.get("k") == "CXXMemberCallExpr" and (n.get("callee") or "").endswith("::swap") and n.get("args"):
            o_, a_ = A.call_object(n), n["args"][0]
            return ((A.declref(o_) or {}).get("decl") == local_decl and A.this_field(a_) == "_past_modulation") or \
                (A.this_field(o_) == "_past_modulation" and (A.declref(a_) or {}).get("decl") == local_decl)
        if n.get("k") == "CallExpr" and (n.get("callee") or "") in ("std::swap", "swap") and len(n.get("args", [])) == 2:
            ds_ = [(A.declref(a_) or {}).get("decl") for a_ in n["args"]]
            fs_ = [A.this_field(a_) for a_ in n["args"]]
            return local_decl in ds_ and "_past_modulation" in fs_
        return False
    swapped = False
    if not ok and len(ret) == 1 and len(rv) == 1 and (A.declref(ret[0]["c"][0]) or {}).get("decl") == rv[0]["decl"]:
        ini = rv[0].get("init")
        empty_init = ini is None or (A.strip(ini, casts=False).get("k") in ("CXXConstructExpr", "CXXTemporaryObjectExpr") and
                                     not [a_ for a_ in A.strip(ini, casts=False).get("args", []) if A.strip(a_, casts=False).get("k") != "CXXDefaultArgExpr"])
        mn_s, mx_s = gcf.count_on_paths(lambda n, d_=rv[0]["decl"]: is_swap_with(n, d_))
        other = [y for y in A.walk(gp["body"]) if y.get("k") in ("CXXMemberCallExpr", "CXXOperatorCallExpr") and (A.declref(A.call_object(y)) or {}).get("decl") == rv[0]["decl"]
                 and not is_swap_with(y, rv[0]["decl"]) and not y.get("callee_const")] if False else []
        swapped = empty_init and mn_s == 1 and mx_s == 1
    chk.check(ok or swapped, "R3", gp.where, "getPastModulation returns the whole past list (moved out, or swapped with a fresh empty vector)", "getPastModulation:move")
    mn, mx = gcf.count_on_paths(on_field("::clear", "_past_modulation"))
    chk.check(mn >= 1 or swapped, "R3", gp.where, "getPastModulation leaves the past list empty on every path (clear: min %s%s)" % (mn, "; swapped with an empty vector" if swapped else ""),
              "getPastModulation:clear")
    sites = 0
    for f in prog.functions.values():
        if not f.get("body"):
            continue
        idx = None
        for x in A.walk(f["body"]):
            if x.get("callee") == "vfps::DynamicRFKickMap::getPastModulation":
                if idx is None:
                    idx = A.index(f)
                p = idx[1].get(x["id"])
                while p is not None and p["k"] in A.TRANSPARENT | {"CXXConstructExpr"}:
                    p = idx[1].get(p["id"])
                ok = p is not None and p.get("callee") == "vfps::HDF5File::appendRFKicks"
                if not ok:
                    # held in a const local that is handed to appendRFKicks and used for nothing else
                    q_ = p
                    while q_ is not None and q_.get("k") not in ("DeclStmt", "CompoundStmt"):
                        q_ = idx[1].get(q_["id"])
                    if q_ is not None and q_.get("k") == "DeclStmt":
                        dv = [d_ for d_ in q_.get("decls", []) if isinstance(d_.get("init"), dict) and any(y is x or y.get("id") == x["id"] for y in A.walk(d_["init"]))]
                        if len(dv) == 1 and dv[0].get("is_const"):
                            uses_ = [y for y in A.walk(f["body"]) if y.get("k") == "DeclRefExpr" and y.get("decl") == dv[0]["decl"]]
                            cons_ = []
                            for u_ in uses_:
                                pu = idx[1].get(u_["id"])
                                while pu is not None and pu["k"] in A.TRANSPARENT | {"CXXConstructExpr"}:
                                    pu = idx[1].get(pu["id"])
                                cons_.append(pu.get("callee") if pu is not None else None)
                            if cons_ and all(c_ == "vfps::HDF5File::appendRFKicks" for c_ in cons_):
                                ok = True
                                p = {"callee": "vfps::HDF5File::appendRFKicks"}
                chk.check(ok, "R3", A.loc(f, x), "the drained modulation is handed to HDF5File::appendRFKicks (consumer: %s)" % (p.get("callee") if p else None),
                          "%s:getPastModulation-consumer:%s" % (f["name"], p.get("callee") if p else None))
                sites += 1
    chk.floor("R3-drain-sites", sites, 2)
    ar = prog.fn("vfps::HDF5File::appendRFKicks")
    chk.used(ar)
    calls = [x for x in A.walk(ar["body"]) if (x.get("callee") or "").startswith("vfps::HDF5File::_appendData")]
    from .common import append_data_args
    ok = len(calls) == 1
    if ok:
        ds_, data_, n_ = append_data_args(calls[0])
        ok = ds_ is not None and data_ is not None and n_ is not None and A.show(data_).replace(" ", "") == "kicks.data()" and \
            A.show(n_).replace(" ", "") == "kicks.size()" and A.this_field(ds_) == "_dynamicRFKick"
    chk.check(ok, "R3", ar.where, "appendRFKicks appends all kicks.size() entries to the RF-kick dataset", "appendRFKicks:all")

    # ---- R4 ----------------------------------------------------------------------------------
    gm = Fl.CFG(mainf)
    wh = [x for x in A.walk(mainf["body"]) if x["k"] == "WhileStmt"]
    loop = [w for w in wh if any((A.declref(y) or {}).get("name") == "laststep" for y in A.walk(w["cond"]) if y["k"] == "DeclRefExpr")]
    A.require(len(loop) == 1, "main: simulation loop bounded by laststep not found")
    loop = loop[0]
    bound = [y for y in A.walk(loop["cond"]) if y["k"] == "DeclRefExpr" and y["name"] == "laststep"][0]
    for x in news:
        if "Dynamic" not in x["alloc_type"]:
            continue
        ce = A.strip(x["init"], casts=False)
        names = ce.get("callee_params", [])
        a = A.declref(ce["args"][names.index("steps")])
        chk.check(a is not None and a["decl"] == bound["decl"], "R4", A.loc(mainf, x),
                  "queue length argument is the variable that bounds the simulation loop", "main:queue-length")
    body_ids = {y["id"] for y in A.walk(loop["body"])}
    rf_apply = [y for y in A.walk(loop["body"]) if y.get("k") == "CXXMemberCallExpr" and y.get("callee") == "vfps::SourceMap::apply"
                and "rfm" in A.show(A.call_object(y))]
    inner = [y for y in A.walk(loop["body"]) if y["k"] in ("WhileStmt", "ForStmt", "DoStmt", "CXXForRangeStmt")]
    nested = any(r["id"] in {z["id"] for z in A.walk(i_)} for r in rf_apply for i_ in inner)
    if not rf_apply:
        # no direct `rfm->apply()` in the loop body at all: the maps are applied in a form this check does not follow (e.g. through a table of
        # maps); that is not evidence of a missing application
        raise AnalysisBroken("main: no direct application of the RF map in the simulation loop (maps applied through an indirection this check does not follow)")
    chk.check(len(rf_apply) == 1 and not nested, "R4", A.loc(mainf, loop), "the RF map is applied exactly once per loop iteration (calls: %d)" % len(rf_apply),
              "main:rfm-apply-per-iteration:%d" % len(rf_apply))
    # laststep not modified after the maps were built
    wr = [x for x, lhs, op, rhs in A.assignments_in(mainf["body"]) if (A.declref(lhs) or {}).get("decl") == bound["decl"]]
    incs = [x for x in A.walk(mainf["body"]) if x["k"] == "UnaryOperator" and x["op"] in ("++", "--") and (A.declref(x["c"][0]) or {}).get("decl") == bound["decl"]]
    chk.check(not wr and not incs, "R4", A.loc(mainf, loop), "laststep is never reassigned", "main:laststep-reassigned")
    # ---- R5: what "the phase and amplitude used" mean in the kick formulas ------------------------------------------------------------------
    # Both models compute the kick of column x from the RF phase at that column, theta = q(x)*_bl2phase + phase, and from the amplitude as a
    # factor of the RF voltage.  Hence (a) a change of `phase` acts exactly like moving every column by phase/(_bl2phase*delta0):
    #   d offset/d phase * _bl2phase*delta0 == d offset/d x,  and (b) the RF part of the kick is homogeneous of degree one in `ampl`
    # (linear model: the whole kick; sinusoidal model: everything but the constant V0 term, which depends on neither x nor phase).
    from . import gridmodel as G5
    s5 = I.scan(rk, hooks=[G5.make_hook()])
    f5 = I.fold_stores(s5.accesses, "_offset")
    pick = lambda pol_: [f for f in f5 if any(A.this_field(g) == "_linear" and pol == pol_ for g, pol in f["guards"]
                                              if isinstance(g, dict) and g.get("k") not in ("SwitchCase", "Catch"))]
    lin5, sin5 = pick(True), pick(False)
    A.require(len(lin5) == 1 and len(sin5) == 1, "RFKickMap::_calcKick: linear / sinusoidal offset formulas not found")
    ph_, am_ = sp.Symbol("phase", real=True), sp.Symbol("ampl", real=True)
    bl_, d0_ = sp.Symbol("_bl2phase", real=True), G5.AX(0, "delta")
    for nm, fo in (("linear", lin5[0]), ("sinusoidal", sin5[0])):
        val, x5 = fo["value"], fo["loops"][0].sym
        site5 = A.loc(rk, {"line": fo["line"]})
        A.require(ph_ in val.free_symbols and am_ in val.free_symbols, "RFKickMap::_calcKick (%s): formula does not mention phase and ampl" % nm)
        lhs5 = sp.simplify(sp.diff(val, ph_) * bl_ * d0_ - sp.diff(val, x5))
        chk.check(lhs5 == 0, "R5", site5, "%s kick: a phase step acts like a shift of the columns by phase/(_bl2phase*delta): d/dphase*_bl2phase*delta - d/dx = %s" % (nm, lhs5),
                  "RFKickMap::_calcKick:%s:phase-is-a-shift" % nm)
        rest = sp.simplify(val.subs(am_, 0))
        rfpart = sp.simplify(val - rest)
        hom = sp.simplify(rfpart - am_ * rfpart.subs(am_, 1))
        const_rest = sp.simplify(sp.diff(rest, x5)) == 0 and sp.simplify(sp.diff(rest, ph_)) == 0 and (nm != "linear" or rest == 0)
        chk.check(hom == 0 and const_rest, "R5", site5, "%s kick: the amplitude multiplies the whole position- and phase-dependent part of the kick (remainder at ampl=0: %s)"
                  % (nm, rest), "RFKickMap::_calcKick:%s:amplitude-is-a-factor" % nm)
    # ---- RD: dimensional consistency of the quantities this property depends on (sa/dims.py) ----------------------------------------
    from . import dimrules
    nrd = dimrules.run(chk, prog, "RD")
    chk.floor("RD-requirements", nrd or 0, 1)
    chk.notes.append("C19: constructor forwarding by parameter role, symbolic folding of the queued modulation at zero amplitudes, "
                     "exactly-once push/pop/drain pairing on the CFG, queue length = loop bound. Not decided: spectrum of the noise.")
