"""Grid-size model: PhaseSpace::nx == ny == N, nxy == N^2, nxyb == N^2*B, nb == B.
Each equality is a lemma re-derived from PhaseSpace::setSize and the reference
definitions on every run; the static size fields are written nowhere else."""
import sympy as sp
from .. import ast as A
from .. import indexmap as I
from ..compdb import AnalysisBroken

N = sp.Symbol("N", integer=True, positive=True)
B = sp.Symbol("B", integer=True, positive=True)

FIELDS = {"_nmeshcellsX": N, "_nmeshcellsY": N, "_nbunches": B, "_nmeshcells": N * N, "_totalmeshcells": N * N * B}
REFS = {"nx": "_nmeshcellsX", "ny": "_nmeshcellsY", "nb": "_nbunches", "nxy": "_nmeshcells", "nxyb": "_totalmeshcells"}


def _rel(path):
    import os
    from ..compdb import REPO
    return os.path.relpath(path, REPO)


def subs_map():
    m = {}
    for r, f in REFS.items():
        m[sp.Symbol("PhaseSpace_" + r, real=True)] = FIELDS[f]
        m[sp.Symbol("PhaseSpace_" + f, real=True)] = FIELDS[f]
        m[sp.Symbol(r, real=True)] = FIELDS[f]
        m[sp.Symbol(f, real=True)] = FIELDS[f]
    return m


def simplify_ite(e):
    ite = sp.Function("ite")
    def rep(*args):
        c, a, b = args
        if sp.expand(a - b) == 0:
            return a
        return ite(c, a, b)
    return e.replace(ite, rep)


def norm(e):
    """apply the size model to an expression"""
    if e is None:
        return None
    return sp.expand(simplify_ite(e.subs(subs_map())))


def lemmas(chk, prog, rule="S"):
    n = 0
    fn = prog.fn("vfps::PhaseSpace::setSize")
    chk.used(fn)
    s = I.scan(fn)
    x, b = fn["params"][0]["name"], fn["params"][1]["name"]
    X, Bp = sp.Symbol(x, real=True), sp.Symbol(b, real=True)
    want = {"_nmeshcellsX": X, "_nmeshcellsY": X, "_nbunches": Bp, "_nmeshcells": X * X, "_totalmeshcells": X * X * Bp}
    got = {}
    for a in s.accesses:
        if a.kind == "store" and a.idx is None:
            nm = a.base.split("::")[-1]
            if nm in want:
                got[nm] = a.value
    for nm, w in want.items():
        chk.check(got.get(nm) is not None and sp.expand(got[nm] - w) == 0, rule, fn.where,
                  "setSize assigns %s = %s (got %s)" % (nm, w, got.get(nm)), "setSize:%s:%s" % (nm, got.get(nm))); n += 1
    # references
    for r, f in REFS.items():
        g = prog.globals.get("vfps::PhaseSpace::" + r)
        A.require(g is not None and "init" in g, "PhaseSpace::%s definition not found" % r)
        tgt = A.declref(g["init"])
        chk.check(tgt is not None and tgt["name"] == f, rule, "%s:%d" % (_rel(g["file"]), g["line"]),
                  "PhaseSpace::%s refers to %s" % (r, f), "PhaseSpace::%s:ref" % r); n += 1
    # nobody else writes the size fields
    writers = set()
    for f in prog.functions.values():
        if not f.get("body"):
            continue
        for x_, lhs, op, rhs in A.assignments_in(f["body"]):
            d = A.declref(lhs)
            if d is not None and d["name"] in FIELDS and d.get("static_member"):
                writers.add(f["qname"])
    chk.check(writers == {"vfps::PhaseSpace::setSize"}, rule, fn.where,
              "static size fields are written only by setSize (writers: %s)" % sorted(writers), "sizes:writers:%s" % sorted(writers)); n += 1
    return n
