"""C18 — wake and CSR spectrum depend on the current profile only, not on past calls.

History independence of an object whose only mutable state is work buffers means: every
operation rewrites, before reading, everything a previous operation (or the FFT library)
may have left different from the freshly constructed state.
 R1  per buffer X that an operation op2 reads through an FFT plan (or directly): for every
     operation op1, the part of X that op1 may leave dirty (its writes to X; the first n/2
     complex inputs a c2r execution may destroy) is rewritten by op2 before the read -
     either op2 rewrites all of X, or it performs the same writes;
     a buffer that is the output of a plan is read only after that plan was executed in
     the same operation and has no other writer.
 R2  an accumulating store (`+=`) is preceded by a plain store to the same cell in the same
     outer iteration.
 R3  plans are created, and buffers allocated / bound, only during construction.
Library model (FFTW): r2c execution preserves its input and writes out[0..n/2]; c2r writes
out[0..n) and may destroy in[0..n/2) (the zero Nyquist bin is left untouched: probed, DESIGN §3).
"""
import sympy as sp
from .. import ast as A
from .. import indexmap as I
from ..compdb import AnalysisBroken
from . import efield as E, sizemodel as S

LEVEL = "other"


def same_write(w, d):
    if isinstance(w.lo, tuple) != isinstance(d.lo, tuple):
        return False
    if isinstance(w.lo, tuple):
        return w.lo == d.lo and [(L.lo, L.hi) for L in w.loops] == [(L.lo, L.hi) for L in d.loops]
    return sp.expand(w.lo - d.lo) == 0 and sp.expand(w.length - d.length) == 0 and \
        [(str(L.lo), str(L.hi)) for L in w.loops if w.lo.has(L.sym)] == [(str(L.lo), str(L.hi)) for L in d.loops if d.lo.has(L.sym)]


def run(chk, prog):
    chk.assume("FFTW library model: r2c preserves its input and writes out[0..n/2]; c2r writes out[0..n) and may destroy in[0..n/2)",
               "fft_alloc_* zero-fill their arrays (checked in FFTWWrapper.cpp by R3)", "equal inputs give equal FFTW outputs (same plan)")
    m = E.Model(prog)
    for f in m.setup + list(m.fns.values()):
        chk.used(f)
    S.lemmas(chk, prog)
    ops = m.ops
    flat = {op: m.flat(op) for op in ops}
    n1 = 0
    for op2 in ops:
        ev2 = flat[op2]
        for pos, e in enumerate(ev2):
            if e.kind != "execute":
                continue
            plan = m.plans.get(e.plan)
            A.require(plan is not None, "execution of an unknown plan %s" % e.plan)
            X = plan["inp"]
            ext = E.norm(m.alloc[X]["extent"]) if X in m.alloc else None
            A.require(ext is not None, "extent of buffer %s unknown" % X)
            # a write counts only if it happens on every path to the execution: each branch condition it is
            # under must also guard the execution (same condition node, same polarity)
            def unconditional(w):
                return all(any((g is ge or (isinstance(g, dict) and isinstance(ge, dict) and g.get("id") == ge.get("id"))) and p_ == pe
                               for ge, pe in e.guards) for g, p_ in w.guards)
            pre = [w for w in ev2[:pos] if w.kind == "write" and w.buf == X and unconditional(w) and
                   [L.node["id"] for L in w.loops if L.node is not None][:len(e.loops)] == [L.node["id"] for L in e.loops][:len(w.loops)]]
            full = E.interval_union_covers(pre, ext)
            site = A.loc(m.fns[op2], {"line": e.line})
            for op1 in ops:
                dirty = [w for w in flat[op1] if w.kind == "write" and w.buf == X]
                # library: a c2r execution may destroy the first floor(n/2) inputs
                for x in flat[op1]:
                    if x.kind == "execute" and m.plans[x.plan]["kind"] == "c2r" and m.plans[x.plan]["inp"] == X:
                        dirty.append(E.Ev("write", X, sp.Integer(0), sp.floor(E.norm(m.plans[x.plan]["n"]) / 2), [], [], x.line, x.nid, "c2r-destroys-input"))
                for d in dirty:
                    ok = full
                    if not ok:
                        if d.what == "c2r-destroys-input":
                            # covered by a loop store i in [0, floor(n/2))
                            ok = any(isinstance(w.lo, tuple) and len(w.lo) == 1 and w.loops and w.lo[0] == w.loops[-1].sym and
                                     w.loops[-1].lo == 0 and sp.expand(E.norm(w.loops[-1].hi) - d.length) == 0 and w.what == "=" for w in pre) or \
                                any(not isinstance(w.lo, tuple) and sp.expand(w.lo) == 0 and sp.simplify(E.norm(w.length) - d.length) == 0 for w in pre)
                        else:
                            ok = any(same_write(w, d) for w in pre)
                    chk.check(ok, "R1", site,
                              "%s executes %s on input %s: what %s may leave in %s (%s%s at line %d) is rewritten before the execution%s"
                              % (op2, e.plan, X, op1, X, d.what, " [%s,+%s)" % (d.lo, d.length) if not isinstance(d.lo, tuple) else "[%s]" % (d.lo,), d.line,
                                 " (whole buffer rewritten)" if full else ""),
                              "%s:%s:%s:dirty-from:%s:%s:%s" % (op2, e.plan, X, op1, d.what, d.lo))
                    n1 += 1
        # direct reads of plan-output buffers
        outs = {p["out"]: name for name, p in m.plans.items()}
        for pos, e in enumerate(ev2):
            if e.kind == "read" and e.buf in outs:
                produced = any(x.kind == "execute" and x.plan == outs[e.buf] for x in ev2[:pos])
                writers = sorted({(op, w.line) for op in ops for w in flat[op] if w.kind == "write" and w.buf == e.buf})
                chk.check(produced and not writers, "R1", A.loc(m.fns[op2], {"line": e.line}),
                          "%s reads %s only after executing the plan that produces it in the same call, and nothing else writes it (%s)"
                          % (op2, e.buf, writers), "%s:reads:%s:produced:%s:writers:%s" % (op2, e.buf, produced, writers))
                n1 += 1
    chk.floor("R1-obligations", n1, 12)
    # ---- R2 ------------------------------------------------------------------------------------
    n2 = 0
    for op in ops:
        ev = m.events[op][0]
        for pos, e in enumerate(ev):
            if e.kind == "write" and isinstance(e.lo, tuple) and e.what not in ("=",) and e.what.endswith("="):
                ok = any(w.kind == "write" and w.buf == e.buf and w.lo == e.lo and w.what == "=" and
                         len(w.loops) <= len(e.loops) and [L.node["id"] for L in w.loops] == [L.node["id"] for L in e.loops][:len(w.loops)]
                         and not w.guards[len([g for g in e.guards]):] for w in ev[:pos])
                chk.check(ok, "R2", A.loc(m.fns[op], {"line": e.line}),
                          "accumulation %s[%s] %s ... starts from a plain store to the same cell in the same outer iteration" % (e.buf, e.lo, e.what),
                          "%s:accumulate:%s" % (op, e.buf))
                n2 += 1
    # a sum built in a local of the call and stored once is history-free by construction (a local starts from its initialiser in every
    # call): such stores are instances of the rule too, so that moving the accumulation into a local does not leave the rule empty
    for op in ops:
        ev, sc_ = m.events[op]
        loc_acc = {a_.base for a_ in sc_.accesses if a_.kind == "store" and a_.idx is None and a_.op in ("+=", "-=", "*=", "/=")}
        for a_ in sc_.accesses:
            if a_.kind == "store" and a_.idx is not None and a_.base.startswith("_") and a_.op == "=" and a_.value is not None and \
                    any(str(t_) in loc_acc for t_ in a_.value.free_symbols):
                inits = [b_ for b_ in sc_.accesses if b_.kind == "store" and b_.idx is None and b_.op == "=" and b_.base in loc_acc and b_.seq < a_.seq]
                chk.check(bool(inits), "R2", A.loc(m.fns[op], {"line": a_.line}),
                          "%s[%s] is stored from a local accumulator that starts from a plain store in this call" % (a_.base, ", ".join(str(i_) for i_ in a_.idx)),
                          "%s:accumulate-local:%s" % (op, a_.base))
                n2 += 1
    chk.floor("R2-accumulations", n2, 1)
    # ---- R3 ------------------------------------------------------------------------------------
    setup_names = {f["qname"] for f in m.setup}
    helper_names = {f["qname"] for f in m.setup if f.get("kind") != "ctor"}
    callers = {}
    for f in prog.functions.values():
        if not f.get("body"):
            continue
        for x in A.walk(f["body"]):
            if x.get("callee") in ("fft::prepareFFT", "fft::fft_alloc_real", "fft::fft_alloc_complex") or x.get("callee") in helper_names:
                callers.setdefault(x["callee"], set()).add(f["qname"])
        for i in f.get("inits", []):
            for x in A.walk(i["expr"]):
                if x.get("callee") in ("fft::prepareFFT", "fft::fft_alloc_real", "fft::fft_alloc_complex") or x.get("callee") in helper_names:
                    callers.setdefault(x["callee"], set()).add(f["qname"])
    for cal, who in sorted(callers.items()):
        who = {w for w in who if not w.startswith("fft::")}
        chk.check(who <= setup_names, "R3", "src/PS/ElectricField.cpp", "%s is called only during construction (%s)" % (cal, sorted(who)),
                  "who-calls:%s:%s" % (cal, sorted(who - setup_names)))
    bufs = set(m.alloc) | set(m.plans)
    for f in prog.functions.values():
        if f.get("class") != "vfps::ElectricField" or not f.get("body") or f["qname"] in setup_names or f["kind"] == "dtor":
            continue
        for x, lhs, op, rhs in A.assignments_in(f["body"]):
            fld = A.this_field(lhs)
            if fld in bufs:
                chk.fail("R3", A.loc(f, x), "%s re-points the work buffer / plan %s after construction" % (f["name"], fld), "%s:rebinds:%s" % (f["name"], fld))
    chk.ok("R3", "src/PS/ElectricField.cpp", "no method outside construction assigns a buffer pointer or plan (%d fields)" % len(bufs))
    # allocation helpers zero-fill
    for nm in ("fft::fft_alloc_real", "fft::fft_alloc_complex"):
        f = prog.fn(nm)
        chk.used(f)
        s = I.scan(f)
        fills = [c for c in s.calls if c.callee == "std::fill_n"]
        rets = s.returns
        ok = len(fills) == 1 and fills[0].args[2] is not None and fills[0].args[2] == 0
        if ok:
            nsym = sp.Symbol(f["params"][0]["name"], real=True)
            want = nsym if nm.endswith("real") else 2 * nsym
            ok = fills[0].args[1] is not None and sp.expand(fills[0].args[1] - want) == 0
        chk.check(ok, "R3", f.where, "%s zero-fills the whole array it returns" % nm, "%s:zero-fill" % nm)
    # ---- R4: nothing but the work buffers is carried from one request to the next -------------------------------------------------------------
    # A member that any function outside construction writes is state a later request could see.  For every such member F that is not one
    # of the FFT buffers (R1) and every writing member function M that reads F: M stores the very cells it reads, before it reads them
    # and on every path on which it reads them (same index expressions, store not under a condition the read is not under).  A cache
    # refreshed under a condition (`if (arg != _last) {...}`) fails this: what the request returns depends on what was asked before.
    setup_sigs = {f_["sig"] for f_ in m.setup}
    members = [f_ for f_ in prog.functions.values() if f_.get("class") == "vfps::ElectricField" and f_.get("body") and f_.get("kind") not in ("ctor", "dtor")
               and f_["sig"] not in setup_sigs]
    MUTATORS = {"resize", "assign", "push_back", "emplace_back", "clear", "insert", "erase", "pop_back", "swap", "fill", "reserve", "shrink_to_fit"}
    OUT_ARG = {"std::fill_n": 0, "std::fill": 0, "std::copy_n": 2, "std::copy": 2, "std::transform": -1, "memset": 0, "std::memset": 0, "memcpy": 0, "std::memcpy": 0}

    def root_field(n):
        """field of *this that the lvalue / pointer expression n is rooted in, with the list of subscript texts"""
        subs = []
        n = A.strip(n)
        while isinstance(n, dict):
            f_ = A.this_field(n)
            if f_ is not None:
                return f_, tuple(reversed(subs))
            k = n.get("k")
            if k == "ArraySubscriptExpr":
                subs.append(A.show(A.strip(n["c"][1]))); n = A.strip(n["c"][0]); continue
            if k == "CXXOperatorCallExpr" and n.get("op") in ("[]", "*") and n.get("args"):
                if n["op"] == "[]":
                    subs.append(A.show(A.strip(n["args"][1])))
                n = A.strip(n["args"][0]); continue
            if k == "UnaryOperator" and n.get("op") in ("*", "&") and n.get("c"):
                n = A.strip(n["c"][0]); continue
            if k == "CXXMemberCallExpr" and (n.get("callee") or "").split("::")[-1] in ("data", "begin", "end", "get", "origin"):
                n = A.strip(A.call_object(n)); continue
            if k == "BinaryOperator" and n.get("op") in ("+", "-") and n.get("c"):
                n = A.strip(n["c"][0]); continue
            return None, ()
        return None, ()

    def refs(f_):
        """[(order, field, subscripts, 'store'|'update'|'read', node)] for one member function"""
        out, lhs_ids = [], set()
        for x, lhs, op, rhs in A.assignments_in(f_["body"]):
            fld, subs = root_field(lhs)
            if fld is not None:
                out.append((x["id"], fld, subs, "store" if op == "=" else "update", x))
                lhs_ids |= {y["id"] for y in A.walk(A.strip(lhs)) if A.this_field(y) == fld}
        for x in A.walk(f_["body"]):
            k = x.get("k")
            if k == "CXXOperatorCallExpr" and x.get("op") in ("=", "+=", "-=", "*=", "/=") and len(x.get("args", [])) == 2:
                fld, subs = root_field(x["args"][0])
                if fld is not None:
                    out.append((x["id"], fld, subs, "store" if x["op"] == "=" else "update", x))
                    lhs_ids |= {y["id"] for y in A.walk(A.strip(x["args"][0])) if A.this_field(y) == fld}
            elif k == "UnaryOperator" and x.get("op") in ("++", "--"):
                fld, subs = root_field(x["c"][0])
                if fld is not None:
                    out.append((x["id"], fld, subs, "update", x))
                    lhs_ids |= {y["id"] for y in A.walk(x["c"][0]) if A.this_field(y) == fld}
            elif k == "CXXMemberCallExpr" and (x.get("callee") or "").split("::")[-1] in MUTATORS:
                fld, subs = root_field(A.call_object(x))
                if fld is not None:
                    out.append((x["id"], fld, subs, "update", x))
                    lhs_ids |= {y["id"] for y in A.walk(A.call_object(x)) if A.this_field(y) == fld}
            elif k == "CallExpr" and x.get("callee") in OUT_ARG and x.get("args"):
                fld, subs = root_field(x["args"][OUT_ARG[x["callee"]]])
                if fld is not None:
                    out.append((x["id"], fld, ("*",), "store", x))
                    lhs_ids |= {y["id"] for y in A.walk(x["args"][OUT_ARG[x["callee"]]]) if A.this_field(y) == fld}
        idx_ = A.index(f_)
        for x in A.walk(f_["body"]):
            fld = A.this_field(x)
            if fld is None or x["id"] in lhs_ids or x.get("k") != "MemberExpr":
                continue
            # climb to the full subscripted expression this member reference is the root of
            top, p_ = x, idx_[1].get(x["id"])
            while p_ is not None and (p_.get("k") in A.TRANSPARENT or p_.get("k") == "ArraySubscriptExpr" and A.strip(p_["c"][0]) is not None and top["id"] in {y["id"] for y in A.walk(p_["c"][0])}
                                      or p_.get("k") == "CXXOperatorCallExpr" and p_.get("op") == "[]" and top["id"] in {y["id"] for y in A.walk(p_["args"][0])}):
                top, p_ = p_, idx_[1].get(p_["id"])
            out.append((x["id"], fld, root_field(top)[1], "read", x))
        return sorted(out, key=lambda t: t[0])

    R = {f_["sig"]: refs(f_) for f_ in members}
    handled = set(m.alloc) | set(m.plans)
    carried = {}
    for f_ in members:
        for o_, fld, subs, kind, x in R[f_["sig"]]:
            if kind in ("store", "update") and fld not in handled:
                carried.setdefault(fld, set()).add(f_["name"])
    chk.tables["members_written_outside_construction"] = {k_: sorted(v_) for k_, v_ in sorted(carried.items())}
    n4 = 0
    memo_ifs, memo_hits = {}, []
    # helpers first, so that a refresh found in a helper is known when its callers are judged
    order_ = sorted(members, key=lambda f__: 0 if not any(y.get("callee_sig") in R for y in A.walk(f__["body"])) else 1)
    for f_ in order_:
        rf = R[f_["sig"]]
        calls_writer = any(y.get("callee_sig") in R and any(k_ in ("store", "update") for _, _, _, k_, _ in R[y["callee_sig"]]) for y in A.walk(f_["body"]))
        if not any(k_ in ("store", "update") for _, _, _, k_, _ in rf) and not calls_writer:
            continue                    # a pure reader: it hands out what the last request computed, it computes nothing from it
        idx_ = A.index(f_)
        conds = lambda n: [c_["id"] for c_ in A.enclosing(idx_, n, {"IfStmt", "ConditionalOperator", "SwitchStmt"})]
        loops = lambda n: [c_["id"] for c_ in A.enclosing(idx_, n, {"ForStmt", "WhileStmt", "DoStmt", "CXXForRangeStmt"})]
        for o_, fld, subs, kind, x in rf:
            if kind not in ("read", "update") or fld not in carried:
                continue
            if kind == "read" and not subs:
                addr = False
                for anc in A.enclosing(idx_, x, {"CXXMemberCallExpr"})[:1]:
                    ob = A.call_object(anc)
                    addr = ob is not None and A.this_field(ob) == fld and (anc.get("callee") or "").split("::")[-1] in \
                        ("data", "size", "shape", "begin", "end", "num_elements", "origin", "cbegin", "cend")
                if not addr:
                    pass
                else:
                    continue            # the container's address / extent, not its contents
            def same_iteration(st):
                ls, lx = loops(st), loops(x)          # innermost first; the store's loops must be the outer part of the read's loop nest
                return not ls or ls == lx[len(lx) - len(ls):]
            pre = [t for t in rf if t[0] < o_ and t[1] == fld and t[3] == "store" and (t[2] == subs or t[2] == ("*",)) and
                   set(conds(t[4])) <= set(conds(x)) and same_iteration(t[4])]
            if not pre:
                # an exact memo (`if (param != _key) { _key = param; table = f(param); }`, the comparison being the whole condition) does
                # not make results depend on history provided construction leaves key and table consistent; that equivalence is not decided
                # here: such code is reported as not analysable, never as a violation.  Any other condition on the refresh is judged.
                for c_ in A.enclosing(idx_, x, {"IfStmt"}) + [y for w_ in memo_ifs.values() for y in w_]:
                    t_ = A.strip(c_["cond"])
                    if t_.get("k") == "BinaryOperator" and t_.get("op") in ("!=", "==") and len(t_.get("c", [])) == 2:
                        for a_, b_ in ((t_["c"][0], t_["c"][1]), (t_["c"][1], t_["c"][0])):
                            key_f, par = A.this_field(a_), A.declref(b_)
                            branch = c_.get("then") if t_["op"] == "!=" else c_.get("else")
                            if key_f is not None and par is not None and par.get("dkind") == "ParmVar" and branch is not None and \
                                    any(A.this_field(l_) == key_f and op_ == "=" and (A.declref(r_) or {}).get("decl") == par["decl"]
                                        for _, l_, op_, r_ in A.assignments_in(branch)):
                                memo_ifs.setdefault(f_["sig"], []).append(c_)
                                stored_in_branch = {root_field(l_)[0] for _, l_, _, _ in A.assignments_in(branch)}
                                if fld == key_f and x["id"] in {y["id"] for y in A.walk(c_["cond"])} or fld in stored_in_branch:
                                    memo_hits.append("%s (%s, key %s)" % (f_["name"], fld, key_f))
            if not pre and any(h_.startswith(f_["name"] + " (" + fld) for h_ in memo_hits):
                continue
            if not pre:
                # the refresh may sit in a helper this function calls
                for y in A.walk(f_["body"]):
                    if y.get("callee_sig") in memo_ifs and y["id"] < o_:
                        for c_ in memo_ifs[y["callee_sig"]]:
                            if fld in {root_field(l_)[0] for _, l_, _, _ in A.assignments_in(c_.get("then") or {})}:
                                memo_hits.append("%s (%s, refreshed by %s)" % (f_["name"], fld, y["callee"].split("::")[-1]))
                if any(h_.startswith(f_["name"] + " (" + fld) for h_ in memo_hits):
                    continue
            n4 += 1
            chk.check(bool(pre), "R4", A.loc(f_, x), "%s %s %s%s, which %s can change outside construction: it stores that cell first, on every path, in the same call%s"
                      % (f_["name"], "reads" if kind == "read" else "updates", fld, "".join("[%s]" % s_ for s_ in subs), sorted(carried[fld]),
                         "" if pre else " -- NO such store: the value seen is the one an earlier request left"),
                      "%s:carried:%s" % (f_["name"], fld))
    chk.floor("R4-members-written-outside-construction", len(carried), 1)
    chk.ok("R4", "src/PS/ElectricField.cpp", "%d reads of %d members that are written outside construction examined" % (n4, len(carried)))
    if memo_hits:
        raise AnalysisBroken("ElectricField keeps a table keyed on a request parameter (%s): whether the cached and the recomputed table agree for every "
                             "sequence of requests is not decided by this check" % "; ".join(sorted(set(memo_hits))))
    # ---- R5: nothing the field computes once, at construction, depends on the profile it is constructed on ---------------------------------------
    # a freshly constructed field and a long-lived one differ exactly in what construction read: every call on the phase space made by the
    # constructors and the set-up helpers may read geometry and configuration only, never the grid data or anything derived from it
    from .. import effects as Ef
    eff5 = Ef.Effects(prog)
    PROFILE = {"_data", "_projection", "_integral", "_filling", "_moment", "_rms"}
    n5 = 0
    for f_ in m.setup:
        roots = ([f_["body"]] if f_.get("body") else []) + [i_["expr"] for i_ in f_.get("inits", []) if isinstance(i_.get("expr"), dict)]
        for r_ in roots:
            for x in A.walk(r_):
                if x.get("k") != "CXXMemberCallExpr" or not (x.get("callee") or "").startswith("vfps::PhaseSpace::"):
                    continue
                callee = [c_ for c_ in prog.fns(x["callee"]) if c_.get("body")]
                if not callee:
                    continue
                rd = set()
                for c_ in callee:
                    try:
                        rd |= {fld for (o_, fld, sel_) in eff5.summary(c_, "vfps::PhaseSpace").reads if o_ == "this"}
                    except Exception:
                        rd |= {"?"}
                bad = sorted(rd & PROFILE)
                n5 += 1
                chk.check(not bad and "?" not in rd, "R5", A.loc(f_, x), "construction calls %s(), which reads no grid data and nothing derived from it (%s)"
                          % (x["callee"].split("::")[-1], bad or "geometry/configuration only"), "ctor-reads-profile:%s:%s" % (x["callee"].split("::")[-1], bad))
    chk.floor("R5-construction-calls-on-the-phase-space", n5, 3)
    # ---- R6: every result cell is written by every request ------------------------------------------------------------------------------------------------
    # a member that holds results handed out by accessors (spectrum, intensity, wake potential: written outside construction, not an FFT
    # buffer) is stored by the operation under no condition on the data - or the skipped case stores the cell too.  A bunch skipped with
    # `continue` keeps the row an earlier request left there.
    n6 = 0
    for op in ops:
        ev_, sc_ = m.events[op]
        st6 = [a_ for a_ in sc_.accesses if a_.kind == "store" and a_.idx is not None and a_.base in carried and a_.op == "="]
        for a_ in st6:
            pg = [(g_, pol_) for g_, pol_ in I.plain_guards(a_.guards) if isinstance(g_, dict) and g_.get("k") not in ("SwitchCase", "Catch")]
            n6 += 1
            if not pg:
                continue
            covered = any(b_ is not a_ and b_.base == a_.base and len(b_.idx) == len(a_.idx) and
                          any(I.guards_complementary(ga, gb) for ga in pg for gb in I.plain_guards(b_.guards)) for b_ in st6)
            chk.check(covered, "R6", A.loc(m.fns[op], {"line": a_.line}), "%s stores %s[%s] on every path (it is under the condition `%s`, and the other case stores nothing there: "
                      "the cell keeps what an earlier request left)" % (op, a_.base, ", ".join(str(i_) for i_ in a_.idx), A.show(pg[0][0])[:50]),
                      "%s:result-not-always-stored:%s" % (op, a_.base))
    chk.floor("R6-result-stores", n6, 1)
    chk.notes.append("C18: dirty/read/rewrite footprints of every work buffer for every ordered pair of operations "
                     "(updateCSR, wakePotential, padBunchProfiles); accumulation resets; plan/buffer binding only at construction.")
