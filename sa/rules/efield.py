"""Facts about ElectricField's work buffers, FFT plans and the operations that use them
(shared by C06, C07, C18)."""
import sympy as sp
from .. import ast as A
from .. import indexmap as I
from ..compdb import AnalysisBroken
from . import sizemodel as S

NMAX = sp.Symbol("_nmax", real=True)
NX = S.N


class Ev:
    """one buffer event in program order"""
    def __init__(self, kind, buf, lo, length, loops, guards, line, nid, what="", plan=None, value=None):
        self.kind, self.buf, self.lo, self.length, self.loops, self.guards = kind, buf, lo, length, loops, guards
        self.line, self.nid, self.what, self.plan, self.value = line, nid, what, plan, value
        self.seq = None

    def __repr__(self):
        return "%s %s[%s,+%s)%s @%d" % (self.kind, self.buf, self.lo, self.length,
                                       " in " + ",".join(L.name for L in self.loops) if self.loops else "", self.line)


def norm(e):
    if e is None:
        return None
    return sp.expand(S.norm(e))


class Model:
    OPS = ("updateCSR", "wakePotential", "padBunchProfiles")

    def __init__(self, prog):
        self.prog = prog
        self.plans = {}        # plan field -> (in buffer, out buffer, kind, site)
        self.alloc = {}        # buffer field -> (extent expr, kind)
        self.fns = {}
        ctors = prog.fns("vfps::ElectricField::ElectricField")
        A.require(len(ctors) == 2, "ElectricField: expected two constructors")
        # construction = the constructors plus every member function that is called from construction only (set-up helpers
        # such as _initWakeLossFFT; found from the call sites of the whole program, not by name)
        members = {f["sig"]: f for f in prog.functions.values() if f.get("class") == "vfps::ElectricField" and f.get("body") and f.get("kind") not in ("ctor", "dtor")}
        callers = {}
        for f in prog.functions.values():
            roots = ([f["body"]] if f.get("body") else []) + [i["expr"] for i in f.get("inits", []) if isinstance(i.get("expr"), dict)]
            for r_ in roots:
                for x in A.walk(r_):
                    if x.get("callee_sig") in members:
                        callers.setdefault(x["callee_sig"], set()).add(f["sig"])
        setup = {c["sig"] for c in ctors}
        changed = True
        while changed:
            changed = False
            for sig in members:
                if sig not in setup and callers.get(sig) and callers[sig] <= setup and members[sig]["name"] not in self.OPS:
                    setup.add(sig); changed = True
        self.setup = list(ctors) + [members[s_] for s_ in sorted(setup) if s_ in members]
        A.require(any(f["name"] == "_initWakeLossFFT" for f in self.setup) or len(self.setup) >= 2, "ElectricField: set-up helpers not found")
        for f in self.setup:
            s = I.scan(f)
            for a in s.accesses:
                if a.kind != "store" or a.idx is not None or a.value_node is None:
                    continue
                calls = [x for x in A.walk(a.value_node) if x.get("k") == "CallExpr"]
                if not calls:
                    # the member receives a local that holds the freshly allocated buffer / the new plan (T* const buf = fft_alloc(..); _m = buf;)
                    dl_ = A.declref(a.value_node)
                    loc_ = s.locals.get(dl_["decl"]) if dl_ is not None and dl_.get("decl") in s.locals else None
                    if loc_ is not None and isinstance(loc_.get("init"), dict) and s.assigned.get(dl_["decl"], 0) == 0:
                        calls = [x for x in A.walk(loc_["init"]) if x.get("k") == "CallExpr"]
                for c in calls:
                    cal = c.get("callee") or ""
                    if cal == "fft::prepareFFT":
                        bufs = [A.this_field(x) for x in c["args"][1:3]]
                        A.require(all(bufs), "prepareFFT on something that is not a member buffer (%s)" % A.show(c))
                        sig = c.get("callee_sig", "")
                        kind = "r2c" if sig.split("(")[1].split(",")[1].strip().startswith("float *") or \
                            sig.split("(")[1].split(",")[1].strip().startswith("double *") else "c2r"
                        n = s._try(c["args"][0])
                        self.plans[a.base] = dict(inp=bufs[0], out=bufs[1], kind=kind, n=n, site=A.loc(f, c), fn=f["name"])
                    if cal in ("fft::fft_alloc_real", "fft::fft_alloc_complex"):
                        self.alloc[a.base] = dict(extent=s._try(c["args"][0]), kind=cal.split("_")[-1], site=A.loc(f, c), zeroed=True)
            # aliases: _bp_padded = reinterpret_cast<..>(_bp_padded_fft)
            for a in s.accesses:
                if a.kind == "store" and a.idx is None and a.value_node is not None:
                    src = A.this_field(a.value_node)
                    if src in self.alloc and (a.base not in self.alloc or a.base in ("_wakelosses", "_formfactor", "_bp_padded", "_wakepotential_padded")) and src != a.base:
                        self.alloc[a.base] = dict(self.alloc[src], alias_of=src)
        A.require(len(self.plans) == 2, "ElectricField: expected two FFT plans, found %s" % sorted(self.plans))
        for nm in self.OPS:
            self.fns[nm] = prog.fn("vfps::ElectricField::" + nm)
        # every other member function (outside construction) that touches a work buffer or runs a plan is an operation too: the
        # footprint rules quantify over all operations a caller can request, not over the three that exist today
        self.ops = list(self.OPS)
        work = {"_bp_padded", "_formfactor", "_wakelosses", "_wakepotential_padded"}
        setup_sigs = {f_["sig"] for f_ in self.setup}
        for sig, f_ in sorted(members.items()):
            if sig in setup_sigs or f_["name"] in self.OPS or f_["name"] in self.fns:
                continue
            txt_fields = {A.this_field(y) for y in A.walk(f_["body"]) if y.get("k") == "MemberExpr"} - {None}
            touches = (txt_fields & work) or any((y.get("callee") or "") == "fft::fft_execute" for y in A.walk(f_["body"]))
            if not touches:
                continue
            writes_or_runs = any((y.get("callee") or "") in ("fft::fft_execute", "std::copy_n", "std::fill_n", "std::copy", "std::fill", "std::transform", "memset", "std::memset", "std::memcpy", "memcpy")
                                 for y in A.walk(f_["body"])) or \
                any(A.this_field(A.strip(l_)) in work or any(A.this_field(z) in work for z in A.walk(l_)) for _, l_, _, _ in A.assignments_in(f_["body"]))
            if not writes_or_runs:
                continue            # a pure reader (accessor) of a work buffer
            self.fns[f_["name"]] = f_
            self.ops.append(f_["name"])
        self.events = {nm: self._events(self.fns[nm]) for nm in self.ops}

    def _events(self, fn):
        s = I.scan(fn)
        A.require(not s.noncanonical_loops, "%s: non-canonical loop" % fn["name"])
        ev = []
        for c in s.calls:
            cal = c.callee or ""
            if cal in ("std::copy_n", "std::fill_n"):
                dst = c.args[2] if cal == "std::copy_n" else c.args[0]
                ln = c.args[1]
                A.require(dst is not None and ln is not None, "%s: copy/fill with untranslatable destination at line %d" % (fn["name"], c.line))
                bufsym = [x for x in dst.free_symbols if str(x).startswith("_") and not isinstance(x, sp.Indexed) and
                          not any(x in i_.free_symbols and x != i_ for i_ in dst.atoms(sp.Indexed))]
                bufsym = [x for x in bufsym if sp.expand(dst).coeff(x, 1) == 1]
                A.require(len(bufsym) == 1, "%s: destination buffer of %s at line %d not identified (%s)" % (fn["name"], cal, c.line, dst))
                lo = sp.expand(dst - bufsym[0])
                val = c.args[0] if cal == "std::copy_n" else c.args[2]
                ev.append(Ev("write", str(bufsym[0]), norm(lo), norm(ln), c.loops, c.guards, c.line, c.node["id"], cal, value=val)); ev[-1].seq = c.seq + 0.5
                if cal == "std::copy_n":
                    ev.append(Ev("read-src", str(c.args[0]), None, norm(ln), c.loops, c.guards, c.line, c.node["id"], "copy source", value=c.args[0])); ev[-1].seq = c.seq + 0.25
            elif cal == "std::transform" and len(c.args) == 5 and any(getattr(a_, "from_bulk", None) is c.node and a_.kind == "store" for a_ in s.accesses):
                pass        # binary transform (two arrays combined element by element): the scanner has rewritten the call into the element
                            # loads and stores it performs (see the accesses below); the range model below is for the unary form
            elif cal == "std::transform" and len(c.args) >= 4 and c.args[0] is not None and c.args[1] is not None and c.args[-2] is not None:
                # std::transform(first, last, dst, f): writes last-first values f(x) to dst -- not the values themselves
                dst = c.args[-2]
                bufsym = [x for x in dst.free_symbols if str(x).startswith("_") and sp.expand(dst).coeff(x, 1) == 1]
                if len(bufsym) == 1:
                    lo = sp.expand(dst - bufsym[0])
                    ev.append(Ev("write", str(bufsym[0]), norm(lo), norm(sp.expand(c.args[1] - c.args[0])), c.loops, c.guards, c.line, c.node["id"], "std::transform", value=None))
                    ev[-1].seq = c.seq + 0.5
                    ev.append(Ev("read-src", str(c.args[0]), None, norm(sp.expand(c.args[1] - c.args[0])), c.loops, c.guards, c.line, c.node["id"], "transform source", value=c.args[0]))
                    ev[-1].seq = c.seq + 0.25
            elif cal in ("memset", "std::memset"):
                # memset(p, 0, BYTES) clears BYTES/sizeof(element) elements: a byte count written without the element size clears a part only
                dst, val, nbytes = c.args[0], c.args[1], c.args[2]
                A.require(dst is not None and nbytes is not None, "%s: memset with untranslatable arguments at line %d" % (fn["name"], c.line))
                bufsym = [x for x in dst.free_symbols if str(x).startswith("_") and sp.expand(dst).coeff(x, 1) == 1]
                A.require(len(bufsym) == 1, "%s: destination buffer of memset at line %d not identified (%s)" % (fn["name"], c.line, dst))
                A.require(val == 0, "%s: memset with a non-zero byte at line %d is not modelled" % (fn["name"], c.line))
                szs = list(nbytes.atoms(sp.Function))
                szs = [z for z in szs if str(z.func) == "sizeof"]
                esize = {"_bp_padded": 4, "_wakepotential_padded": 4, "_formfactor": 8, "_wakelosses": 8}.get(str(bufsym[0]))
                A.require(esize is not None, "%s: memset on a buffer of unknown element size (%s)" % (fn["name"], bufsym[0]))
                if len(szs) == 1 and sp.expand(nbytes).coeff(szs[0], 1) != 0 and not sp.expand(nbytes).coeff(szs[0], 0) != 0:
                    tname = str(szs[0].args[0])
                    own = str(bufsym[0]) in tname or tname in (("float", "vfps::integral_t", "integral_t", "vfps::meshaxis_t", "meshaxis_t") if esize == 4 else ("vfps::impedance_t", "impedance_t", "std::complex<float>"))
                    A.require(own, "%s: memset sized with sizeof(%s), which is not recognisably the element type of %s" % (fn["name"], tname, bufsym[0]))
                    ln = sp.expand(nbytes / szs[0])
                else:
                    A.require(not szs, "%s: memset byte count at line %d not understood (%s)" % (fn["name"], c.line, nbytes))
                    ln = sp.floor(nbytes / esize)
                lo = sp.expand(dst - bufsym[0])
                ev.append(Ev("write", str(bufsym[0]), norm(lo), norm(ln), c.loops, c.guards, c.line, c.node["id"], "std::fill_n", value=sp.Integer(0))); ev[-1].seq = c.seq + 0.5
            elif cal == "fft::fft_execute":
                plan = A.this_field(c.arg_nodes[0])
                A.require(plan is not None, "%s: fft_execute on a non-member plan" % fn["name"])
                ev.append(Ev("execute", plan, None, None, c.loops, c.guards, c.line, c.node["id"], plan=plan)); ev[-1].seq = c.seq
            elif cal.startswith("vfps::ElectricField::") and cal.split("::")[-1] in getattr(self, "ops", self.OPS):
                ev.append(Ev("call", cal.split("::")[-1], None, None, c.loops, c.guards, c.line, c.node["id"])); ev[-1].seq = c.seq
        unary_tr = {c.node["id"] for c in s.calls if (c.callee or "") == "std::transform" and len(c.args) == 4}
        for a in s.accesses:
            if a.idx is None or not a.base.startswith("_"):
                continue
            if getattr(a, "from_bulk", None) is not None and a.from_bulk.get("id") in unary_tr:
                continue            # unary transform: represented by its range events above
            if a.kind == "store":
                ev.append(Ev("write", a.base, tuple(a.idx), sp.Integer(1), a.loops, a.guards, a.line, a.node["id"], a.op, value=a.value)); ev[-1].seq = a.seq
            else:
                ev.append(Ev("read", a.base, tuple(a.idx), sp.Integer(1), a.loops, a.guards, a.line, a.node["id"])); ev[-1].seq = a.seq
        # program order as the scanner met the events (also across helper functions it looked into); a store follows the reads of its
        # own right-hand side
        ev.sort(key=lambda e: (e.seq if e.seq is not None else 0))
        return ev, s

    def flat(self, op, _depth=0):
        """events of an operation with calls to other operations inlined (program order)"""
        A.require(_depth < 4, "recursive ElectricField operations")
        out = []
        for e in self.events[op][0]:
            if e.kind == "call":
                for x in self.flat(e.buf, _depth + 1):
                    y = Ev(x.kind, x.buf, x.lo, x.length, e.loops + x.loops, e.guards + x.guards, x.line, e.nid, x.what, x.plan, x.value)
                    y.seq = x.seq
                    y.via = e.buf
                    out.append(y)
            else:
                out.append(e)
        return out


def interval_union_covers(writes, extent):
    """do the (un-looped or loop-swept) interval writes cover [0, extent)?  Only adjacency merging of
    loop-free intervals and single full writes are recognised; anything else is 'unknown' (False)."""
    iv = []
    for w in writes:
        if isinstance(w.lo, tuple):
            # element store a[i] swept by a loop
            if len(w.lo) == 1 and w.loops:
                L = w.loops[-1]
                if w.lo[0] == L.sym and L.lo is not None and L.hi is not None and L.cmp == "<" and L.step == 1:
                    iv.append((norm(L.lo), norm(L.hi) - norm(L.lo)))
            continue
        if w.loops and any(w.lo.has(L.sym) for L in w.loops if L.sym is not None):
            continue
        iv.append((w.lo, w.length))
    pos = sp.Integer(0)
    changed = True
    used = set()
    while changed:
        changed = False
        for i, (lo, ln) in enumerate(iv):
            if i in used:
                continue
            if sp.expand(lo - pos) == 0 or lo == 0 and sp.expand(ln - extent) == 0:
                pos = sp.expand(lo + ln) if sp.expand(lo - pos) == 0 else extent
                used.add(i)
                changed = True
    return sp.expand(pos - extent) == 0


def profile_row(src):
    """which row of the [B][N] X projection does a copy source denote?  Accepted spellings:
       origin(getProjection(_phasespace,0)[r])  and  origin(getProjection(_phasespace,0)) + N*r.
       -> row expression r, or None if the source is something else"""
    if src is None:
        return None
    org = [x for x in src.atoms(sp.Function) if str(x.func) == "origin"]
    if len(org) != 1:
        return None
    rest = sp.expand(S.norm(src - org[0]))
    inner = str(org[0].args[0]).replace(" ", "")
    if inner == "getProjection(_phasespace,0)":
        q = sp.expand(rest / S.N)
        return q if not q.has(S.N) else None
    import re
    m = re.fullmatch(r"getProjection\(_phasespace,0\)\[(.+)\]", inner)
    if m and rest == 0:
        try:
            return sp.sympify(m.group(1), locals={"n": sp.Symbol("n", integer=True), "b": sp.Symbol("b", integer=True)})
        except Exception:
            return None
    return None
