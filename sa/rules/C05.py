"""C05 — the stationary bunch satisfies the Haissinski equation with its own wake.

The equilibrium itself (the Haissinski relation between recorded profile and wake) is a
numerical fixed point of thousands of steps and is NOT decided.  Decided are the structural
preconditions named in the anchors:
 R1  step structure: in every loop iteration the four transport maps are applied exactly once,
     in the order wake kick, RF kick, drift, damping/diffusion, and their (in,out) grids form the
     chain t1 -> t2 -> t1 -> t3 -> t1 for every combination of map alternatives;
 R2  at the wake kick the kick offsets are fresh with respect to the grid they are applied to
     (freshness typestate shared with C10): a wake-map update lies between the last change of
     the grid and the application, computed from a fresh X projection;
 R4  the RF focusing and the drift that the wake is balanced against have the slope, sign and centre decided
     under C03 (R1, R3), re-evaluated here: the Haissinski relation has its q^2/2 term centred on the zero bin;
 R3  the wake offsets are the field's wake potential copied without arithmetic (sign and strength
     preserved), in energy-cell units through the scaling normal form proved under C06/R4; wake
     and RF kick go through the same KickMap machinery with the same kick axis.
"""
import sympy as sp
from .. import ast as A
from .. import indexmap as I
from .. import mainmodel as M
from .. import fresh as F
from ..compdb import AnalysisBroken
from . import C08 as c08

from . import kickmodel as K

LEVEL = "other"


def run(chk, prog):
    chk.assume("CPU path", "the scaling of the wake potential is the normal form established by C06/R4")
    mm = M.MainModel(prog)
    mainf = mm.fn
    chk.used(mainf)
    loop = mm.main_loop()
    ob = mm.output_block()
    ob_ids = {y["id"] for y in A.walk(ob)}
    body = loop["body"]
    top = body.get("c", [])
    # ---- R1 -------------------------------------------------------------------------------------
    applies = []
    for st in top:
        x = A.strip(st, casts=False)
        if x.get("k") == "CXXMemberCallExpr" and (x.get("callee") or "").endswith("::apply"):
            e = mm.call_effects(x)
            if e is not None:
                applies.append((e["var"], x, e))
    names = [v for v, _, _ in applies]
    chk.check(names == ["wm", "rfm", "drm", "fpm"], "R1", A.loc(mainf, loop), "per iteration: wake kick, RF kick, drift, damping/diffusion, once each, unconditionally (%s)" % names,
              "loop:apply-order:%s" % names)
    nested = [x for x in A.walk(body) if x.get("k") == "CXXMemberCallExpr" and (x.get("callee") or "").endswith("::apply") and
              x["id"] not in {a[1]["id"] for a in applies} and (x.get("callee_class") or "").startswith("vfps::") and "Map" in (x.get("callee_class") or "") + "Map"
              and mm.call_effects(x) is not None and mm.call_effects(x)["var"] in mm.objs and mm.call_effects(x)["var"] not in ("hdf_file",)]
    chk.check(not nested, "R1", A.loc(mainf, loop), "no further map application hides in a branch of the loop body (%d)" % len(nested), "loop:extra-apply:%d" % len(nested))
    chain = []
    for v, x, e in applies:
        ins, outs = set(), set()
        for alt in mm.objs[v].alts:
            owner = mm.objs[v].__dict__.get("via", {}).get(id(alt[3]), v)
            for m_, acc in (("_in", ins), ("_out", outs)):
                acc |= mm.member_var(owner, m_, None) if owner != v else mm.member_var(v, m_, alt)
        chain.append((v, ins, outs))
        chk.check(len(ins) == 1 and len(outs) == 1, "R1", A.loc(mainf, x), "%s: every alternative of the map reads one grid and writes one grid (in %s, out %s)" % (v, sorted(ins), sorted(outs)),
                  "map:%s:grids:%s->%s" % (v, sorted(ins), sorted(outs)))
    if all(len(i) == 1 and len(o) == 1 for _, i, o in chain) and len(chain) == 4:
        seq = [(v, next(iter(i)), next(iter(o))) for v, i, o in chain]
        ok = all(seq[k][2] == seq[(k + 1) % 4][1] for k in range(4))
        chk.check(ok, "R1", A.loc(mainf, loop), "grid chaining: the output of each map is the input of the next, the last feeds the first (%s)" % ["%s:%s->%s" % s_ for s_ in seq],
                  "chain:%s" % ["%s->%s" % (s_[1], s_[2]) for s_ in seq])
        chk.check(seq[0][1] == "grid_t1" and seq[3][2] == "grid_t1", "R1", A.loc(mainf, loop), "the iteration starts and ends on grid_t1 (the grid that is observed and projected)", "chain:ends")
    # projection refresh after the last map, before the next iteration
    after = [A.strip(st, casts=False) for st in top if st["line"] > applies[-1][1]["line"]] if applies else []
    upd = [x for x in after if x.get("k") == "CXXMemberCallExpr" and x.get("callee") == "vfps::PhaseSpace::updateXProjection" and "grid_t1" in A.show(A.call_object(x))]
    # (that the profile the wake is computed from is fresh at the wake update is decided flow-sensitively by R2 under the assumption that a
    # wake map exists; an unconditional top-level refresh is one way to achieve it, not a requirement of the statement)
    chk.tables["xprojection_refresh_statements_after_last_map"] = len(upd)
    # ---- R2 -------------------------------------------------------------------------------------
    seen = set()
    ncase = 0
    for asg, g in mm.case_split(loop_continues=True):
        if not asg.get("wkm", False):
            continue
        fr = F.Freshness(mm, g)
        fr.run()
        kl = fr.killers()
        for bid, i, n, e in fr.events:
            if e["var"] != "wm" or e["method"] != "apply" or n["id"] not in {y["id"] for y in A.walk(loop)}:
                continue
            st, pos = fr.before(n)
            need = [("wkm", "_offset", None), ("wkm", "_hinfo", None)]
            stale = [r for r in need if r not in st]
            ncase += 1
            if not stale:
                if "ok" not in seen:
                    seen.add("ok")
                    chk.ok("R2", A.loc(mainf, n), "at the wake kick the map's offsets and source-map table are up to date with the grid on every path")
                continue
            killers = sorted({k for (f, k) in kl[pos] if f in stale})
            key = "wake-kick:stale:%s:by:%s" % (",".join(f for _, f, _ in stale), ",".join(killers))
            if key not in seen:
                seen.add(key)
                chk.fail("R2", A.loc(mainf, n), "the wake kick is applied with %s computed before %s changed the grid" % (", ".join("wkm." + f for _, f, _ in stale), ", ".join(killers)), key)
    chk.floor("R2-cases", ncase, 4)
    # ---- R3 -------------------------------------------------------------------------------------
    wu = prog.fn("vfps::WakePotentialMap::update", nparams=0)
    chk.used(wu)
    s = I.scan(wu)
    from .common import offset_copy_from_field
    from .. import flow as Fl_
    cp = [c for c in s.calls if c.callee == "std::copy_n"]
    oc = offset_copy_from_field(s)
    ok = oc is not None and oc[3] and oc[0] == "wakePotential(_field)"
    nstores = [a for a in s.accesses if a.kind == "store" and a.base == "_offset" and a.idx is not None and getattr(a, "from_bulk", None) is None]
    # (no element store into _offset other than the copy itself, which the scanner may present both as a loop store and as a copy_n)
    extra_st = [a for a in nstores if not any(c.line == a.line for c in cp) and not (oc is not None and a.line == oc[2])]
    chk.check(ok and not extra_st, "R3", wu.where, "the kick offsets are the field's wake potential, copied without arithmetic", "WakePotentialMap::update:copy")
    # after the offsets changed the source map is rebuilt on every path to the exit (an early return in between leaves the old table in force)
    gw = Fl_.CFG(wu)
    is_upd = Fl_.is_call_to("vfps::KickMap::updateSM")
    mn_u, mx_u = gw.count_on_paths(is_upd)
    chk.check(mn_u is not None and mn_u >= 1, "R3", wu.where, "the source map is rebuilt on every path through update() (min %s, max %s calls of updateSM)" % (mn_u, mx_u),
              "WakePotentialMap::update:updateSM")
    ax_w, _ = c08.class_axis(prog, "vfps::WakePotentialMap")
    ax_r, _ = c08.class_axis(prog, "vfps::RFKickMap")
    chk.check(ax_w == ax_r == "y", "R3", wu.where, "wake kick and RF kick act on the same (energy) axis through KickMap (%s, %s)" % (ax_w, ax_r), "kick-axes:%s:%s" % (ax_w, ax_r))
    wf = [a for a in mm.objs.get("wkm").alts] if "wkm" in mm.objs else []
    fld = mm.member_var("wkm", "_field")
    chk.check(fld == {"wake_field"}, "R3", mainf.where, "the wake map takes its potential from the wake field (not the radiation field): %s" % sorted(fld), "wkm:_field:%s" % sorted(fld))
    chk.check(mm.member_var("wake_field", "_phasespace") == {"grid_t1"} or mm.resolve_path("wake_field", "this._phasespace") == {"grid_t1"}, "R3", mainf.where,
              "the wake field computes the potential from grid_t1, the grid the wake kick reads", "wake_field:_phasespace")
    # ---- R4: RF focusing the wake is balanced against (slope, centre, drift slope: decided under C03) -----------------
    from . import C03 as c03
    sub = type(chk)("C03", chk.tier)
    from .. import main as _main
    _main.check_anchors("C03", prog)
    c03.run(sub, prog)
    r = [i for i in sub.instances if i["rule"] in ("R1", "R3", "R9")]
    for i in r:
        chk.check(i["ok"], "R4", i["site"], "(C03/%s) %s" % (i["rule"], i["what"].split("\n")[0][:220]), "C03-%s:%s" % (i["rule"], i.get("key", "ok")))
    chk.floor("R4-rf-drift-conditions", len(r), 8)
    # the wake kick of bunch n is the one computed from bunch n's wake potential only if the y-kick reader of KickMap::apply uses
    # the rows the wake map wrote for that bunch, with the writer's stride: decided under C08 (R1 reader/writer, R2 rows per class)
    sub8 = type(chk)("C08", chk.tier)
    from .. import main as _main
    _main.check_anchors("C08", prog)
    c08.run(sub8, prog)
    r8 = [i for i in sub8.instances if (i["rule"] == "R1" and ("reader" in i["what"] or "writer" in i["what"])) or (i["rule"] == "R2" and "WakePotentialMap" in i["what"])
          or (i["rule"] == "R4" and "wake" in i["what"])]
    for i in r8:
        chk.check(i["ok"], "R3", i["site"], "(C08/%s) %s" % (i["rule"], i["what"].split("\n")[0][:220]), "C08-%s:%s" % (i["rule"], i.get("key", "ok")))
    chk.floor("R3-wake-kick-rows", len(r8), 10)
    for key_ in list(mm.eff.memo):
        chk.functions.add(key_[0])
    # ---- R5: the source-map table is rebuilt whenever the displacement field changes (a stale table moves the grid by old offsets) ----
    K.offset_table_sync(chk, prog, "R5")
    # ---- R6: the energy distribution stays the unit Gaussian: damping and diffusion are discretised with matching coefficients
    # (stencil moment conditions and gate agreement decided under C04 R1/R2; re-evaluated here)
    from .common import reeval
    reeval(chk, prog, "C04", lambda i: i["rule"] in ("R1", "R2"), "R6", "R6-fokker-planck-moments", 10)
    # ---- R7: the RF focusing the wake is balanced against rotates by the same angle the time step stands for (single angle variable =
    # 2*pi/steps, sinusoidal slope = angle: C03 R2, R6; re-evaluated here)
    from .common import reeval
    reeval(chk, prog, "C03", lambda i: i["rule"] in ("R2", "R6"), "R7", "R7-angle", 6)
    # ---- R8: the recorded wake potential is the convolution the kick is made of: padded layout, plan pipeline, half spectrum and scaling
    # (decided under C06 R1-R4; re-evaluated here)
    from .common import reeval
    reeval(chk, prog, "C06", lambda i: i["rule"] in ("R1", "R2", "R3", "R4"), "R8", "R8-wake-is-the-convolution", 20)
    # ---- RD: dimensional consistency of the quantities this property depends on (sa/dims.py) ----------------------------------------
    from . import dimrules
    nrd = dimrules.run(chk, prog, "RD")
    chk.floor("RD-requirements", nrd or 0, 0)
    # ---- R9: the interpolation adds no diffusion of its own beyond its order -------------------------------------------------------------------------
    # the n-point weights reproduce every moment below n (sum_k w_k*node_k^m = f^m, m < n); a wrong second moment is an artificial diffusion
    # applied with every kick and drift, which the damping cannot balance at unit width (decided under C02 R1; re-evaluated here)
    from .common import reeval
    reeval(chk, prog, "C02", lambda i: i["rule"] == "R1" and "moment" in i["what"], "R9", "R9-interpolation-moments", 8)
    # ---- R10: the RF the wake is balanced against has its zero crossing at the synchronous phase -------------------------------------------------------
    # (static maps are built with the synchronous phase: decided under C19 R2; re-evaluated here)
    from .common import reeval
    reeval(chk, prog, "C19", lambda i: i["rule"] == "R2" and "static constructor" in i["what"], "R10", "R10-static-rf-at-the-synchronous-phase", 1)
    chk.notes.append("C05: step order and grid chaining from the constructor bindings, freshness of the wake offsets at the kick, copy-without-arithmetic. "
                     "NOT decided: that the stationary profile satisfies the Haissinski relation.")
