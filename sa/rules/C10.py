"""C10 — each record of the results file describes one instant, consistently.

Numerical equality of stored numbers with recomputed moments and absolute unit values are NOT decided.
Decided:
 R1  freshness typestate on main (E3 over E4 effect summaries): at every HDF5File::append* site every
     derived quantity the call stores (projections, population, moments, CSR spectrum/intensity, wake
     offsets, padded buffers) is up to date with the grid data stored in the same record, on every
     path; evaluated separately for each combination of the loop-invariant null tests;
 R2  sibling agreement: the loop-head output block and the final-record block perform the same refresh
     calls and the same append calls on the same objects with the same time expression
     (tabled differences: AppendType `at` vs All, appendPadded only at start/end);
 R3  HDF5File: every time-indexed dataset is appended by exactly one _appendData call; the record's
     time is written in the same branch as its eight per-record datasets; each dataset is fed from the
     accessor its path names; all axis indices feeding one axis dataset agree and match its unit;
 R5  the stored position/length/mean energy/spread are computed by the moment formulas of C09/R2 on the axis
     of their own profile (re-evaluated here);
 R4  cadence: records are written iff outstep>0 and step%outstep==0, the record counter advances once
     per output block, the stored time is step/steps, and the final block is reached on every path
     from the loop exit when a results file is open.
"""
import re
import sympy as sp
from .. import ast as A
from .. import flow as Fl
from .. import mainmodel as M
from .. import fresh as F
from ..compdb import AnalysisBroken

from .common import append_data_args

LEVEL = "other"

# HDF5 path -> accessor that must feed it (the file format is the public interface; confirmed by reading)
DATASET_SOURCE = {
    "/PhaseSpace/data": ("vfps::PhaseSpace::getData", ()),
    "/BunchProfile/data": ("vfps::PhaseSpace::getProjection", (0,)),
    "/BunchLength/data": ("vfps::PhaseSpace::getBunchLength", ()),
    "/BunchPosition/data": ("vfps::PhaseSpace::getMoment", (0, 0)),
    "/EnergyProfile/data": ("vfps::PhaseSpace::getProjection", (1,)),
    "/EnergySpread/data": ("vfps::PhaseSpace::getEnergySpread", ()),
    "/EnergyAverage/data": ("vfps::PhaseSpace::getMoment", (1, 0)),
    "/BunchPopulation/data": ("vfps::PhaseSpace::getBunchPopulation", ()),
    "/CSR/Spectrum/data": ("vfps::ElectricField::getCSRSpectrum", ()),
    "/CSR/Intensity/data": ("vfps::ElectricField::getCSRPower", ()),
    "/WakePotential/data": ("vfps::KickMap::getForce", ()),
    "/BunchProfile/padded": ("vfps::ElectricField::getPaddedBunchProfiles", ()),
    "/WakePotential/padded": ("vfps::ElectricField::getPaddedWakePotential", ()),
}
ACCESSOR_FIELD = {"vfps::PhaseSpace::getBunchLength": ("_rms", 0), "vfps::PhaseSpace::getEnergySpread": ("_rms", 1),
                  "vfps::PhaseSpace::getBunchPopulation": ("_filling", None), "vfps::ElectricField::getCSRSpectrum": ("_csrspectrum", None),
                  "vfps::ElectricField::getCSRPower": ("_csrintensity", None), "vfps::KickMap::getForce": ("_offset", None)}
UNIT_AXIS = {"Meter": 0, "ElectronVolt": 1}


def site_kind(mm, node, loop):
    ids = {y["id"] for y in A.walk(loop)}
    if node["id"] in ids:
        return "loop"
    return "final" if node["line"] > loop["line"] else "start"


def what_appended(node):
    a = node.get("args", [])
    t = (a[0].get("ctype") or "") if a else ""
    m = (node.get("callee") or "").split("::")[-1]
    if m == "append":
        if "PhaseSpace" in t:
            return "append(PhaseSpace)"
        if "ElectricField" in t:
            return "append(ElectricField)"
        if "KickMap" in t:
            return "append(WakeKickMap)"
    return m


def _balanced_outer(t):
    """is the first '(' of t closed by its last ')' ?"""
    depth = 0
    for i, ch in enumerate(t):
        if ch == "(":
            depth += 1
        elif ch == ")":
            depth -= 1
            if depth == 0 and i != len(t) - 1:
                return False
    return depth == 0


def run(chk, prog):
    chk.assume("effect summaries are computed for the CPU code path; library calls are summarised by their pointer arguments",
               "H5 library: one _appendData call extends a dataset by one record")
    mm = M.MainModel(prog)
    mainf = mm.fn
    chk.used(mainf)
    loop = mm.main_loop()
    # ---- R1 -----------------------------------------------------------------------------------------
    cases = mm.case_split()
    nsites = 0
    seen = set()
    for asg, g in cases:
        fr = F.Freshness(mm, g)
        fr.run()
        kl = fr.killers()
        for bid, i, n, e in fr.events:
            if e["var"] != "hdf_file" or not e["method"].startswith("append"):
                continue
            st, pos = fr.before(n)
            need = {F.norm_loc(r) for r in e["reads"] if r[1] in F.DERIVED_FIELDS}
            stale = sorted((r for r in need if not any(F.covers(f, r) and (f[2] == r[2] or f[2] is None) for f in st)), key=str)
            kind = site_kind(mm, n, loop)
            what = what_appended(n)
            nsites += 1
            if not stale:
                tag = (kind, what, "ok")
                if tag not in seen:
                    seen.add(tag)
                    chk.ok("R1", A.loc(mainf, n), "%s in the %s block: everything it stores (%d derived quantities) is fresh w.r.t. the stored grid on every path"
                           % (what, kind, len(need)))
                continue
            killers = sorted({k for (f, k) in kl[pos] if f in stale})
            key = "%s:%s:stale:%s:by:%s" % (kind, what, ",".join("%s.%s%s" % (v, f, "" if s is None else "#%s" % s) for v, f, s in stale), ",".join(killers))
            if key in seen:
                continue
            seen.add(key)
            chk.fail("R1", A.loc(mainf, n),
                     "%s in the %s block stores %s that are not recomputed after %s changed the grid (assumption %s)"
                     % (what, kind, ", ".join("%s.%s%s" % (v, f, "" if s is None else "[%s]" % s) for v, f, s in stale), ", ".join(killers) or "?",
                        {k: v for k, v in asg.items() if k in ("hdf_file", "wkm", "drfm")}), key)
    chk.floor("R1-append-sites-x-cases", nsites, 40)

    # ---- R2 sibling agreement ------------------------------------------------------------------------
    idx = mm.idx
    loop_ids = {y["id"] for y in A.walk(loop)}
    ev = mm.events()

    ob_ids_early = {y["id"] for y in A.walk(mm.output_block()["then"])}
    fb_ids_early = {y["id"] for y in A.walk(mm.final_block()[0]["then"])}
    const_locals = {}
    for st_ in A.walk(mainf["body"]):
        if st_.get("k") == "DeclStmt":
            for dd_ in st_.get("decls", []):
                # (names introduced inside one of the two blocks: a value computed before them is the same object in both)
                if dd_.get("k") == "VarDecl" and dd_.get("is_const") and isinstance(dd_.get("init"), dict) and \
                        (st_["id"] in ob_ids_early or st_["id"] in fb_ids_early):
                    const_locals[dd_["decl"]] = A.strip(dd_["init"])

    def block_calls(pred):
        out = []
        for bid, i, n, e in sorted(ev, key=lambda t: t[2]["id"]):
            if pred(n):
                if e["var"] in ("hdf_file", "grid_t1", "rdtn_field", "drfm") and e["method"] not in ("getPastModulation",):
                    args = []
                    for a_ in n.get("args", []):
                        # a const local of main that merely names the argument (const auto t = double(step)/steps) stands for its initialiser
                        d_ = A.declref(a_)
                        if d_ is not None and d_.get("local") and d_.get("decl") in const_locals:
                            a_ = const_locals[d_["decl"]]
                        t = A.show(a_).replace(" ", "")
                        # one spelling for the same object expression: (*p).f() is p->f(), (*p) is *p
                        t = re.sub(r"\(\*(\w+)\)\.", r"\1->", t)
                        t = re.sub(r"^\(\*(\w+)\)$", r"*\1", t)
                        while t.startswith("(") and t.endswith(")") and _balanced_outer(t):
                            t = t[1:-1]
                        args.append(t)
                    out.append((e["var"], e["method"], tuple(args), n))
        return out
    # output block of the loop = then-branch of the `outstep > 0 && ...` test
    outs = [mm.output_block()]
    ob = outs[0]
    ob_ids = {y["id"] for y in A.walk(ob["then"])}
    fb, _fconj = mm.final_block()
    fb_ids = {y["id"] for y in A.walk(fb["then"])}
    lc = block_calls(lambda n: n["id"] in ob_ids)
    fc = block_calls(lambda n: n["id"] in fb_ids)

    def norm(calls):
        out = []
        for v, m_, args, n in calls:
            a2 = tuple("<AppendType>" if ("AppendType" in x or x == "at") else x for x in args)
            out.append((v, m_, a2))
        return out
    ln, fn_ = norm(lc), norm(fc)
    allowed_extra_final = {("hdf_file", "appendPadded")}
    allowed_extra_loop = set()
    ignore = {("grid_t1", "integrate"), ("grid_t1", "integrateAndNormalize")}      # the final block integrates in its if/else head
    ls = [c for c in ln if (c[0], c[1]) not in ignore]
    fs = [c for c in fn_ if (c[0], c[1]) not in ignore and (c[0], c[1]) not in allowed_extra_final]
    chk.check(ls == fs, "R2", A.loc(mainf, fb),
              "loop output block and final block make the same refresh/append calls in the same order\n      loop : %s\n      final: %s"
              % ([("%s.%s" % (a, b)) + str(c) for a, b, c in ls], [("%s.%s" % (a, b)) + str(c) for a, b, c in fs]),
              "blocks-differ:%s|%s" % ([b for a, b, c in ls], [b for a, b, c in fs]))
    fi = [c for c in fn_ if (c[0], c[1]) == ("grid_t1", "integrate") or (c[0], c[1]) == ("grid_t1", "integrateAndNormalize")]
    chk.check(len(fi) >= 1, "R2", A.loc(mainf, fb), "the final block integrates before it reports moments", "final:no-integrate")
    # ---- R3 HDF5File ------------------------------------------------------------------------------------
    hctor = prog.fns("vfps::HDF5File::HDF5File")
    A.require(len(hctor) == 1, "HDF5File constructor not found")
    hc = hctor[0]
    chk.used(hc)
    ds = {}      # member -> (path, unlimited)
    for i in hc["inits"]:
        if i.get("ikind") != "member":
            continue
        calls = [x for x in A.walk(i["expr"]) if (x.get("callee") or "").startswith("vfps::HDF5File::_makeDatasetInfo")]
        if not calls:
            continue
        c = calls[0]
        lit = [y for y in A.walk(c["args"][0]) if y["k"] == "StringLiteral"]
        A.require(len(lit) == 1, "HDF5File: dataset path of %s is not a literal" % i["target"])
        unl = "UNLIMITED" in A.show(c["args"][3]) or any((y.get("const") in (-1, 18446744073709551615)) for y in A.walk(c["args"][3]) if isinstance(y, dict))
        srctxt = ""
        ds[i["target"]] = (lit[0]["value"], None)
    # unlimited: re-read from source text of the initialiser (macro H5S_UNLIMITED expands to a cast constant)
    for i in hc["inits"]:
        if i.get("target") in ds:
            mx = [x for x in A.walk(i["expr"]) if (x.get("callee") or "").startswith("vfps::HDF5File::_makeDatasetInfo")][0]["args"][3]
            first = [y for y in A.walk(mx) if y["k"] == "InitListExpr"]
            unl = False
            if first and first[-1].get("inits"):
                f0 = first[-1]["inits"][0]
                txt = A.show(f0)
                unl = any(isinstance(y.get("const"), int) and (y["const"] == -1 or y["const"] >= 2 ** 63) for y in A.walk(f0)) or "-1" in txt or "18446744073709551615" in txt
            ds[i["target"]] = (ds[i["target"]][0], unl)
    A.require(len(ds) >= 20, "HDF5File: only %d datasets found" % len(ds))
    timeidx = {m_ for m_, (pth, unl) in ds.items() if unl}
    A.require(len(timeidx) >= 15, "HDF5File: only %d time-indexed datasets recognised" % len(timeidx))
    appends = {}
    for f in prog.functions.values():
        if f.get("class") != "vfps::HDF5File" or not f.get("body"):
            continue
        for x in A.walk(f["body"]):
            if (x.get("callee") or "").startswith("vfps::HDF5File::_appendData"):
                m_ = A.this_field(append_data_args(x)[0]) if append_data_args(x)[0] is not None else None
                appends.setdefault(m_, []).append((f, x))
    for m_ in sorted(timeidx):
        sites = appends.get(m_, [])
        chk.check(len(sites) == 1, "R3", hc.where if not sites else A.loc(sites[0][0], sites[0][1]),
                  "time-indexed dataset %s (%s) is appended by exactly one _appendData call (%d)" % (m_, ds[m_][0], len(sites)),
                  "dataset:%s:append-sites:%d" % (ds[m_][0], len(sites)))
    # data sources
    nsrc = 0
    for m_, sites in sorted(appends.items()):
        if m_ not in ds:
            continue
        pth = ds[m_][0]
        want = DATASET_SOURCE.get(pth)
        if want is None:
            continue
        for f, x in sites:
            src = append_data_args(x)[1]
            if src is None:
                raise AnalysisBroken("HDF5File::_appendData call without a data pointer argument at line %d" % x["line"])
            calls = [y for y in A.walk(src) if y.get("k") == "CXXMemberCallExpr" and (y.get("callee") or "").startswith("vfps::") and "HDF5File" not in y["callee"]]
            # local holding the accessor result (auto mean_q = ps.getMoment(0,0))
            d = A.declref(A.strip(A.call_object(A.strip(src))) if A.strip(src).get("k") == "CXXMemberCallExpr" and A.call_object(A.strip(src)) is not None else src)
            if not calls and d is not None:
                for st in A.walk(f["body"]):
                    if st["k"] == "DeclStmt":
                        for dd in st["decls"]:
                            if dd.get("decl") == d["decl"] and "init" in dd:
                                calls = [y for y in A.walk(dd["init"]) if y.get("k") == "CXXMemberCallExpr" and (y.get("callee") or "").startswith("vfps::")]
            if not calls and d is not None:
                # a local buffer packed from the accessor: copy_n(<accessor expr>, n, <buffer expr>), or the copy loop that means the same
                from .. import indexmap as I_
                fs_ = I_.scan(f)
                for cp_ in I_.copies(fs_):
                    if any(str(z_) == d["name"] for z_ in cp_["dst"].free_symbols):
                        # the pointer term of the source: an accessor call standing alone as a summand (offsets are products)
                        terms_ = sp.Add.make_args(sp.expand(cp_["src"]))
                        fnames = {str(z_.func) for z_ in terms_ if z_.is_Function}
                        calls = [c_.node for c_ in fs_.calls if c_.node.get("k") == "CXXMemberCallExpr" and (c_.callee or "").startswith("vfps::") and
                                 "HDF5File" not in c_.callee and c_.callee.split("::")[-1] in fnames]
                        if calls:
                            break
            got = None
            if calls:
                c = calls[0]
                vals = tuple((A.strip(a_).get("value", A.strip(a_).get("const"))) for a_ in c.get("args", []))
                got = (c["callee"], vals)
            if got is None:
                # the data pointer is neither an accessor call, nor a local initialised from one, nor a buffer packed by a recognised copy:
                # where the numbers come from is not established, which is not evidence that they come from the wrong place
                raise AnalysisBroken("HDF5File: the source of dataset %s at line %d is not identified (pointer `%s`)" % (pth, x["line"], A.show(src)[:60]))
            chk.check(got == want, "R3", A.loc(f, x), "dataset %s is fed from %s%s (got %s)" % (pth, want[0].split("::")[-1], want[1], got),
                      "dataset:%s:source:%s" % (pth, got))
            nsrc += 1
    chk.floor("R3-dataset-sources", nsrc, 12)
    for acc, (fld, sel) in ACCESSOR_FIELD.items():
        f = prog.fn(acc)
        rets = [y for y in A.walk(f["body"]) if y["k"] == "ReturnStmt"]
        ok = len(rets) == 1
        if ok:
            r = A.strip(rets[0]["c"][0])
            t = A.show(r).replace(" ", "")
            ok = t.startswith(fld) and (sel is None or ("[%d]" % sel) in t)
        chk.check(ok, "R3", f.where, "%s returns %s%s" % (acc.split("::")[-1], fld, "" if sel is None else "[%d]" % sel), "accessor:%s" % acc)
    # ---- R3(c): row shapes.  A record is written as one contiguous block of prod(dims[1:]) values: every dimension but the
    # first of the record must equal the corresponding extent of the source array (a shorter row would pick up the tail of
    # the previous bunch's row), unless the source is a local buffer packed row by row with exactly that stride.
    from .. import indexmap as I
    from . import sizemodel as S
    def extents_of(cls_ctor_q, field):
        for c in prog.fns(cls_ctor_q):
            for i in c.get("inits", []):
                if i.get("target") != field:
                    continue
                out = []
                for x in A.walk(i["expr"]):
                    if x["k"] == "CXXOperatorCallExpr" and x.get("op") == "[]" and "extent" in (x.get("callee") or "").lower():
                        out.append(x)
                if out:
                    # outermost chain: collect subscripts from innermost to outermost
                    chain = []
                    cur = max(out, key=lambda z: len(A.show(z)))
                    sc = I.Scanner(c)
                    while cur.get("k") == "CXXOperatorCallExpr" and cur.get("op") == "[]":
                        chain.append(S.norm(sc._try(cur["args"][1])))
                        cur = A.strip(cur["args"][0], casts=False)
                    return list(reversed(chain))
        return None
    NMAXR = sp.Symbol("nmax_rdtn", positive=True)
    field_shape = {
        ("vfps::PhaseSpace", "_projection"): extents_of("vfps::PhaseSpace::PhaseSpace", "_projection"),
        ("vfps::PhaseSpace", "_data"): extents_of("vfps::PhaseSpace::PhaseSpace", "_data"),
        ("vfps::PhaseSpace", "_moment"): extents_of("vfps::PhaseSpace::PhaseSpace", "_moment"),
        ("vfps::PhaseSpace", "_rms"): extents_of("vfps::PhaseSpace::PhaseSpace", "_rms"),
        ("vfps::ElectricField", "_csrspectrum"): extents_of("vfps::ElectricField::ElectricField", "_csrspectrum"),
        ("vfps::ElectricField", "_csrintensity"): extents_of("vfps::ElectricField::ElectricField", "_csrintensity"),
    }
    A.require(all(v is not None for v in field_shape.values()), "multi_array extents of the stored arrays not found")
    nm = sp.Symbol("_nmax", real=True)
    nbn = sp.Symbol("_nbunches", real=True)
    src_shape = {
        "vfps::PhaseSpace::getData": field_shape[("vfps::PhaseSpace", "_data")],
        "vfps::PhaseSpace::getProjection": field_shape[("vfps::PhaseSpace", "_projection")][1:],
        "vfps::PhaseSpace::getMoment": field_shape[("vfps::PhaseSpace", "_moment")][2:],
        "vfps::PhaseSpace::getBunchLength": field_shape[("vfps::PhaseSpace", "_rms")][1:],
        "vfps::PhaseSpace::getEnergySpread": field_shape[("vfps::PhaseSpace", "_rms")][1:],
        "vfps::ElectricField::getCSRSpectrum": [e_.subs({nm: NMAXR, nbn: S.B}) for e_ in field_shape[("vfps::ElectricField", "_csrspectrum")]],
        "vfps::ElectricField::getCSRPower": [e_.subs({nbn: S.B}) for e_ in field_shape[("vfps::ElectricField", "_csrintensity")]],
    }
    hsc = I.Scanner(hc)
    hsub = {sp.Symbol("_nBunches", real=True): S.B, sp.Symbol("_psSizeX", real=True): S.N, sp.Symbol("_psSizeY", real=True): S.N,
            sp.Symbol("_maxn", real=True): sp.floor(NMAXR / 2)}
    hini = {i.get("target"): hsc._try(i["expr"]) for i in hc["inits"] if i.get("ikind") == "member" and i.get("target") in ("_maxn", "_nBunches", "_psSizeX", "_psSizeY")}
    okm = hini.get("_maxn") is not None and "getNMax" in str(hini["_maxn"]) and "floor" in str(hini["_maxn"])
    chk.check(okm, "R3", hc.where, "_maxn is half the radiation field's transform length (%s)" % hini.get("_maxn"), "HDF5File:_maxn:%s" % hini.get("_maxn"))
    gn = prog.fn("vfps::ElectricField::getNMax")
    rr = [y for y in A.walk(gn["body"]) if y["k"] == "ReturnStmt"]
    chk.check(len(rr) == 1 and A.this_field(rr[0]["c"][0]) == "_nmax", "R3", gn.where, "getNMax() returns the field's _nmax (row length of its spectra)", "getNMax")
    ds_dims = {}
    for i in hc["inits"]:
        if i.get("target") in ds:
            c_ = [x for x in A.walk(i["expr"]) if (x.get("callee") or "").startswith("vfps::HDF5File::_makeDatasetInfo")][0]
            il = [y for y in A.walk(c_["args"][1]) if y["k"] == "InitListExpr"]
            if il:
                dd = [hsc._try(z) for z in il[-1]["inits"]]
                ds_dims[i["target"]] = [S.norm(e_).subs(hsub) if e_ is not None else None for e_ in dd]
    nshape = 0
    for m_, sites in sorted(appends.items()):
        if m_ not in ds or DATASET_SOURCE.get(ds[m_][0]) is None:
            continue
        acc_name = DATASET_SOURCE[ds[m_][0]][0]
        if acc_name not in src_shape:
            continue
        rec = ds_dims.get(m_, [None])[1:]
        want = src_shape[acc_name]
        for f, x in sites:
            src = A.strip(append_data_args(x)[1]) if append_data_args(x)[1] is not None else {}
            direct = any(y.get("k") == "CXXMemberCallExpr" and y.get("callee") == acc_name for y in A.walk(src))
            # accessor result held in a local (auto mean_q = ps.getMoment(0,0)) is still the array itself
            dl = A.declref(A.strip(A.call_object(src))) if src.get("k") == "CXXMemberCallExpr" and A.call_object(src) is not None else None
            if not direct and dl is not None:
                for st in A.walk(f["body"]):
                    if st["k"] == "DeclStmt":
                        for dd in st["decls"]:
                            if dd.get("decl") == dl["decl"] and "init" in dd and any(y.get("callee") == acc_name for y in A.walk(dd["init"])) and \
                                    "vector" not in (dd.get("ctype") or ""):
                                direct = True
            nshape += 1
            if direct:
                ok = len(rec) == len(want) and all(r_ is not None and sp.simplify(r_ - w_) == 0 for r_, w_ in zip(rec[1:], want[1:]))
                chk.check(ok, "R3", A.loc(f, x), "record shape %s of %s agrees with the source array %s in every dimension but the first (contiguous block write)"
                          % (rec, ds[m_][0], want), "dataset:%s:row-shape:%s:vs:%s" % (ds[m_][0], rec, want))
            else:
                # packed local buffer: size prod(rec); filled by copy_n(src + b*stride_src, rowlen, buf + b*rowlen)
                fs = I.scan(f)
                cps = [c_ for c_ in fs.calls if c_.callee == "std::copy_n" and c_.loops]
                ok = False
                why = "no row-wise packing loop found"
                for c_ in cps:
                    L = c_.loops[-1]
                    a0, ln, a2 = c_.args
                    if a0 is None or ln is None or a2 is None:
                        continue
                    rowlen = S.norm(ln).subs(hsub)
                    s_stride = sp.expand(a0).coeff(L.sym, 1)
                    d_stride = sp.expand(a2).coeff(L.sym, 1)
                    nm_loc = [sym for sym in s_stride.free_symbols]
                    src_row = want[-1]
                    # the source stride must be the source row extent (nmax = ef->getNMax())
                    s_ok = "getNMax" in str(s_stride) or sp.simplify(S.norm(s_stride).subs(hsub) - src_row) == 0
                    ok = len(rec) == 2 and sp.simplify(rowlen - rec[1]) == 0 and sp.simplify(S.norm(d_stride).subs(hsub) - rec[1]) == 0 and s_ok and \
                        L.lo == 0 and sp.simplify(S.norm(L.hi).subs(hsub) - rec[0]) == 0
                    why = "rows of %s values copied from stride %s to stride %s for b in [%s,%s)" % (rowlen, s_stride, d_stride, L.lo, L.hi)
                    if ok:
                        break
                root_ = A.declref(A.strip(A.call_object(src))) if src.get("k") == "CXXMemberCallExpr" and A.call_object(src) is not None else A.declref(src)
                is_local_buf = root_ is not None and root_.get("local") and "vector" in (root_.get("ctype") or "")
                if not cps and is_local_buf:
                    raise AnalysisBroken("HDF5File: %s is written from a local buffer whose packing is not a row-wise std::copy_n (line %d): not judged" % (ds[m_][0], x["line"]))
                chk.check(ok, "R3", A.loc(f, x), "%s is written from a local buffer packed row by row with the record's row length (%s)" % (ds[m_][0], why),
                          "dataset:%s:packed-rows" % ds[m_][0])
    chk.floor("R3-row-shapes", nshape, 8)
    # the time axis is written in the same branch as the per-record datasets of append(PhaseSpace)
    ap = [f for f in prog.fns("vfps::HDF5File::append") if "PhaseSpace" in f["sig"]]
    A.require(len(ap) == 1, "HDF5File::append(PhaseSpace) not found")
    ap = ap[0]
    chk.used(ap)
    aidx = A.index(ap)
    bybranch = {}
    for x in A.walk(ap["body"]):
        if (x.get("callee") or "").startswith("vfps::HDF5File::_appendData"):
            enc = A.enclosing(aidx, x, {"IfStmt"})
            bybranch.setdefault(enc[0]["id"] if enc else None, []).append(A.this_field(append_data_args(x)[0]) if append_data_args(x)[0] is not None else None)
    groups = sorted(bybranch.values(), key=len)
    ok = len(groups) == 2 and set(groups[0]) == {"_timeAxisPS", "_phaseSpace"} and "_timeAxis" in groups[1] and len(groups[1]) == 8
    chk.check(ok, "R3", ap.where, "append(PhaseSpace): {time of phase space, phase space} and {time, 7 per-record datasets} are each written in one branch (%s)" % groups,
              "append(PhaseSpace):branches:%s" % groups)
    for br in groups:
        taxis = [m_ for m_ in br if "timeAxis" in m_]
        chk.check(len(taxis) == 1, "R3", ap.where, "each branch writes exactly one time value (%s)" % taxis, "append(PhaseSpace):time-per-branch:%s" % taxis)
    tvals = [A.show(append_data_args(x)[1]).replace(" ", "") for x in A.walk(ap["body"]) if (x.get("callee") or "").startswith("vfps::HDF5File::_appendData") and
             append_data_args(x)[0] is not None and append_data_args(x)[1] is not None and "timeAxis" in (A.this_field(append_data_args(x)[0]) or "")]
    chk.check(tvals and all(t == "&t" for t in tvals), "R3", ap.where, "the time written is the call's time parameter", "append(PhaseSpace):time-value:%s" % tvals)
    # axis agreement in the constructor
    body = hc["body"]
    loc_axis = {}       # local variable decl -> (axis index, unit literal)
    for st in A.walk(body):
        if st["k"] == "DeclStmt":
            for d in st["decls"]:
                if d.get("k") == "VarDecl" and "init" in d:
                    for y in A.walk(d["init"]):
                        if y.get("callee") == "vfps::PhaseSpace::getScale" and len(y.get("args", [])) == 2:
                            lit = [z for z in A.walk(y["args"][1]) if z["k"] == "StringLiteral"]
                            k_ = A.strip(y["args"][0]).get("value")
                            loc_axis[d["decl"]] = (k_, lit[0]["value"] if lit else None, d["name"])
                    # derived locals (ax_z_seconds = ax_z_meter/c)
                    for y in A.walk(d["init"]):
                        if y["k"] == "DeclRefExpr" and y["decl"] in loc_axis and d["decl"] not in loc_axis:
                            loc_axis[d["decl"]] = (loc_axis[y["decl"]][0], None, d["name"])
    for dcl, (k_, unit, nm) in loc_axis.items():
        if unit is not None:
            chk.check(UNIT_AXIS.get(unit) == k_, "R3", hc.where, "scale '%s' is taken from axis %s (local %s)" % (unit, UNIT_AXIS.get(unit), nm),
                      "HDF5File:ctor:scale:%s:axis:%s" % (unit, k_))
    per_ds = {}
    # write sites: written out in the constructor, or inside a local helper lambda called with (dataset, unit, value) - then the
    # lambda's parameters stand for the arguments of each call
    lambdas_ = {}
    lam_ids = set()
    for st in A.walk(body):
        if st["k"] == "DeclStmt":
            for d in st["decls"]:
                if d.get("k") == "VarDecl" and "init" in d:
                    lm = [y for y in A.walk(d["init"]) if y.get("k") == "LambdaExpr" and y.get("body") is not None and y.get("params") is not None]
                    if lm:
                        lambdas_[d["decl"]] = lm[0]
                        lam_ids |= {y["id"] for y in A.walk(lm[0]["body"])}

    def walk_s(node, mapping):
        for y in A.walk(node):
            if y.get("k") == "DeclRefExpr" and y.get("decl") in mapping:
                for z in A.walk(mapping[y["decl"]]):
                    yield z
            else:
                yield y
    write_sites = []
    for x in A.walk(body):
        if x.get("k") == "CXXMemberCallExpr" and (x.get("callee") or "").split("::")[-1] == "write" and x["id"] not in lam_ids:
            write_sites.append((x, {}, x))
        if x.get("k") == "CXXOperatorCallExpr" and x.get("op") == "()" and x.get("args") and (A.declref(x["args"][0]) or {}).get("decl") in lambdas_:
            lm = lambdas_[A.declref(x["args"][0])["decl"]]
            mapping = {p_["decl"]: a_ for p_, a_ in zip(lm["params"], x["args"][1:])}
            for y in A.walk(lm["body"]):
                if y.get("k") == "CXXMemberCallExpr" and (y.get("callee") or "").split("::")[-1] == "write":
                    write_sites.append((y, mapping, x))
    for x, mapping, site_node in write_sites:
        if True:
            # <member>.dataset.createAttribute("Unit",...).write(type, &local)   or   <member>.dataset.write(data, type)
            m_ = None
            unit = None
            for y in walk_s(A.call_object(x), mapping):
                f_ = A.this_field(y) if y.get("k") == "MemberExpr" else None
                if f_ in ds:
                    m_ = f_
                if y.get("k") == "CXXMemberCallExpr" and (y.get("callee") or "").endswith("createAttribute"):
                    lit = [z for z in walk_s(y["args"][0], mapping) if z["k"] == "StringLiteral"]
                    unit = lit[0]["value"] if lit else None
            if m_ is None:
                continue
            axes = set()
            for a_ in x.get("args", []):
                for y in walk_s(a_, mapping):
                    if y.get("callee") in ("vfps::PhaseSpace::getAxis", "vfps::PhaseSpace::getScale") and y.get("args"):
                        axes.add(A.strip(y["args"][0]).get("value"))
                    if y["k"] == "DeclRefExpr" and y["decl"] in loc_axis:
                        axes.add(loc_axis[y["decl"]][0])
            if axes:
                per_ds.setdefault(m_, []).append((axes, unit, site_node))
    nax = 0
    for m_, uses in sorted(per_ds.items()):
        allax = set()
        for axes, unit, x in uses:
            allax |= axes
        chk.check(len(allax) == 1, "R3", A.loc(hc, uses[0][2]), "everything written to %s (%s: data and unit attributes) comes from one axis (%s)" % (m_, ds[m_][0], sorted(allax)),
                  "HDF5File:ctor:%s:axes:%s" % (ds[m_][0], sorted(allax)))
        nax += 1
        for axes, unit, x in uses:
            if unit in UNIT_AXIS:
                chk.check(axes == {UNIT_AXIS[unit]}, "R3", A.loc(hc, x), "attribute '%s' of %s uses axis %d" % (unit, ds[m_][0], UNIT_AXIS[unit]),
                          "HDF5File:ctor:%s:unit:%s:axes:%s" % (ds[m_][0], unit, sorted(axes)))
    chk.floor("R3-axis-datasets", nax, 4)
    want_axis = {"/Info/AxisValues_z": 0, "/Info/AxisValues_E": 1}
    for m_, uses in per_ds.items():
        if ds[m_][0] in want_axis:
            allax = set().union(*[a for a, u, x in uses])
            chk.check(allax == {want_axis[ds[m_][0]]}, "R3", A.loc(hc, uses[0][2]), "%s holds the coordinates of axis %d (%s)" % (ds[m_][0], want_axis[ds[m_][0]], sorted(allax)),
                      "HDF5File:ctor:%s:axis:%s" % (ds[m_][0], sorted(allax)))
    # ---- R4 cadence -----------------------------------------------------------------------------------------
    ct = A.show(ob["cond"]).replace(" ", "")
    chk.check(ct in ("outstep>0&&simulationstep%outstep==0", "(outstep>0&&simulationstep%outstep==0)"), "R4", A.loc(mainf, ob),
              "records are written iff outstep > 0 and simulationstep mod outstep == 0 (%s)" % ct, "main:output-condition:%s" % ct)
    g = mm.cfg
    incs = [x for x in A.walk(ob["then"]) if x["k"] == "UnaryOperator" and x["op"] == "++" and (A.declref(x["c"][0]) or {}).get("name") == "outstepnr"]
    inc_enc = [A.enclosing(idx, x, {"IfStmt", "WhileStmt", "ForStmt"}) for x in incs]
    ok = len(incs) == 1 and inc_enc[0] and inc_enc[0][0]["id"] == ob["id"]
    others = [x for x in A.walk(mainf["body"]) if x["k"] in ("UnaryOperator", "BinaryOperator", "CompoundAssignOperator") and x.get("op") in ("++", "--", "=", "+=", "-=")
              and (A.declref(x["c"][0]) or {}).get("name") == "outstepnr" and x["id"] not in {i_["id"] for i_ in incs}]
    chk.check(ok and not others, "R4", A.loc(mainf, ob), "the record counter advances exactly once per output block, independent of the results file", "main:outstepnr")
    times = set()
    for v, m_, args, n in lc + fc:
        if m_ == "append" and len(args) == 3:
            t_ = args[1]
            while t_.startswith("(") and t_.endswith(")") and _balanced_outer(t_):
                t_ = t_[1:-1]
            times.add(t_)
    chk.check(times == {"static_cast<double>(simulationstep)/steps"} or times == {"double(simulationstep)/steps"}, "R4", A.loc(mainf, ob),
              "the stored time is simulationstep/steps (synchrotron periods) at every record (%s)" % sorted(times), "main:time-expression:%s" % sorted(times))
    # final block reached from the loop exit on every path when hdf_file != nullptr
    fin_enc = A.enclosing(idx, fb, {"IfStmt", "WhileStmt", "ForStmt", "SwitchStmt"})
    chk.check(not fin_enc, "R4", A.loc(mainf, fb), "the final-record block is guarded by `hdf_file != nullptr` only", "main:final-block-guard")
    rets = [x for x in A.walk(mainf["body"]) if x["k"] == "ReturnStmt" and loop["line"] <= x["line"] < fb["line"]]
    chk.check(not rets, "R4", A.loc(mainf, fb), "no return between the loop and the final record", "main:return-before-final")
    # ---- R5: the stored moments are the moments of the stored profiles (formulas decided under C09/R2) ------------
    from . import C09 as c09
    sub = type(chk)("C09", chk.tier)
    from .. import main as _main
    _main.check_anchors("C09", prog)
    c09.run(sub, prog)
    r2 = [i for i in sub.instances if i["rule"] == "R2" and any(t in i["what"] for t in ("average", "variance", "rms", "filling[n]", "P[0]", "P[1]"))]
    for i in r2:
        chk.check(i["ok"], "R5", i["site"], "(C09/R2) " + i["what"].split("\n")[0][:200], "C09-R2:" + i.get("key", "ok"))
    chk.floor("R5-moment-formulas", len(r2), 8)
    # ---- R6: the objects a record is fed from belong together ---------------------------------------------------
    # the impedance written to /Impedance is the one the stored wake potential was computed with, and the file, the fields
    # and the wake map all describe the same grid: read off the constructor arguments in main
    def ctor_args(cls):
        out = []
        for x in A.walk(mainf["body"]):
            ce = None
            if x["k"] == "CXXNewExpr" and (x.get("alloc_type") or "") == cls:
                ce = [y for y in A.walk(x) if y["k"] == "CXXConstructExpr"]
            elif x["k"] == "DeclStmt":
                ce = [A.strip(d["init"], casts=False) for d in x["decls"] if d.get("k") == "VarDecl" and (d.get("ctype") or d.get("type") or "").replace("class ", "") == cls
                      and "init" in d and A.strip(d["init"], casts=False).get("k") == "CXXConstructExpr"]
            if ce:
                c_ = ce[0]

                def nm(a_):
                    t = A.show(A.strip(a_)).replace(" ", "")
                    m_ = re.match(r"^(?:std::)?shared_ptr\((\w+)\)$", t)
                    return m_.group(1) if m_ else t.lstrip("&")
                out.append((x, dict(zip(c_.get("callee_params", []), [nm(a_) for a_ in c_.get("args", [])]))))
        return out
    hf = ctor_args("vfps::HDF5File")
    efs = ctor_args("vfps::ElectricField")
    wms = ctor_args("vfps::WakePotentialMap")
    A.require(len(hf) == 1 and len(efs) >= 2 and len(wms) == 1, "main: constructors of HDF5File / ElectricField / WakePotentialMap not found (%d, %d, %d)" % (len(hf), len(efs), len(wms)))
    hfa = hf[0][1]
    # which field variable is which: the one handed to the wake map and to appendPadded is the wake field
    wake_var = wms[0][1].get("field")
    field_imp = {}
    for x, a_ in efs:
        var = None
        if x["k"] == "DeclStmt":
            var = [d["name"] for d in x["decls"] if d.get("k") == "VarDecl"][0]
        else:
            for y, lhs, op, rhs in A.assignments_in(mainf["body"]):
                if x["id"] in {t["id"] for t in A.walk(rhs)}:
                    var = (A.declref(lhs) or {}).get("name")
        field_imp[var] = a_
    site6 = A.loc(mainf, hf[0][0])
    chk.check(wake_var in field_imp, "R6", A.loc(mainf, wms[0][0]), "the wake map is built from a field constructed in main (%s)" % wake_var, "main:wake-field:%s" % wake_var)
    padded = {A.show(A.strip(x["args"][0])).replace(" ", "") for x in A.walk(mainf["body"]) if x.get("k") == "CXXMemberCallExpr" and (x.get("callee") or "").endswith("HDF5File::appendPadded")}
    chk.check(padded == {wake_var}, "R6", site6, "the padded profile / wake potential stored are those of the field the wake map uses (%s)" % sorted(padded), "main:appendPadded-object:%s" % sorted(padded))
    if wake_var in field_imp:
        chk.check(hfa.get("imp") == field_imp[wake_var].get("impedance"), "R6", site6,
                  "the impedance stored in the file (%s) is the one the stored wake potential is computed with (%s)" % (hfa.get("imp"), field_imp[wake_var].get("impedance")),
                  "main:stored-impedance:%s:%s" % (hfa.get("imp"), field_imp[wake_var].get("impedance")))
    csr_var = hfa.get("ef")
    chk.check(csr_var in field_imp and csr_var != wake_var, "R6", site6, "the file takes its frequency axis from the radiation field (%s)" % csr_var, "main:file-field:%s" % csr_var)
    appended_fields = {A.show(A.strip(x["args"][0])).replace(" ", "").lstrip("&") for x in A.walk(mainf["body"]) if x.get("k") == "CXXMemberCallExpr" and
                       (x.get("callee_sig") or "").startswith("vfps::HDF5File::append(const vfps::ElectricField")}
    chk.check(appended_fields == {csr_var}, "R6", site6, "the CSR spectrum/intensity stored are those of the field the file was laid out for (%s)" % sorted(appended_fields),
              "main:append-field-object:%s" % sorted(appended_fields))
    grids = {hfa.get("ps"), wms[0][1].get("in")} | {a_.get("ps") for a_ in field_imp.values()}
    chk.check(grids == {"grid_t1"}, "R6", site6, "file, fields and wake map all describe grid_t1 (%s)" % sorted(str(g_) for g_ in grids), "main:record-grid:%s" % sorted(str(g_) for g_ in grids))
    for key_ in list(mm.eff.memo):
        chk.functions.add(key_[0])
    # ---- R7: relations between sibling unit factors (values, not only dimensions; both sides read off the code) ---------------------------
    # one record-time unit divided by the steps per unit is one step; turns = seconds * f_rev; seconds = metres / c; coulombs * f_rev = amperes;
    # volts per turn * fraction of a turn per step = energy-cell size in eV; watts = watts-per-hertz * hertz-scale of the field's frequency axis
    from .. import indexmap as I2
    from . import gridmodel as G2
    sm7 = I2.scan(mainf)
    loc7 = {d["name"]: sm7.tr.env.get(k) for k, d in sm7.locals.items()}
    hnew = [A.strip(t["init"], casts=False) for t in A.walk(mainf["body"]) if t["k"] == "CXXNewExpr" and (t.get("alloc_type") or "").endswith("HDF5File")]
    A.require(len(hnew) == 1, "main: construction of the results file not found")
    hargs = {n_: sm7._try(a_) for n_, a_ in zip(hnew[0].get("callee_params", []), hnew[0]["args"])}
    site7 = A.loc(mainf, hnew[0])

    def same(a_, b_):
        return a_ is not None and b_ is not None and sp.simplify(a_ - b_) == 0
    chk.check(same(hargs.get("t_sync") / loc7["steps"] if hargs.get("t_sync") is not None and loc7.get("steps") is not None else None, loc7.get("dt")), "R7", site7,
              "the time unit of the records (\"Second\" of the time axis, %s) divided by the steps per unit is the step dt (%s)" % (hargs.get("t_sync"), loc7.get("dt")),
              "units:time-unit-vs-dt")
    chk.check(same(hargs.get("f_rev"), loc7.get("f_rev")), "R7", site7, "the file converts seconds to turns with the revolution frequency of the run (%s)" % hargs.get("f_rev"), "units:f_rev")
    chk.check(same(loc7.get("Qb") * loc7.get("f_rev") if loc7.get("Qb") is not None and loc7.get("f_rev") is not None else None, loc7.get("Ib")), "R7", site7,
              "bunch charge times revolution frequency is the beam current (\"Coulomb\" vs \"Ampere\": %s)" % loc7.get("Qb"), "units:charge-vs-current")
    hcs = I2.scan(hc, hooks=[G2.make_hook()])
    hv = {a_.base: a_.value for a_ in hcs.accesses if a_.kind == "store" and a_.idx is None and a_.value is not None}
    def expand_locals(v_):
        for _ in range(6):
            m2 = {t_: hv[str(t_)] for t_ in v_.free_symbols if str(t_) in hv and hv[str(t_)] is not None}
            if not m2:
                break
            v_ = v_.subs(m2)
        return sp.simplify(v_)
    # the value written as "Second" of the position axis: the local whose address the attribute writer receives
    sec_names = []
    for x in A.walk(hc["body"]):
        if x.get("k") == "CXXMemberCallExpr" and (x.get("callee") or "").endswith("::write") and x.get("args"):
            o_ = A.strip(A.call_object(x)) if A.call_object(x) is not None else None
            if o_ is not None and o_.get("k") == "CXXMemberCallExpr" and (o_.get("callee") or "").endswith("::createAttribute") and o_.get("args"):
                unit_ = [y.get("value") for y in A.walk(o_["args"][0]) if y.get("k") == "StringLiteral"]
                holder_ = A.show(A.call_object(o_)) if A.call_object(o_) is not None else ""
                if unit_ == ["Second"] and "_positionAxis" in holder_:
                    d_ = [y for y in A.walk(x["args"][-1]) if y.get("k") == "DeclRefExpr" and y.get("dkind") == "Var"]
                    sec_names += [y["name"] for y in d_]
    okm = False
    secv = None
    if len(sec_names) == 1 and hv.get(sec_names[0]) is not None:
        secv = expand_locals(hv[sec_names[0]])
        okm = sp.simplify(secv * sp.Symbol("physcons_c", real=True) - sp.Symbol("AX0_scale_Meter", positive=True)) == 0
    elif not sec_names:
        # the attribute is written through a helper (lambda): fall back to the only local whose value is <Meter scale>/c
        cands = [expand_locals(v_) for v_ in hv.values() if v_ is not None]
        okm = any(sp.simplify(v_ * sp.Symbol("physcons_c", real=True) - sp.Symbol("AX0_scale_Meter", positive=True)) == 0 for v_ in cands)
    chk.check(okm, "R7", hc.where, "\"Second\" of the position axis times c is its \"Meter\" scale (%s)" % secv, "units:seconds-vs-metres")
    trn = [v_ for v_ in hv.values() if {str(t_) for t_ in v_.free_symbols} == {"f_rev", "t_sync"}]
    chk.check(len(trn) == 1 and same(trn[0], sp.Symbol("f_rev", real=True) * sp.Symbol("t_sync", real=True)), "R7", hc.where,
              "\"Turn\" of the time axis = \"Second\" * f_rev (%s)" % (trn[0] if trn else None), "units:turns-vs-seconds")
    ec8 = [c_ for c_ in prog.fns("vfps::ElectricField::ElectricField") if len(c_["params"]) == 8]
    A.require(len(ec8) == 1, "ElectricField base constructor not found")
    ev7 = {a_.base: a_.value for a_ in I2.scan(ec8[0], hooks=[G2.make_hook()]).accesses if a_.kind == "store" and a_.idx is None and a_.value is not None}
    want_v = sp.Symbol("AX1_delta", real=True) * sp.Symbol("AX1_scale_ElectronVolt", positive=True)
    chk.check(ev7.get("volts") is not None and same(ev7["volts"] * sp.Symbol("revolutionpart", real=True), want_v) or
              (ev7.get("volts") is not None and sp.simplify(ev7["volts"] * sp.Symbol("revolutionpart", real=True) / G2.AX(1, "delta")).free_symbols <= {sp.Symbol("AX1_scale_ElectronVolt", positive=True)}),
              "R7", ec8[0].where, "\"Volt\" (per turn) times the fraction of a turn per step is one energy cell in eV (%s)" % ev7.get("volts"), "units:volts-per-turn")
    fw, fwh = ev7.get("factor4Watts"), ev7.get("factor4WattPerHertz")
    okw = fw is not None and fwh is not None and any(str(t_) == "factor4WattPerHertz" for t_ in fw.free_symbols) and \
        "Hertz" in str(sp.simplify(fw / sp.Symbol("factor4WattPerHertz", real=True))) and "_axis_freq" in str(fw)
    chk.check(okw, "R7", ec8[0].where, "\"Watt\" = \"WattPerHertz\" * Hertz scale of the field's own frequency axis (%s)" % fw, "units:watts-vs-watts-per-hertz")
    # ---- R8: the stored CSR intensity of bunch n is the sum of the stored spectrum of bunch n (decided under C07 R1; re-evaluated here) -------
    from .common import reeval
    reeval(chk, prog, "C07", lambda i: i["rule"] == "R1" and "intensity" in i["what"], "R8", "R8-intensity-is-sum-of-spectrum", 2)
    # ---- R9: "the stored wake potential is the convolution of that profile with the stored impedance" (C06 R1-R4; re-evaluated here) -----
    reeval(chk, prog, "C06", lambda i: i["rule"] in ("R1", "R2", "R3", "R4"), "R9", "R9-wake-is-the-convolution", 20)
    # ---- RD: dimensional consistency of the quantities this property depends on (sa/dims.py) ----------------------------------------
    from . import dimrules
    nrd = dimrules.run(chk, prog, "RD")
    chk.floor("RD-requirements", nrd or 0, 30)
    # ---- R10: "the axes hold the grid coordinates actually used" ------------------------------------------------------------------------------------
    # the stored axes are the rulers of the grid; the dynamics use the same coordinates only if the RF kick vanishes at the ruler's zero bin and
    # the drift where the energy coordinate is zero (decided under C03 R3; re-evaluated here: a kick centred on the middle of the grid is off on
    # a shifted grid)
    from .common import reeval
    reeval(chk, prog, "C03", lambda i: i["rule"] == "R3" and not i["what"].startswith("(C01/") and ("vanishes" in i["what"] or "centre" in i["what"]), "R10", "R10-coordinates-actually-used", 2)
    chk.notes.append("C10: freshness typestate at all append sites x %d invariant cases, block agreement, dataset/accessor/axis tables of HDF5File, cadence. "
                     "NOT decided: numerical equality of stored moments, absolute unit factors." % len(cases))
