"""C01 — every transport step conserves charge inside the grid.

The operator of each step is out[d] = sum_k w_k(d) * in[src_k(d)].  Charge is
conserved in the interior iff every column of that operator sums to one; that
is a statement about weight formulas and index maps, decided here on the code
in exact real arithmetic:
 R1  interpolation weights: count == order and sum == 1 for every order;
 R2  kick maps are shift-invariant along the kick direction: the weight set of
     a row does not depend on the position along the kick, sources are the
     destination shifted by (stored index - centre), the `_it` sources written
     for one row are consecutive and carry one complete weight set;
 R3  Fokker-Planck stencils: interior column sums == 1; around the row where
     the one-sided cubic stencil switches sides the defect is proportional to
     the damping decrement and vanishes beyond the stencil width; every table
     row is written;
 R4  Identity copies all B*N*N cells;
 R5  FokkerPlanckMap::apply: source and destination share bunch and x row;
     the stencil table is indexed by the energy row only.
"""
import sympy as sp
from .. import ast as A
from .. import indexmap as I
from ..compdb import AnalysisBroken
from . import interp, fpstencil as F, gridmodel as G, sizemodel as S, kickmodel as K
from .interp import k_, n_

LEVEL = "proof"


def run(chk, prog):
    chk.assume("exact real arithmetic: single-precision rounding is abstracted away ('up to rounding' in the statement)",
               "support stays clear of the grid border (precondition of the statement): border rows/columns are not examined",
               "interpolation order in {1..4}, derivation type in {3,4}")
    chk.trusted = ["clang 14 front end", "tool/isa-extract.cc", "sympy expand", "exact-arithmetic abstraction of float"]
    S.lemmas(chk, prog)
    G.lemmas(chk, prog)

    # ---- R1 -------------------------------------------------------------------------------
    wfn, cases, f = interp.weights(prog)
    chk.used(wfn)
    nw = 0
    for n in sorted(c for c in cases if isinstance(c, int)):
        cells = cases[n]["cells"]
        site = A.loc(wfn, {"line": cases[n]["line"]})
        chk.check(sorted(cells) == list(range(n)), "R1", site, "order %d assigns exactly %d weights (cells %s)" % (n, n, sorted(cells)),
                  "calcCoefficiants:count:%d:%s" % (n, sorted(cells)))
        tot = sp.expand(sum(cells.values()))
        chk.check(tot == 1, "R1", site, "order %d: sum of weights == 1 for every f (got %s)" % (n, tot),
                  "calcCoefficiants:sum:%d:%s" % (n, tot))
        nw += len(cells)
    chk.floor("R1-weights", nw, 10)

    # ---- R2 -------------------------------------------------------------------------------
    ka = K.KickApply(prog)
    chk.used(ka.fn)
    hidx = sp.Symbol("h.index", real=True)
    for axis, b in sorted(ka.branches.items()):
        h, din, dout = b.hinfo[0], b.din[0], b.dout[0]
        site = A.loc(ka.fn, {"line": h.line})
        loops = {L.name: L for L in dout.loops}
        # kick variable: the cell loop variable the table index does not mention
        cell_loops = [L for L in dout.loops if L.name != "n"]
        A.require(len(cell_loops) == 2, "KickMap::apply(%s): expected two cell loops" % axis)
        kv = [L for L in cell_loops if not h.idx[0].has(L.sym)]
        if not chk.check(len(kv) == 1, "R2", site,
                         "%s-kick: weight-table index %s is independent of exactly one cell coordinate (the kick direction)" % (axis, h.idx[0]),
                         "KickMap::apply:%s:hinfo-depends-on-kick-coordinate:%s" % (axis, h.idx[0])):
            continue
        kv = kv[0]
        D, Sx = S.norm(dout.idx[0]), S.norm(din.idx[0])
        mkd, mpd = sp.Symbol("_meshsize_kd", real=True), sp.Symbol("_meshsize_pd", real=True)
        sz = {mkd: S.N, mpd: S.N}
        D, Sx = sp.expand(D.subs(sz)), sp.expand(Sx.subs(sz))
        stride = D.coeff(kv.sym, 1)
        diff = sp.expand(Sx - D)
        want = sp.expand(stride * (hidx - sp.floor(S.N / 2)))
        chk.check(diff == want, "R2", A.loc(ka.fn, {"line": din.line}),
                  "%s-kick: source cell = destination cell shifted along %s by (stored index - floor(N/2)) and by nothing else "
                  "(source-destination = %s)" % (axis, kv.name, diff), "KickMap::apply:%s:shift:%s" % (axis, diff))
        chk.check(b.hinfo_same_entry, "R2", site, "%s-kick: source index and weight of a stencil point come from the same table entry (%s)"
                  % (axis, sorted({str(a_.idx[0]) for a_ in b.hinfo if a_.idx})), "KickMap::apply:%s:hinfo-entries:%s" % (axis, sorted({str(a_.idx[0]) for a_ in b.hinfo if a_.idx})))
        # every cell of every bunch is produced exactly once: destination = n*N*N + (the two cell coordinates with strides N and 1)
        ov = [L for L in cell_loops if L is not kv][0]
        nl = loops.get("n")
        ostride = D.coeff(ov.sym, 1)
        bij = nl is not None and {stride, ostride} == {sp.Integer(1), S.N} and sp.expand(D - (nl.sym * S.N ** 2 + stride * kv.sym + ostride * ov.sym)) == 0
        chk.check(bij, "R2", A.loc(ka.fn, {"line": dout.line}),
                  "%s-kick: the destination index enumerates every cell of every bunch once (n*N*N + cell; got %s)" % (axis, D),
                  "KickMap::apply:%s:destination:%s" % (axis, D))
        chk.check(nl is not None and nl.lo == 0 and sp.expand(S.norm(nl.hi) - S.B) == 0 and ov.lo == 0 and sp.expand(S.norm(ov.hi).subs(sz) - S.N) == 0, "R2", site,
                  "%s-kick: all bunches and all rows across the kick direction are produced" % axis, "KickMap::apply:%s:outer-ranges" % axis)
        chk.check(kv.lo == 0 and sp.expand(S.norm(kv.hi).subs(sz) - S.N) == 0, "R2", site,
                  "%s-kick: every cell along the kick direction is produced (range [%s,%s))" % (axis, kv.lo, kv.hi),
                  "KickMap::apply:%s:range" % axis)
    usm = interp.UpdateSM(prog)
    chk.used(usm.fn)
    for a in usm.live_index_stores():
        e, ip, loop = usm.node_expr(a)
        site = A.loc(usm.fn, {"line": a.line})
        chk.check(sp.expand(e.coeff(k_, 1) - 1) == 0 and not e.coeff(k_, 0).has(k_), "R2", site,
                  "updateSM: the _it sources of one row are consecutive cells (index = origin + k + c(n): %s)" % e,
                  "updateSM:consecutive:%s" % e)
        # origin uses the same centre constant the readers subtract
        centre = sp.expand(ip.args[0] - [t for t in ip.args[0].atoms(sp.Indexed)][0]) if ip.args[0].atoms(sp.Indexed) else None
        chk.check(centre is not None and sp.expand(centre.subs(sp.Symbol("_meshsize_kd", real=True), S.N) - sp.floor(S.N / 2)) == 0,
                  "R2", site, "updateSM: zero offset maps to the centre floor(N/2) that KickMap::apply subtracts (centre %s)" % centre,
                  "updateSM:centre:%s" % centre)
    # one table row per offset row: _hinfo[i*_ip + j1]
    ip_, it_ = sp.Symbol("_ip", real=True), sp.Symbol("_it", real=True)
    for a in usm.hinfo_stores:
        outer = a.loops[0]
        inner = a.loops[-1]
        chk.check(sp.expand(a.idx[0] - (outer.sym * ip_ + inner.sym)) == 0, "R2", A.loc(usm.fn, {"line": a.line}),
                  "updateSM writes point %s of offset row %s to _hinfo[%s]" % (inner.name, outer.name, a.idx[0]),
                  "updateSM:hinfo-index:%s" % a.idx[0])
        chk.check(inner.lo == 0 and inner.hi == it_, "R2", A.loc(usm.fn, {"line": a.line}),
                  "updateSM writes all _it points of a row", "updateSM:points-range")
    kfn, ks, kf = K.kick_fields(prog)
    chk.used(kfn)
    # KickMap passes interpoints == intertype == it to SourceMap: _ip == _it for kick maps
    base = [i for i in kfn["inits"] if i.get("ikind") == "base"]
    A.require(len(base) == 1, "KickMap: base initialiser not found")
    bexpr = A.strip(base[0]["expr"], casts=False)
    names = dict(zip(bexpr.get("callee_params", []), [(A.declref(x) or {}).get("name") for x in bexpr.get("args", [])]))
    chk.check(names.get("interpoints") == "it" and names.get("intertype") == "it", "R2", A.loc(kfn, {"line": base[0]["line"]}),
              "KickMap constructs SourceMap with interpoints == intertype == it, so readers' _ip equals writers' _it (args %s)" % names,
              "KickMap::ctor:ip-it")

    # ---- R3 -------------------------------------------------------------------------------
    st = F.Stencils(prog)
    chk.used(st.fn)
    hi_rec = prog.record("vfps::SourceMap::(anonymous)")
    chk.check([x["name"] for x in hi_rec["fields"]] == ["index", "weight"], "R3", "inc/SM/SourceMap.hpp:%d" % hi_rec["line"],
              "struct hi is {index, weight} in this order (brace initialisers are read positionally)", "hi:fields")
    ncell = 0
    ysz = sp.Symbol("_ysize", real=True)
    zb = G.AX(1, "zb")
    for dt in sorted(st.blocks):
        bl = st.blocks[dt]
        site0 = A.loc(st.fn, {"line": bl[0].line})
        for b in bl:
            chk.check(sorted(b.cells) == list(range(dt)), "R3", A.loc(st.fn, {"line": b.line}),
                      "derivation type %d: block writes cells 0..%d of each row (cells %s)" % (dt, dt - 1, sorted(b.cells)),
                      "FP:%d:cells:%s" % (dt, sorted(b.cells)))
            ncell += len(b.cells)
        # coverage of the rows: border constants + blocks tile [0, _ysize)
        los = [b.loop.lo for b in bl]
        his = [b.loop.hi for b in bl]
        tiles = all(sp.expand(his[i] - los[i + 1]) == 0 for i in range(len(bl) - 1))
        chk.check(tiles, "R3", site0, "derivation type %d: consecutive blocks share their boundary row (%s)" % (dt, list(zip(los, his))),
                  "FP:%d:tiling" % dt)
        brows = set()
        for idx, path, val, line in st.border.get(dt, []):
            chk.check(val is not None and val == 0, "R3", A.loc(st.fn, {"line": line}),
                      "border entry _hinfo[%s]%s is zero" % (idx, path), "FP:%d:border-nonzero:%s%s" % (dt, idx, path))
            e = sp.expand(idx.subs(st.ip, dt))
            c1, c0 = e.coeff(ysz, 1), e.coeff(ysz, 0)
            A.require(c0.is_Integer and c1.is_Integer and c1 % dt == 0, "FP: border index %s not of the form dt*row + k" % idx)
            row = sp.expand((c1 // dt) * ysz + (int(c0) // dt))
            brows.add((row, int(c0) % dt, path))
        low = int(los[0]) if los[0].is_Integer else None
        top = sp.expand(ysz - his[-1])
        A.require(low is not None and top.is_Integer, "FP: block bounds are not const .. _ysize-const")
        top = int(top)
        need = set()
        for r in list(range(low)) + [ysz - t for t in range(1, top + 1)]:
            for k in range(dt):
                for path in (".index", ".weight"):
                    need.add((sp.expand(sp.sympify(r)), k, path))
        chk.check(need <= brows, "R3", site0,
                  "derivation type %d: rows [0,%d) and [_ysize-%d,_ysize) x %d cells are initialised (missing: %s)"
                  % (dt, low, top, dt, sorted(str(x) for x in need - brows)[:4]), "FP:%d:border-coverage" % dt)
        # column sums
        width = max(abs(int(c["offset"])) for b in bl for c in b.cells.values())
        for t, tname in ((0, "none"), (1, "damping_only"), (2, "diffusion_only"), (3, "full")):
            ws = [b.weights(t) for b in bl]
            # interior of each block
            for b, w in zip(bl, ws):
                col = 0
                for k, c in b.cells.items():
                    o = int(c["offset"])
                    col += w[k].subs(F.P, F.P - o * F.d)       # contribution from destination row s - o
                col = sp.expand(col)
                chk.check(col == 1, "R3", A.loc(st.fn, {"line": b.line}),
                          "dt=%d FPType=%s: interior column sum of block [%s,%s) == 1 (got %s)" % (dt, tname, b.loop.lo, b.loop.hi, col),
                          "FP:%d:%s:block@%s:colsum:%s" % (dt, tname, b.loop.lo, col))
            # rows around a block switch: source row s = c + r; destination j = s - o belongs to the lower block iff j < c
            for i in range(len(bl) - 1):
                lo_b, up_b, wl, wu = bl[i], bl[i + 1], ws[i], ws[i + 1]
                defects = {}
                for r in range(-width - 2, width + 3):
                    col = 0
                    for b, w, lower in ((lo_b, wl, True), (up_b, wu, False)):
                        for k, c in b.cells.items():
                            o = int(c["offset"])
                            jrel = r - o
                            if (jrel < 0) == lower:
                                col += w[k].subs(F.P, F.P - o * F.d)
                    defects[r] = sp.expand(col - 1)
                for r, dfc in sorted(defects.items()):
                    site = A.loc(st.fn, {"line": up_b.line})
                    if abs(r) > width or r == width:
                        chk.check(dfc == 0, "R3", site,
                                  "dt=%d FPType=%s: column %+d rows from the stencil switch is exact (defect %s)" % (dt, tname, r, dfc),
                                  "FP:%d:%s:switch:r%d:far-defect:%s" % (dt, tname, r, dfc))
                    else:
                        chk.check(sp.expand(dfc.subs(F.e1, 0)) == 0, "R3", site,
                                  "dt=%d FPType=%s: column %+d rows from the stencil switch: defect %s is proportional to the damping decrement"
                                  % (dt, tname, r, dfc), "FP:%d:%s:switch:r%d:defect-not-prop-e1:%s" % (dt, tname, r, dfc))
                        # ... with a factor that is a number of order one: in units of rows (P = rho*delta next to zero energy) the defect per
                        # unit decrement must not depend on the cell size (a leak ~ e1/delta^2 grows with the resolution of the grid)
                        rho_ = sp.Symbol("rho_rows", real=True)
                        per_dec = sp.simplify(sp.expand(dfc).subs(F.P, rho_ * F.d) / F.e1) if dfc != 0 else sp.Integer(0)
                        chk.check(F.d not in per_dec.free_symbols, "R3", site,
                                  "dt=%d FPType=%s: column %+d rows from the stencil switch: defect per unit decrement %s is independent of the cell size"
                                  % (dt, tname, r, per_dec), "FP:%d:%s:switch:r%d:defect-scales-with-grid:%s" % (dt, tname, r, per_dec))
    chk.floor("R3-cells", ncell, 11)
    # e1 reaches the stencil as the constructor parameter; _ip == dt
    base = [i for i in st.fn["inits"] if i.get("ikind") == "base"]
    A.require(len(base) == 1, "FokkerPlanckMap: base initialiser not found")
    bexpr = A.strip(base[0]["expr"], casts=False)
    bargs = bexpr.get("args", [])
    names = dict(zip(bexpr.get("callee_params", []), [(A.declref(x) or {}).get("name") for x in bargs]))
    chk.check(names.get("interpoints") == "dt" and names.get("intertype") == "dt" and names.get("ysize") == "ysize", "R3",
              A.loc(st.fn, {"line": base[0]["line"]}),
              "FokkerPlanckMap constructs SourceMap with _ysize=ysize, interpoints == dt: table rows have dt cells (args %s)" % names,
              "FP:ctor:base-args:%s" % names)

    # ---- R4 -------------------------------------------------------------------------------
    idf = prog.fn("vfps::Identity::apply", nparams=0)
    chk.used(idf)
    s = I.scan(idf)
    from .common import bulk_copies
    cp = bulk_copies(s)
    A.require(len(cp) == 1, "Identity::apply: expected one block copy (copy_n / copy / memcpy)")
    src_, ln_, dst_, line_ = cp[0]
    ln = S.norm(ln_) if ln_ is not None else None
    ok = ln is not None and sp.expand(ln - S.N * S.N * S.B) == 0
    chk.check(ok, "R4", A.loc(idf, {"line": line_}), "Identity copies B*N*N cells (length %s)" % ln, "Identity:length:%s" % ln)
    okd = str(src_) == "getData(_in)" and str(dst_) == "getData(_out)"
    chk.check(okd, "R4", A.loc(idf, {"line": line_}), "Identity copies from the input grid's data to the output grid's data",
              "Identity:direction")

    # ---- R5 -------------------------------------------------------------------------------
    fa = prog.fn("vfps::FokkerPlanckMap::apply", nparams=0)
    chk.used(fa)
    s = I.scan(fa)
    def uniq(acc):
        out = []
        for a_ in acc:
            if not any(o.idx == a_.idx for o in out):
                out.append(a_)
        return out
    h = uniq([a for a in s.accesses if a.kind == "load" and a.base == "_hinfo" and a.idx is not None])
    din = uniq([a for a in s.accesses if a.kind == "load" and a.base == "data_in" and a.idx is not None])
    dout = [a for a in s.accesses if a.kind == "store" and a.base == "data_out" and a.idx is not None]
    # a second store into the destination that runs only under a condition on the data (a column skipped and zeroed when its profile
    # looks empty, a cell clipped) replaces transported values by a constant: the step is then no weighted sum of the source cells
    if len(dout) > 1:
        main_ = [a for a in dout if a.value is not None and any(str(t).startswith("value") or "SUM" in str(t) or "h.weight" in str(t) for t in [a.value] + list(a.value.free_symbols))]
        extra = [a for a in dout if a not in main_[:1]]
        if len(main_) >= 1:
            base_g = {(g_["id"] if isinstance(g_, dict) and "id" in g_ else str(g_), pol) for g_, pol in main_[0].guards}
            for a in extra:
                own_g = [(g_, pol) for g_, pol in a.guards if ((g_["id"] if isinstance(g_, dict) and "id" in g_ else str(g_)), pol) not in base_g and
                         isinstance(g_, dict) and g_.get("k") not in ("SwitchCase", "Catch")]
                const_val = a.value is not None and not a.value.free_symbols
                if own_g and const_val:
                    chk.fail("R5", A.loc(fa, {"line": a.line}), "FokkerPlanckMap::apply stores the constant %s into destination cells under the condition `%s`: those cells do not "
                             "receive the weighted sum of their source cells" % (a.value, A.show(own_g[0][0])[:60]), "FP::apply:conditional-constant-store")
                    dout = [b for b in dout if b is not a]
    A.require(len(h) == 1 and len(din) == 1 and len(dout) == 1, "FokkerPlanckMap::apply: accesses not found (%d table reads, %d grid reads, %d grid writes)" % (len(h), len(din), len(dout)))
    h, din, dout = h[0], din[0], dout[0]
    # the three cell loops by what they do to the destination index, not by what they are called: stride N*N = bunch, N = column (x), 1 = energy row (y)
    fsz0 = {sp.Symbol("_meshxsize", real=True): S.N, sp.Symbol("_ysize", real=True): S.N}
    D0 = sp.expand(S.norm(dout.idx[0]).subs(fsz0))
    lv = {}
    for L in dout.loops:
        if L.sym is None:
            continue
        c_ = sp.expand(D0.coeff(L.sym, 1))
        for role, stride in (("n", S.N ** 2), ("x", S.N), ("y", sp.Integer(1))):
            if sp.expand(c_ - stride) == 0:
                lv[role] = L
    for L in dout.loops:
        if L.name == "n" and "n" not in lv:
            lv["n"] = L         # the loop over all bunches (by its bound), whatever it does to the index
    A.require({"n", "x", "y"} <= set(lv), "FokkerPlanckMap::apply: loops n,x,y not found")
    y = lv["y"].sym
    jl = [L for L in h.loops if all(L is not lv[r_] for r_ in "nxy")]
    A.require(len(jl) == 1, "FokkerPlanckMap::apply: stencil loop not found")
    chk.check(sp.expand(h.idx[0] - (y * sp.Symbol("_ip", real=True) + jl[0].sym)) == 0, "R5", A.loc(fa, {"line": h.line}),
              "stencil entry read is _hinfo[y*_ip+j]: depends on the energy row only (%s)" % h.idx[0], "FP::apply:hinfo:%s" % h.idx[0])
    diff = sp.expand(din.idx[0] - dout.idx[0])
    chk.check(diff == sp.expand(hidx - y), "R5", A.loc(fa, {"line": din.line}),
              "source and destination cell share bunch and x row: source - destination = stored index - y (got %s)" % diff,
              "FP::apply:shift:%s" % diff)
    fsz = {sp.Symbol("_meshxsize", real=True): S.N, sp.Symbol("_ysize", real=True): S.N}
    Df = sp.expand(S.norm(dout.idx[0]).subs(fsz))
    chk.check(sp.expand(Df - (lv["n"].sym * S.N ** 2 + lv["x"].sym * S.N + y)) == 0, "R5", A.loc(fa, {"line": dout.line}),
              "the destination index enumerates every cell of every bunch once (n*N*N + x*N + y; got %s)" % Df, "FP::apply:destination:%s" % Df)
    rng = all(lv[v].lo == 0 for v in "nxy") and sp.expand(S.norm(lv["n"].hi) - S.B) == 0 and \
        all(sp.expand(S.norm(lv[v].hi).subs(fsz) - S.N) == 0 for v in "xy")
    chk.check(rng, "R5", A.loc(fa, {"line": dout.line}), "all bunches, columns and rows are produced (%s)" % [(lv[v].lo, lv[v].hi) for v in "nxy"], "FP::apply:ranges")
    chk.check(jl[0].lo == 0 and jl[0].hi == sp.Symbol("_ip", real=True), "R5", A.loc(fa, {"line": h.line}),
              "all _ip stencil cells of a row are applied", "FP::apply:cells-range")
    # ---- R7: every transport step is linear in the grid: the value stored in a destination cell is the weighted sum itself ---------------
    # (column sums of one conserve the plain sum only for a linear map: a clip, floor, absolute value or renormalisation applied to the
    # accumulated value before it is stored breaks conservation wherever it bites, whatever the weights are)
    def linear_in_grid(v):
        """is v = sum of (grid-free factor) * data_in[...] terms, or a SUM(...) of such a term?"""
        v = sp.expand(v)
        if v == 0:
            return True
        if isinstance(v, sp.Function) and type(v).__name__ == "SUM":
            return linear_in_grid(v.args[0])
        if v.is_Add:
            return all(linear_in_grid(t) for t in v.args)
        reads = [t for t in v.atoms(sp.Indexed) if str(t.base) == "data_in"]
        sums = [t for t in v.atoms(sp.Function) if type(t).__name__ == "SUM"]
        if len(sums) == 1 and not reads:
            q = sp.simplify(v / sums[0])
            return not q.has(sums[0]) and not q.atoms(sp.Indexed) - {t for t in q.atoms(sp.Indexed) if str(t.base) != "data_in"} and linear_in_grid(sums[0].args[0])
        if len(reads) != 1:
            return False
        q = sp.simplify(v / reads[0])
        return not any(str(t.base) == "data_in" for t in q.atoms(sp.Indexed))
    n7 = 0
    for fq, sc_ in ((fa, I.scan(fa)), (ka.fn, ka.scan)):
        acc_ = I._through_scalar_accumulators(sc_.accesses, "data_out")
        folded = I.fold_stores(sc_.accesses, "data_out")
        for fo in folded:
            n7 += 1
            chk.check(linear_in_grid(fo["value"].subs(sp.Symbol("old"), 0)), "R7", A.loc(fq, {"line": fo["line"]}),
                      "%s stores the weighted sum of source cells itself (value %s)" % (fq["qname"].replace("vfps::", ""), str(fo["value"])[:160]),
                      "%s:nonlinear-store" % fq["qname"].replace("vfps::", ""))
    chk.floor("R7-destination-stores", n7, 3)
    # ---- R8: weight function and table builders keep no state between calls (a memo keyed on part of the arguments hands out the weights
    # of another order or offset) ------------------------------------------------------------------------------------------------
    from .common import no_state_between_calls
    no_state_between_calls(chk, prog.fn("vfps::SourceMap::calcCoefficiants"), "R8")
    # ---- R6: the source-map table is rebuilt whenever the displacement field changes (a stale table moves the grid by old offsets) ----
    K.offset_table_sync(chk, prog, "R6")
    # ---- R9: source indices are computed and stored in the grid's index width --------------------------------------------------------------
    from .common import no_index_narrowing
    fam_ = {"vfps::SourceMap", "vfps::KickMap", "vfps::RFKickMap", "vfps::DynamicRFKickMap", "vfps::DriftMap", "vfps::WakeKickMap",
            "vfps::WakePotentialMap", "vfps::FokkerPlanckMap", "vfps::Identity", "vfps::RotationMap"}
    nconv_ = no_index_narrowing(chk, prog, "R9", lambda f: f.get("class") in fam_)
    chk.floor("R9-integral-conversions", nconv_, 60)
    chk.ok("R9", "src/SM", "%d integral conversions in the source-map classes examined: no cell index or size passes through an 8/16-bit integer" % nconv_)
    # ---- R10: no transport step works in place ---------------------------------------------------------------------------------------------------
    # every map computes a destination cell from several source cells of the same grid line; with source and destination being one grid the
    # later cells of a line are computed from already overwritten ones and the column sums no longer describe the step.  At every
    # construction of a map in main the `in` and `out` grids are different variables (each alternative of a conditional argument counts).
    mainf_ = prog.fn("main")
    chk.used(mainf_)
    fam10 = ("RFKickMap", "DynamicRFKickMap", "DriftMap", "WakePotentialMap", "WakeFunctionMap", "FokkerPlanckMap", "Identity", "RotationMap", "KickMap")

    def alts(n):
        n = A.strip(n)
        if n.get("k") == "ConditionalOperator":
            return alts(n["then"]) + alts(n["else"])
        d_ = A.declref(n)
        return [d_["name"] if d_ is not None else None]
    n10 = 0
    for x in A.walk(mainf_["body"]):
        args = None
        if x.get("k") == "CXXNewExpr" and any((x.get("alloc_type") or "").endswith(c_) for c_ in fam10) and isinstance(x.get("init"), dict):
            ce = A.strip(x["init"], casts=False)
            if ce.get("k") == "CXXConstructExpr" and {"in", "out"} <= set(ce.get("callee_params") or []):
                args = (ce["args"][ce["callee_params"].index("in")], ce["args"][ce["callee_params"].index("out")], x["alloc_type"])
        elif x.get("k") == "CallExpr" and (x.get("callee") or "") in ("std::make_unique", "std::make_shared") and any(c_ + ">" in (x.get("ctype") or "") for c_ in fam10) and len(x.get("args", [])) >= 2:
            args = (x["args"][0], x["args"][1], (x.get("ctype") or "").split("<")[-1].rstrip(">"))
        if args is None:
            continue
        ins, outs = alts(args[0]), alts(args[1])
        n10 += 1
        if None in ins or None in outs:
            raise AnalysisBroken("main: grids handed to %s are not plain variables" % args[2])
        chk.check(not (set(ins) & set(outs)), "R10", A.loc(mainf_, x), "%s is built with different source and destination grids (in %s, out %s)"
                  % (args[2].replace("vfps::", ""), sorted(set(ins)), sorted(set(outs))), "main:in-place:%s:%s" % (args[2].replace("vfps::", ""), sorted(set(ins) & set(outs))))
    chk.floor("R10-map-constructions", n10, 6)
    # ---- R11: the work grids are copies of the first one, axes included -------------------------------------------------------------------------------------
    # the damping/diffusion step reads zero bin and coordinates from its source grid, a copy of grid_t1: the tolerated defect sits "next to zero
    # energy" only if the copy carries the same axes (copy constructor: decided under C09 R4; re-evaluated here)
    from .common import reeval
    reeval(chk, prog, "C09", lambda i: i["rule"] == "R4" and i["what"].startswith("copy:"), "R11", "R11-copies-carry-the-axes", 3)
    chk.notes.append("C01: column sums of every transport operator (kick maps via weights+index maps, Fokker-Planck stencils incl. "
                     "stencil-switch rows, identity) decided as polynomial identities / index equalities for all offsets, sizes, "
                     "orders, FPTypes. Not decided: float rounding, the grid border, OpenCL kernels.")
