"""C20 — command line beats config file beats default; legacy aliases are honoured.

 R1  ProgramOptions::parse stores the command line before the config file, both into
     _vm, each followed by notify (boost: first store wins, defaults fill in last);
 R2  nothing but store/notify and the recognised alias copy idiom writes _vm or a bound
     field after parsing;
 R3  aliases: each alias binds the same field and type as exactly one primary and has no
     default; the effective value of the shared field, computed on a finite model of
     boost's store/notify semantics instantiated with the extracted table and the
     statements of parse() that touch _vm, equals "command line > file (alias == primary) >
     default" in all four source combinations;
 R4  options accepted only for compatibility bind fields whose getters main never calls;
 R8  no numeric option has a character value type (boost would take the first character of the argument, not the number);
 R7  the bound value reaches its user unchanged: no getter and no first use in main converts it floating->integral, to a
     narrower or differently signed integer (or, in a getter, double->float);
 R5  command-line and config-file declarations of one option agree in field and type; no
     two primaries share a field; every primary the documentation promises a default for
     has one;
 R6  error discipline: parse() is called inside try/catch(std::exception&) that reports and
     returns EXIT_FAILURE; a false return leaves main before anything is built; a missing or
     unreadable config file prints a message and returns false.
"""
from .. import ast as A
from .. import flow as Fl
from .. import options as O
from ..compdb import AnalysisBroken

LEVEL = "other"


def run(chk, prog):
    chk.assume("boost::program_options semantics as documented: store() keeps an existing non-defaulted entry; "
               "notify() runs every entry's notifier in map (key) order, each writing its bound field; "
               "parse_command_line / parse_config_file throw on unknown options and malformed values")
    t = O.Table(prog)
    chk.used(t.ctor)
    pf = prog.fn("vfps::ProgramOptions::parse")
    chk.used(pf)
    g = Fl.CFG(pf)
    cfg = {o.name: o for o in t.members("_cfgfileopts")}
    cli = {o.name: o for o in t.members("_commandlineopts")}
    alias = {o.name: o for o in t.by_group.get("_compatopts_alias", [])}
    ignore = {o.name: o for o in t.by_group.get("_compatopts_ignore", [])}
    A.require(len(alias) >= 1 and len(ignore) >= 1, "compatibility option groups not found")

    # ---- R1 ---------------------------------------------------------------------------------------
    def store_of(kind):
        def pred(n):
            if n.get("k") != "CallExpr" or n.get("callee") != "boost::program_options::store":
                return False
            return any((y.get("callee") or "").endswith(kind) for y in A.walk(n["args"][0]))
        return pred
    is_cli_store, is_file_store = store_of("parse_command_line"), store_of("parse_config_file")
    is_notify = Fl.is_call_to("boost::program_options::notify")
    cs, fs = g.events(is_cli_store), g.events(is_file_store)
    chk.check(len(cs) == 1 and len(fs) == 1, "R1", pf.where, "one store of the command line and one of the config file (%d, %d)" % (len(cs), len(fs)),
              "parse:stores:%d:%d" % (len(cs), len(fs)))
    for (b, i, n), ok in g.every_path_to(is_file_store, is_cli_store):
        chk.check(ok, "R1", A.loc(pf, n), "the command line is stored before the config file on every path (first store wins)", "parse:order")
    for ev in cs + fs:
        tgt = A.this_field(ev[2]["args"][1])
        chk.check(tgt == "_vm", "R1", A.loc(pf, ev[2]), "store targets _vm", "parse:store-target:%s" % tgt)
        chk.check(g.some_path_between((ev[0], ev[1]), is_notify) and
                  not g.some_path_between((ev[0], ev[1]), lambda n: n.get("k") == "ReturnStmt" and A.strip(n["c"][0]).get("value") is True, avoid_pred=is_notify),
                  "R1", A.loc(pf, ev[2]), "every store is followed by notify before parse() can return true", "parse:notify-after-store")
    for ev in cs:
        descr = A.this_field(A.strip([y for y in A.walk(ev[2]["args"][0]) if (y.get("callee") or "").endswith("parse_command_line")][0]["args"][2]))
        chk.check(descr == "_commandlineopts", "R1", A.loc(pf, ev[2]), "command line is parsed against _commandlineopts", "parse:cli-descr:%s" % descr)
    for ev in fs:
        call = [y for y in A.walk(ev[2]["args"][0]) if (y.get("callee") or "").endswith("parse_config_file")][0]
        descr = A.this_field(A.strip(call["args"][1]))
        chk.check(descr == "_cfgfileopts", "R1", A.loc(pf, ev[2]), "config file is parsed against _cfgfileopts", "parse:file-descr:%s" % descr)
        allow = len(call["args"]) > 2 and A.strip(call["args"][2]).get("value") is True
        chk.check(not allow, "R1", A.loc(pf, ev[2]), "unknown names in the config file are rejected (allow_unregistered is off)", "parse:allow-unregistered")

    # ---- R2: who writes _vm / bound fields ---------------------------------------------------------
    copies = []      # (primary, alias, guarded-by-count(alias))
    fields = {o.field for o in t.options if o.field}
    for f in prog.functions.values():
        if f.get("class") != "vfps::ProgramOptions" or not f.get("body") or f["kind"] in ("ctor", "dtor"):
            continue
        idx = None
        for x in A.walk(f["body"]):
            # writes through _vm
            if x["k"] in ("CXXOperatorCallExpr", "BinaryOperator") and x.get("op") == "=":
                lhs = x["args"][0] if x["k"] == "CXXOperatorCallExpr" else x["c"][0]
                rhs = x["args"][1] if x["k"] == "CXXOperatorCallExpr" else x["c"][1]
                lt = A.show(lhs).replace(" ", "")
                if "_vm" in lt:
                    lits_l = [y["value"] for y in A.walk(lhs) if y["k"] == "StringLiteral"]
                    lits_r = [y["value"] for y in A.walk(rhs) if y["k"] == "StringLiteral"]
                    ok = f["name"] == "parse" and len(lits_l) == 1 and len(lits_r) == 1 and "_vm" in A.show(rhs) and \
                        lits_r[0] in alias and lits_l[0] in cfg and alias[lits_r[0]].field == cfg[lits_l[0]].field
                    guarded = False
                    if ok:
                        if idx is None:
                            idx = A.index(f)
                        for p in A.enclosing(idx, x, {"IfStmt"}):
                            cn = [y for y in A.walk(p["cond"]) if (y.get("callee") or "").endswith("::count")]
                            if any(z["value"] == lits_r[0] for c_ in cn for z in A.walk(c_) if z["k"] == "StringLiteral"):
                                guarded = True
                        copies.append((lits_l[0], lits_r[0], guarded, x))
                    chk.check(ok and guarded, "R2", A.loc(f, x),
                              "write to _vm is the recognised alias idiom `_vm.at(primary).value() = _vm[alias].value()` under count(alias): %s" % lt,
                              "%s:vm-write:%s" % (f["name"], lt))
                fld = A.this_field(lhs)
                if fld in fields and f["name"] not in ("parse",):
                    chk.fail("R2", A.loc(f, x), "%s assigns the option field %s after parsing" % (f["name"], fld), "%s:field-write:%s" % (f["name"], fld))
            if x["k"] == "CXXMemberCallExpr" and not x.get("callee_const"):
                o = A.call_object(x)
                if o is not None and A.this_field(o) in fields and f["name"] != "parse":
                    if (x.get("callee") or "").split("::")[-1] in ("clear", "assign", "push_back", "swap", "resize", "erase"):
                        chk.fail("R2", A.loc(f, x), "%s modifies the option field %s" % (f["name"], A.this_field(o)), "%s:field-modify:%s" % (f["name"], A.this_field(o)))
    # field writes inside parse: only normalisation of "/dev/null" to empty (same meaning, documented)
    for x in A.walk(pf["body"]):
        if x["k"] == "CXXMemberCallExpr" and (x.get("callee") or "").endswith("::clear"):
            fld = A.this_field(A.call_object(x))
            idx = A.index(pf)
            enc = A.enclosing(idx, x, {"IfStmt"})
            objtxt = fld or A.show(A.strip(A.call_object(x))).replace(" ", "").lstrip("*")
            ok = bool(enc) and any(y["k"] == "StringLiteral" and y["value"] == "/dev/null" for y in A.walk(enc[0]["cond"])) and \
                objtxt in A.show(enc[0]["cond"])
            chk.check(ok, "R2", A.loc(pf, x), "parse() clears %s only to normalise the documented '/dev/null' spelling of 'none'" % objtxt,
                      "parse:clear:%s" % objtxt)
            # notify() writes every bound field again from the map: a normalisation that a later notify can reach is undone
            # (the raw '/dev/null' comes back as a file name when a config file is loaded)
            from .. import flow as Fl_
            gpf = Fl_.CFG(pf)
            is_notify_ = Fl_.is_call_to("boost::program_options::notify")
            pos_ = [(b_, i_) for b_, i_, n_ in gpf.events(lambda n_: n_.get("id") == x["id"])]
            A.require(len(pos_) == 1, "parse: clear() call not found in the control-flow graph")
            undone = gpf.some_path_between(pos_[0], is_notify_)
            chk.check(not undone, "R2", A.loc(pf, x), "the normalisation of %s is not followed by a notify() that would restore the raw value" % objtxt,
                      "parse:clear-before-notify:%s" % objtxt)
    chk.ok("R2", pf.where, "writers of _vm and of bound fields enumerated over all ProgramOptions methods")
    _, muts = O.vm_mutations(prog)
    A.require(len(muts) >= 2, "parse: changes of the variables map not found")
    for n, ok in muts:
        chk.check(ok, "R2", A.loc(pf, n), "the change of the variables map `%s` is followed by notify() on every path before parse() returns true "
                  "(otherwise the bound field keeps its old value)" % A.show(n)[:70].replace("\n", " "), "parse:unnotified:%s" % A.show(n)[:50].replace(" ", ""))

    # ---- R3: aliases ---------------------------------------------------------------------------------
    n3 = 0
    for aname, a in sorted(alias.items()):
        prim = [o for o in cfg.values() if o.field == a.field and o.name not in alias and o.name not in ignore]
        site = "src/IO/ProgramOptions.cpp:%d" % a.line
        if not chk.check(len(prim) == 1, "R3", site, "alias '%s' shares its field %s with exactly one primary (%s)" % (aname, a.field, [p.name for p in prim]),
                         "alias:%s:primaries:%s" % (aname, [p.name for p in prim])):
            continue
        p = prim[0]
        chk.check(p.name in a.descr, "R3", site, "alias '%s' is documented as the old name of '%s' (help text: %r)" % (aname, p.name, a.descr),
                  "alias:%s:documented-primary:%s" % (aname, p.name))
        chk.check(a.vtype == p.vtype, "R3", site, "alias '%s' has the type of '%s' (%s vs %s)" % (aname, p.name, a.vtype, p.vtype), "alias:%s:type" % aname)
        chk.check(not a.has_default, "R3", site, "alias '%s' has no default (so it is present only when given)" % aname, "alias:%s:default" % aname)
        chk.check(aname not in cli, "R3", site, "alias '%s' is a config-file name only" % aname, "alias:%s:on-cli" % aname)
        copy = [c for c in copies if c[0] == p.name and c[1] == aname and c[2]]
        # finite model of store/notify
        for on_cli in (False, True):
            for in_file in (False, True):
                pval = "cli" if on_cli else ("default" if p.has_default else "unset")
                aval = "file" if in_file else None
                if in_file and copy:
                    pval = "file"
                final = pval
                if aval is not None and aname > p.name:        # notify in key order: later key writes last
                    final = aval
                spec = "cli" if on_cli else ("file" if in_file else ("default" if p.has_default else "unset"))
                chk.check(final == spec, "R3", site,
                          "alias '%s' / primary '%s': primary on command line=%s, alias in file=%s -> field %s gets the %s value (specified: %s)"
                          % (aname, p.name, on_cli, in_file, a.field, final, spec),
                          "alias:%s:cli=%s:file=%s:gets:%s" % (aname, on_cli, in_file, final))
                n3 += 1
    chk.floor("R3-cases", n3, 12)

    # ---- R4: ignored options ---------------------------------------------------------------------------
    mainf = prog.fn("main")
    chk.used(mainf)
    getters = {}
    for f in prog.functions.values():
        if f.get("class") == "vfps::ProgramOptions" and f["name"].startswith("get") and f.get("body"):
            rets = [y for y in A.walk(f["body"]) if y["k"] == "ReturnStmt"]
            if len(rets) == 1 and rets[0].get("c"):
                fld = A.this_field(rets[0]["c"][0])
                if fld:
                    getters[f["name"]] = fld
    called = {}
    for f in prog.functions.values():
        if not f.get("body") or f.get("class") == "vfps::ProgramOptions":
            continue
        for x in A.walk(f["body"]):
            if x["k"] == "CXXMemberCallExpr" and (x.get("callee") or "").startswith("vfps::ProgramOptions::get"):
                called.setdefault(x["callee"].split("::")[-1], []).append(A.loc(f, x))
    real_fields = {o.field for n, o in cfg.items() if n not in ignore}
    for name, o in sorted(ignore.items()):
        site = "src/IO/ProgramOptions.cpp:%d" % o.line
        users = [(gname, called[gname]) for gname, fld in getters.items() if fld == o.field and gname in called]
        chk.check(not users, "R4", site, "ignored option '%s' binds %s, which no code outside ProgramOptions reads (%s)" % (name, o.field, users),
                  "ignore:%s:field-read:%s" % (name, [u[0] for u in users]))
        chk.check(o.field not in real_fields, "R4", site, "ignored option '%s' does not share its field with a real option" % name,
                  "ignore:%s:shares-field" % name)

    # ---- R5 ------------------------------------------------------------------------------------------------
    n5 = 0
    for name, o in sorted(cli.items()):
        if name in cfg:
            f = cfg[name]
            chk.check(f.field == o.field and f.vtype == o.vtype, "R5", "src/IO/ProgramOptions.cpp:%d" % o.line,
                      "'%s': command-line and config-file declarations bind the same field and type" % name, "options:%s:cli-file-mismatch" % name)
            n5 += 1
    KNOWN_MODIFIERS = {"zero_tokens", "required", "value_name"}
    for name, o in sorted({**cli, **cfg}.items()):
        if o.vtype is None:
            continue
        site = "src/IO/ProgramOptions.cpp:%d" % o.line
        if name in cli and name in cfg:
            chk.check(not o.composing and not cfg[name].composing, "R5", site,
                      "'%s' is not composing(): a command-line value replaces the config-file value instead of being merged with it" % name,
                      "options:%s:composing" % name)
            n5 += 1
        chk.check(not o.other_modifiers or set(o.other_modifiers) <= KNOWN_MODIFIERS, "R5", site,
                  "'%s' uses only value-semantic modifiers whose effect on precedence is modelled (%s)" % (name, o.other_modifiers),
                  "options:%s:modifiers:%s" % (name, o.other_modifiers))
    byfield = {}
    for name, o in cfg.items():
        if name in alias or name in ignore or o.field is None:
            continue
        byfield.setdefault(o.field, set()).add(name)
    for name, o in cli.items():
        if o.field is not None:
            byfield.setdefault(o.field, set()).add(name)
    for fld, names in sorted(byfield.items()):
        chk.check(len(names) == 1, "R5", t.ctor.where, "field %s is bound by one primary option (%s)" % (fld, sorted(names)), "options:field:%s:%s" % (fld, sorted(names)))
        n5 += 1
    # every getter main uses returns a field some primary option binds
    for gname, sites in sorted(called.items()):
        fld = getters.get(gname)
        chk.check(fld in byfield, "R5", sites[0], "%s() returns %s, which an option binds" % (gname, fld), "getter:%s:unbound" % gname)
        n5 += 1
    chk.floor("R5-instances", n5, 60)

    # ---- R7: the value the option table bound reaches its user unchanged -------------------------------------------------
    # a getter hands out the bound field; neither the getter nor the first use in main may push the value through a conversion
    # that changes it (floating -> integral, integral -> narrower or signed -> unsigned, double -> float in the getter itself)
    WIDTH = {"bool": 1, "char": 8, "signed char": 8, "unsigned char": 8, "short": 16, "unsigned short": 16, "int": 32, "unsigned int": 32,
             "long": 64, "unsigned long": 64, "long long": 64, "unsigned long long": 64}
    FWIDTH = {"float": 32, "double": 64, "long double": 80}

    def changes_value(cast, frm, to, strict_float):
        frm = (frm or "").replace("const ", "").strip()
        to = (to or "").replace("const ", "").strip()
        if cast == "FloatingToIntegral":
            return True
        if cast == "IntegralCast" and frm in WIDTH and to in WIDTH:
            if frm == "bool":
                return False
            if WIDTH[to] < WIDTH[frm]:
                return True
            if not frm.startswith("unsigned") and to.startswith("unsigned"):
                return True
            if frm.startswith("unsigned") and not to.startswith("unsigned") and WIDTH[to] == WIDTH[frm]:
                return True
            return False
        if cast == "IntegralToFloating" and frm in WIDTH and to in FWIDTH:
            return WIDTH[frm] > (24 if to == "float" else 53)
        if cast == "FloatingCast" and strict_float and frm in FWIDTH and to in FWIDTH:
            return FWIDTH[to] < FWIDTH[frm]
        return False

    def casts_above(n):
        """conversions applied to the value of node n inside expression e (outermost last): list of (cast kind, from, to, node)"""
        out = []
        cur = n
        while cur.get("k") in ("ImplicitCastExpr", "CXXStaticCastExpr", "CStyleCastExpr", "CXXFunctionalCastExpr", "ParenExpr") and len(cur.get("c", [])) == 1:
            inner = cur["c"][0]
            if cur.get("cast") and cur["k"] != "ParenExpr":
                out.append((cur["cast"], inner.get("ctype"), cur.get("ctype"), cur))
            cur = inner
        return list(reversed(out)), cur

    n7 = 0
    for fq in prog.functions.values():
        if fq.get("class") != "vfps::ProgramOptions" or not fq["name"].startswith("get") or not fq.get("body"):
            continue
        rets = [y for y in A.walk(fq["body"]) if y["k"] == "ReturnStmt" and y.get("c")]
        for r_ in rets:
            cs, core = casts_above(r_["c"][0])
            if A.this_field(core) is None:
                continue
            bad = [(c_[0], c_[1], c_[2]) for c_ in cs if changes_value(c_[0], c_[1], c_[2], True)]
            n7 += 1
            chk.check(not bad, "R7", A.loc(fq, r_), "%s() returns the bound field %s without a value-changing conversion%s" % (fq["name"], A.this_field(core), "" if not bad else " (%s)" % bad),
                      "getter:%s:converts:%s" % (fq["name"], ["%s:%s->%s" % b_ for b_ in bad]))
    midx = A.index(mainf)
    for x in A.walk(mainf["body"]):
        if x["k"] == "CXXMemberCallExpr" and (x.get("callee") or "").startswith("vfps::ProgramOptions::get"):
            cur, bad = x, []
            while True:
                par = midx[1].get(cur["id"])
                if par is None or par.get("k") not in ("ImplicitCastExpr", "CXXStaticCastExpr", "CStyleCastExpr", "CXXFunctionalCastExpr", "ParenExpr", "ExprWithCleanups",
                                                       "MaterializeTemporaryExpr", "CXXBindTemporaryExpr"):
                    break
                if par.get("cast") and changes_value(par["cast"], cur.get("ctype"), par.get("ctype"), False):
                    bad.append((par["cast"], cur.get("ctype"), par.get("ctype")))
                cur = par
            n7 += 1
            chk.check(not bad, "R7", A.loc(mainf, x), "main uses the value of %s() without a value-changing conversion%s" % (x["callee"].split("::")[-1], "" if not bad else " (%s)" % bad),
                      "main:%s:converts:%s" % (x["callee"].split("::")[-1], ["%s:%s->%s" % b_ for b_ in bad]))
    chk.floor("R7-getter-uses", n7, 90)

    # ---- R8: numeric options are parsed as numbers --------------------------------------------------------------------------------------
    # boost::program_options converts with lexical_cast: a value type of character kind (char, signed/unsigned char = uint_fast8_t, int8_t)
    # takes the first character of the argument instead of parsing a number -- '3' becomes 51, 'x' is accepted without a message
    CHARLIKE = {"char", "unsigned char", "signed char", "wchar_t", "char16_t", "char32_t"}
    n8 = 0
    for name, o in sorted({**cli, **cfg}.items()):
        if o.vtype is None:
            continue
        n8 += 1
        vt = (o.vtype or "").replace("const ", "").strip()
        chk.check(vt not in CHARLIKE, "R8", "src/IO/ProgramOptions.cpp:%d" % o.line,
                  "option '%s' has a value type boost parses as a number or a string (%s)" % (name, vt), "options:%s:character-type:%s" % (name, vt))
    chk.floor("R8-options", n8, 50)

    # ---- R6 error discipline ---------------------------------------------------------------------------------
    idx = A.index(mainf)
    pcs = [x for x in A.walk(mainf["body"]) if x["k"] == "CXXMemberCallExpr" and x.get("callee") == "vfps::ProgramOptions::parse"]
    A.require(len(pcs) == 1, "main: call of ProgramOptions::parse not unique")
    pc = pcs[0]
    tr = A.enclosing(idx, pc, {"CXXTryStmt"})
    ok = False
    if tr:
        for h in tr[0].get("handlers", []):
            if "exception" in (h.get("caught") or "") and "&" in h["caught"]:
                rets = [y for y in A.walk(h["body"]) if y["k"] == "ReturnStmt"]
                msg = [y for y in A.walk(h["body"]) if (y.get("callee") or "").endswith("::what")]
                if rets and all((A.strip(r["c"][0]).get("value", A.strip(r["c"][0]).get("const")) or 0) != 0 for r in rets) and msg:
                    ok = True
    chk.check(ok, "R6", A.loc(mainf, pc), "parse() runs inside try/catch(std::exception&) that prints what() and returns a failure status", "main:parse-try")
    ifs = A.enclosing(idx, pc, {"IfStmt"})
    ok = False
    if ifs:
        c = A.strip(ifs[0]["cond"])
        if c.get("k") == "UnaryOperator" and c["op"] == "!" and any(y is pc or y["id"] == pc["id"] for y in A.walk(c)):
            ok = any(y["k"] == "ReturnStmt" for y in A.walk(ifs[0]["then"]))
    chk.check(ok, "R6", A.loc(mainf, pc), "a false return of parse() leaves main at once", "main:parse-false-return")
    gm = Fl.CFG(mainf)
    is_parse = Fl.is_call_to("vfps::ProgramOptions::parse")
    builds = lambda n: n.get("k") in ("CXXConstructExpr", "CXXNewExpr") and any(s in (n.get("callee_class") or n.get("alloc_type") or "")
                                                                                 for s in ("PhaseSpace", "KickMap", "DriftMap", "ElectricField", "HDF5File", "FokkerPlanckMap"))
    res = gm.every_path_to(builds, is_parse)
    A.require(len(res) >= 5, "main: constructions of simulation objects not found")
    chk.check(all(ok_ for _, ok_ in res), "R6", mainf.where, "options are parsed on every path before any simulation object is built (%d constructions)" % len(res),
              "main:parse-dominates-build")
    # parse(): missing / unreadable file -- decided on the CFG of parse() with the branch conditions evaluated under the hypothesis
    # (three-valued: a condition the hypothesis does not fix stays open), not on the spelling of the if/else
    locals_init = {}
    for x in A.walk(pf["body"]):
        if x.get("k") == "DeclStmt":
            for d in x.get("decls", []):
                if d.get("k") == "VarDecl" and isinstance(d.get("init"), dict) and d.get("is_const"):
                    locals_init[d["decl"]] = d["init"]

    def tv(c, atom):
        """truth value of condition c given atom(node) -> True/False/None for atomic tests"""
        c = A.strip(c)
        if c.get("k") == "UnaryOperator" and c.get("op") == "!":
            v = tv(c["c"][0], atom)
            return None if v is None else (not v)
        if c.get("k") == "BinaryOperator" and c.get("op") in ("&&", "||"):
            a_, b_ = tv(c["c"][0], atom), tv(c["c"][1], atom)
            if c["op"] == "&&":
                return False if (a_ is False or b_ is False) else (True if (a_ and b_) else None)
            return True if (a_ is True or b_ is True) else (False if (a_ is False and b_ is False) else None)
        if c.get("k") == "DeclRefExpr" and c.get("decl") in locals_init:
            return tv(locals_init[c["decl"]], atom)
        if c.get("k") in ("CXXOperatorCallExpr", "CXXMemberCallExpr") and c.get("op") in ("!",):
            v = tv(c["args"][0], atom)
            return None if v is None else (not v)
        return atom(c)

    undecided = []

    def hypothesis(kind):
        def atom(c):
            txt = A.show(c).replace(" ", "")
            callee = c.get("callee") or ""
            if kind == "missing":
                if callee in ("boost::filesystem::exists", "boost::filesystem::is_regular_file", "std::filesystem::exists", "std::filesystem::is_regular_file"):
                    return False
            if kind == "unreadable":
                if callee in ("boost::filesystem::exists", "boost::filesystem::is_regular_file", "std::filesystem::exists", "std::filesystem::is_regular_file"):
                    return True
                # the stream tested in a boolean context: `!ifs`, `ifs.fail()`, `!ifs.is_open()`
                if "basic_ifstream" in (c.get("ctype") or "") or (c.get("k") == "CXXMemberCallExpr" and callee.endswith("::operatorbool") or "operator bool" in callee):
                    return False
                if c.get("k") == "CXXMemberCallExpr" and callee.split("::")[-1] in ("fail", "bad"):
                    return True
                if c.get("k") == "CXXMemberCallExpr" and callee.split("::")[-1] in ("is_open", "good"):
                    return False
            # a named configuration file was given (not empty, not /dev/null, not the optional default.cfg)
            if "_configfile" in txt and c.get("k") in ("CallExpr", "CXXMemberCallExpr") and c.get("callee_in_root"):
                undecided.append(A.show(c)[:60])         # a helper of the program decides something about the name: not modelled
                return None
            if "_configfile" in txt:
                if c.get("k") in ("CXXOperatorCallExpr", "BinaryOperator") and c.get("op") in ("==", "!="):
                    lits = [y.get("value") for y in A.walk(c) if y.get("k") == "StringLiteral"]
                    if lits:
                        return c["op"] == "!="
                if c.get("k") == "CXXMemberCallExpr" and callee.endswith("::empty"):
                    return False
            return None
        return atom
    gp = Fl.CFG(pf)
    is_cfg_parse = Fl.is_call_to("boost::program_options::parse_config_file")
    ret_false = lambda n: n.get("k") == "ReturnStmt" and n.get("c") and A.strip(n["c"][0]).get("value") is False
    ret_true = lambda n: n.get("k") == "ReturnStmt" and n.get("c") and A.strip(n["c"][0]).get("value") is True
    says = lambda n: n.get("k") == "CXXOperatorCallExpr" and n.get("op") == "<<" or (n.get("callee") or "").endswith("printText")
    for kind, key_, text in (("missing", "parse:missing-file", "a config file that does not exist"), ("unreadable", "parse:unreadable-file", "a config file that cannot be opened")):
        del undecided[:]
        g_ = gp.pruned(lambda c, a_=hypothesis(kind): tv(c, a_))
        reach = g_.reach_from_entry
        loads = [e for e in g_.events(is_cfg_parse)]
        rts = g_.events(ret_true)
        # after the options of the command line are in (the first store), every continuation must print and return false:
        # no path to `return true`, none to the config-file parser, and a message on the way to each `return false`
        rfs = g_.events(ret_false)
        silent = [e for e in rfs if not g_.every_path_to(lambda n, t=e[2]: n is t or n.get("id") == t["id"], says)[0][1]]
        after_cli = g_.every_path_to(ret_true, lambda n: False)
        okk = bool(rfs) and not loads and not silent
        # `return true` may only remain reachable on the paths that leave before the configuration file is looked at (info options)
        if okk and rts:
            first_cfg = gp.events(lambda n: "_configfile" in A.show(n) and n.get("k") in ("CXXOperatorCallExpr", "CXXMemberCallExpr", "BinaryOperator"))
            if first_cfg:
                b0, i0, _ = min(first_cfg, key=lambda e: e[2]["line"])
                okk = not g_.some_path_between((b0, i0 - 1), ret_true)
        if not okk and undecided:
            raise AnalysisBroken("parse(): a condition on the configuration file name is decided inside a helper (%s); the hypothesis '%s' cannot be "
                                 "evaluated through it" % (sorted(set(undecided)), text))
        chk.check(okk, "R6", pf.where, "%s prints a message and makes parse() return false (CFG of parse() under that hypothesis: config-file parser %s, "
                  "%d `return false`, %d of them without a message)" % (text, "unreachable" if not loads else "reachable", len(rfs), len(silent)), key_)
    # ---- R9: what the boost parsers throw (unknown option, malformed value) reaches main's handler ------------------------------------------
    # main turns an exception into a message and EXIT_FAILURE, but a `false` from parse() into EXIT_SUCCESS: a handler inside parse()
    # that does not re-throw therefore turns the error into a success status (or lets the run go on with a half-read configuration)
    pidx = A.index(pf)
    throwing = [x for x in A.walk(pf["body"]) if x.get("k") == "CallExpr" and (x.get("callee") or "") in
                ("boost::program_options::store", "boost::program_options::notify", "boost::program_options::parse_command_line",
                 "boost::program_options::parse_config_file")]
    chk.floor("R9-parser-calls", len(throwing), 4)
    for x in throwing:
        swallowed = []
        for t_ in A.enclosing(pidx, x, {"CXXTryStmt"}):
            in_try = any(y is x or y.get("id") == x["id"] for y in A.walk(t_.get("body") or (t_.get("c") or [{}])[0]))
            if not in_try:
                continue
            for h in t_.get("handlers", []):
                hb = h.get("body") or {}
                last = (hb.get("c") or [None])[-1] if hb.get("k") == "CompoundStmt" else hb
                while isinstance(last, dict) and last.get("k") in ("ExprWithCleanups",) and last.get("c"):
                    last = last["c"][0]
                rethrows = isinstance(last, dict) and last.get("k") == "CXXThrowExpr" and not any(y.get("k") == "ReturnStmt" for y in A.walk(hb))
                if not rethrows:
                    swallowed.append(h.get("caught") or "...")
        chk.check(not swallowed, "R9", A.loc(pf, x), "%s: an exception of the parser leaves parse() (it is main that reports it and returns a failure status)%s"
                  % ((x.get("callee") or "").split("::")[-1], "" if not swallowed else "; caught here without re-throw: %s" % swallowed),
                  "parse:swallows:%s" % (x.get("callee") or "").split("::")[-1])
    # ---- R10: a group is complete when it is put into another group -----------------------------------------------------------------------------
    # options_description::add(const options_description&) copies the argument as it is at that moment: everything that fills group Y
    # (Y.add_options()..., Y.add(Z)) must come before every X.add(Y), or X is built from an incomplete Y (legacy names no longer accepted)
    ctor = t.ctor
    fills, puts = {}, []
    for x in A.walk(ctor["body"]):
        if x.get("k") != "CXXMemberCallExpr":
            continue
        cal = x.get("callee") or ""
        obj = A.this_field(A.strip(A.call_object(x))) if A.call_object(x) is not None else None
        if obj is None:
            continue
        if cal.endswith("options_description::add_options"):
            fills.setdefault(obj, []).append(x)
        elif cal.endswith("options_description::add") and x.get("args"):
            src = A.this_field(A.strip(x["args"][0]))
            if src is not None:
                puts.append((obj, src, x))
                fills.setdefault(obj, []).append(x)
    chk.floor("R10-group-compositions", len(puts), 4)
    # the end of the statement a fill belongs to (the whole add_options()(...)(...) chain) is what must precede
    cidx = A.index(ctor)

    def stmt_end(n):
        cur = n
        while True:
            par = cidx[1].get(cur["id"])
            if par is None or par.get("k") == "CompoundStmt":
                return max(y["id"] for y in A.walk(cur))
            cur = par
    for dst, src, x in puts:
        late = [f_ for f_ in fills.get(src, []) if stmt_end(f_) > x["id"] and f_ is not x]
        chk.check(not late, "R10", A.loc(ctor, x), "%s.add(%s): every statement that fills %s comes before (%d later: lines %s)"
                  % (dst, src, src, len(late), sorted({f_["line"] for f_ in late})), "options:group-copied-before-filled:%s<-%s" % (dst, src))
    # ---- R11: a value is looked at only after it has been delivered ------------------------------------------------------------------------------------
    # store() fills the variables map; the bound members receive their values in notify().  A member read in parse() before the first
    # notify() on that path still holds the constructor's value (a "was a file named?" flag computed there is always the default's answer)
    bound_fields = {o.field for o in t.options if getattr(o, "field", None)} if hasattr(t, "options") else set()
    if not bound_fields:
        bound_fields = {o.field for grp in t.by_group.values() for o in grp if getattr(o, "field", None)}
    reads_of_bound = lambda n: n.get("k") == "MemberExpr" and A.this_field(n) in bound_fields
    res11 = g.every_path_to(reads_of_bound, is_notify)
    n11 = 0
    seen11 = set()
    for (b_, i_, n_), ok_ in res11:
        fld_ = A.this_field(n_)
        n11 += 1
        if (fld_, ok_) in seen11:
            continue
        seen11.add((fld_, ok_))
        chk.check(ok_, "R11", A.loc(pf, n_), "parse() reads %s only after a notify() has delivered the parsed value on every path" % fld_, "parse:read-before-notify:%s" % fld_)
    chk.floor("R11-reads-of-bound-members", n11, 3)
    chk.notes.append("C20: store order and targets, _vm writers, alias truth tables on a finite model of boost store/notify instantiated "
                     "with the extracted option table, ignored-option fields, cli/file agreement, error discipline. Exhaustive over the table.")
