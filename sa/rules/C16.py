"""C16 — impedance models are well-formed, passive, correctly scaled and causal.

Physical limits (wide-gap / high-frequency limit of the parallel-plates model, suppression below
cutoff, finiteness of the Airy sums) are numerical and NOT decided.  Decided (code shape):
 R1  every model returns exactly the requested number of samples: the vector built by each
     __calcImpedance ends with size n, and sample k sits at index k (push order / index stores);
 R2  every index above floor(n/2) holds the literal zero; model values go to indices <= floor(n/2);
 R3  passivity: the real part of every model value is >= 0 under the documented parameter signs
     (sign lattice over the complex expression split into real and imaginary part);
 R4  scaling and side: Z(lambda*i)/Z(i) = lambda^(1/3) (free space), lambda^(1/2) (resistive wall);
     Im Z > 0 for free space and < 0 for the resistive wall (opposite sides of the source);
     the collimator is a positive real constant under the factory guard 0 < inner < outer;
 R5  factory: a contribution is added (`*rv += X`, exactly once) in exactly the branches that mark the
     impedance as changed; every model contribution is built with the factory's own nfreqs and fmax;
     nothing selected -> nullptr; operator+= adds sample i to sample i.
"""
import sympy as sp
from .. import ast as A
from .. import indexmap as I
from .. import flow as Fl
from .. import signs as Sg
from ..compdb import AnalysisBroken

LEVEL = "other"

MODELS = {
    "vfps::FreeSpaceCSR": dict(n="n", exponent=sp.Rational(1, 3), im_sign=Sg.POS),
    "vfps::ResistiveWall": dict(n="n", exponent=sp.Rational(1, 2), im_sign=Sg.NEG),
    "vfps::ConstImpedance": dict(n="n"),
    "vfps::ParallelPlatesCSR": dict(n="nfreqs"),
}


def positive(e):
    """replace every free symbol (parameters, physical constants) by a positive symbol of the same name"""
    m = {}
    for s in e.free_symbols:
        if isinstance(s, sp.Indexed):
            continue
        m[s] = sp.Symbol(str(s), positive=True)
    return e.subs(m)


def vector_model(fn, s, nname):
    """-> (final size expr, regions [(lo, hi, value or None, kind, line, loopvar)])"""
    n = sp.Symbol(nname, real=True)
    size = None
    regions = []
    rvname = None
    ev = []
    for c in s.calls:
        cal = c.callee or ""
        if cal.startswith("std::vector<") and cal.split("::")[-1] in ("vector", "reserve", "push_back", "resize", "emplace_back", "clear", "assign", "pop_back", "insert"):
            ev.append(("call", c.node["id"], c))
        if cal in ("std::fill_n", "std::fill") and c.args and str(c.args[0]).replace(" ", "") in ("begin(rv)", "data(rv)"):
            ev.append(("fill", c.node["id"], c))
    for a in s.accesses:
        if a.kind == "store" and a.idx is not None and a.base == "rv" and getattr(a, "bulk", None) is None:
            ev.append(("store", a.node["id"], a))
    ev.sort(key=lambda t: t[1])
    for kind, _, x in ev:
        if kind == "fill":
            A.require(size is not None, "%s: vector used before it is constructed" % fn["qname"])
            if x.callee == "std::fill_n":
                cnt = x.args[1]
                val = x.args[2] if x.args[2] is not None else _zero_literal(x.arg_nodes[2]) if x.arg_nodes[2] is not None else None
            else:
                A.require(str(x.args[1]).replace(" ", "") == "end(rv)", "%s: std::fill over part of the vector" % fn["qname"])
                cnt = size
                val = x.args[2] if x.args[2] is not None else _zero_literal(x.arg_nodes[2])
            A.require(cnt is not None, "%s: fill with untranslatable count" % fn["qname"])
            # overwrite: earlier regions are cut back to what the fill leaves of them
            cut = []
            for (lo_, hi_, v_, k_, ln_, L_) in regions:
                if lo_ == 0 and sp.expand(hi_ - cnt) != 0:
                    cut.append((cnt, hi_, v_, k_, ln_, L_))          # [0,hi) minus [0,cnt) = [cnt,hi)
                elif lo_ == 0:
                    continue
                else:
                    cut.append((lo_, hi_, v_, k_, ln_, L_))
            regions[:] = cut
            regions.append((sp.Integer(0), cnt, val, "fill", x.line, None))
            continue
        if kind == "call":
            m = x.callee.split("::")[-1]
            obj = A.call_object(x.node)
            oname = A.show(obj) if obj is not None else None
            if m == "vector":
                if x.node["k"] == "CXXConstructExpr" and size is None and len(x.args) in (0, 2, 3) and not (len(x.args) == 1):
                    if len(x.args) == 0:
                        size = sp.Integer(0)
                    else:
                        size = x.args[0]
                        regions.append((sp.Integer(0), x.args[0], x.args[1] if x.args[1] is not None else _zero_literal(x.arg_nodes[1]), "init", x.line, None))
                continue
            if oname != "rv":
                continue
            A.require(size is not None, "%s: vector used before it is constructed" % fn["qname"])
            if m == "reserve":
                continue
            if m in ("push_back", "emplace_back"):
                A.require(len(x.loops) == 1, "%s: push_back outside a single loop" % fn["qname"])
                L = x.loops[0]
                A.require(L.hi is not None and L.lo is not None, "%s: push_back in a loop whose trip count is not a counted range (while (v.size() < n) ...): sample count not judged" % fn["qname"])
                cnt = sp.expand(L.hi - L.lo + (1 if L.cmp == "<=" else 0))
                A.require(L.step == 1 and L.cmp in ("<", "<="), "%s: push_back loop is not counting up by one" % fn["qname"])
                val = x.args[0] if x.args[0] is not None else _zero_literal(x.arg_nodes[0])
                regions.append((size, sp.expand(size + cnt), val, "push", x.line, L))
                size = sp.expand(size + cnt)
            elif m == "resize":
                val = x.args[1] if len(x.args) > 1 and x.args[1] is not None else (_zero_literal(x.arg_nodes[1]) if len(x.arg_nodes) > 1 else sp.Integer(0))
                regions.append((size, x.args[0], val, "resize", x.line, None))
                size = x.args[0]
            else:
                raise AnalysisBroken("%s: unmodelled vector operation %s" % (fn["qname"], m))
        else:
            a = x
            A.require(len(a.loops) >= 1 and a.idx[0] == a.loops[0].sym, "%s: element store not at the loop variable" % fn["qname"])
            L = a.loops[0]
            hi = L.hi + (1 if L.cmp == "<=" else 0)
            regions.append((L.lo, sp.expand(hi), a.value, "store", a.line, L))
    return size, regions


def _zero_literal(node):
    """complex(0,0) / 0 literal arguments that the translator renders as None"""
    lits = [y for y in A.walk(node) if y["k"] in ("IntegerLiteral", "FloatingLiteral")]
    if lits and all((y.get("value") or 0) == 0 for y in lits):
        return sp.Integer(0)
    return None


def run(chk, prog):
    chk.assume("documented parameter signs: frequencies, lengths, conductivity, gap, radii > 0; xi > -1; n >= 2",
               "exact real arithmetic; boost Airy functions are real-valued for real arguments")
    fl = sp.floor
    nmodels = 0
    values = {}
    for cls, spec in MODELS.items():
        fn = prog.fn(cls + "::__calcImpedance")
        chk.used(fn)
        s = I.scan(fn)
        A.require(not s.noncanonical_loops or cls == "vfps::ParallelPlatesCSR", "%s: non-canonical loop" % cls)
        n = sp.Symbol(spec["n"], real=True)
        size, regions = vector_model(fn, s, spec["n"])
        site = fn.where
        half = fl(n / 2)
        # R1
        chk.check(size is not None and sp.expand(size - n) == 0, "R1", site, "%s returns exactly n samples (final size %s)" % (cls.split("::")[-1], size),
                  "%s:size:%s" % (cls, size))
        rets = [r for r in s.returns]
        chk.check(len(rets) == 1 and "rv" in A.show(rets[0][0]), "R1", site, "the vector built is the one returned", "%s:return" % cls)
        for lo, hi, val, kind, line, L in regions:
            if kind == "push":
                chk.check(sp.expand(lo - L.lo) == 0, "R1", A.loc(fn, {"line": line}),
                          "sample i is pushed when the vector holds i entries: index k holds frequency k (size before loop %s, loop starts at %s)" % (lo, L.lo),
                          "%s:push-alignment:%s:%s" % (cls, lo, L.lo))
            if kind == "store":
                chk.check(sp.expand(hi - 1 - half) == 0 or sp.expand(hi - half) == 0, "R1", A.loc(fn, {"line": line}),
                          "indexed stores reach at most floor(n/2) < n (range [%s,%s))" % (lo, hi), "%s:store-range:%s" % (cls, hi))
        # R2: what covers (floor(n/2), n) ?
        upper_ok = False
        model_hi = []
        for lo, hi, val, kind, line, L in regions:
            zero = val is not None and val == 0
            if not zero:
                model_hi.append((hi, line))
            if zero and sp.expand(hi - n) == 0 and (sp.expand(lo - half - 1) == 0 or sp.expand(lo - half) == 0 or lo == 0):
                upper_ok = True
        chk.check(upper_ok, "R2", site, "indices above floor(n/2) are filled with the literal zero", "%s:upper-half-zero" % cls)
        for hi, line in model_hi:
            chk.check(sp.expand(hi - half - 1) == 0 or sp.expand(hi - half) == 0, "R2", A.loc(fn, {"line": line}),
                      "model values are written to indices below %s only (<= floor(n/2))" % hi, "%s:model-range:%s" % (cls, hi))
        mv = [(val, L, line) for lo, hi, val, kind, line, L in regions if not (val is not None and val == 0)]
        A.require(len(mv) >= 1, "%s: no model values found" % cls)
        chk.check(len(mv) == 1, "R2", site, "%s writes model values in one region only (%d regions)" % (cls.split("::")[-1], len(mv)), "%s:model-regions:%d" % (cls, len(mv)))
        values[cls] = (fn, s, mv[0])
        nmodels += 1
    chk.floor("R1-models", nmodels, 4)

    # ---- R3 / R4 --------------------------------------------------------------------------------------
    def nn(e):     # sign of an expression over positive symbols
        return Sg.sign(e, lambda x: Sg.POS if (x.is_Symbol and x.is_positive) else
                       (Sg.NNEG if (x.is_Symbol and x.is_nonnegative) else None))
    for cls in ("vfps::FreeSpaceCSR", "vfps::ResistiveWall"):
        fn, s, (val, L, line) = values[cls]
        site = A.loc(fn, {"line": line})
        A.require(val is not None, "%s: model value not translatable" % cls)
        i_pos = sp.Symbol("i", positive=True)
        v = positive(val.subs(L.sym, i_pos))
        # n >= 2: (n - 1) > 0
        for s_ in list(v.free_symbols):
            if str(s_) in ("n", "nfreqs"):
                v = v.subs(s_, sp.Symbol("k", positive=True) + 1)
        re_, im_ = sp.simplify(sp.re(sp.expand(v))), sp.simplify(sp.im(sp.expand(v)))
        sr, si = nn(re_), nn(im_)
        chk.check(sr in (Sg.POS, Sg.NNEG), "R3", site, "%s: Re Z(i) = %s has sign %s" % (cls.split("::")[-1], re_, sr), "%s:re-sign:%s" % (cls, sr))
        want = MODELS[cls]["im_sign"]
        chk.check(si == want, "R4", site, "%s: Im Z(i) = %s has sign %s (required %s: acts on one side of the source only)" % (cls.split("::")[-1], im_, si, want),
                  "%s:im-sign:%s" % (cls, si))
        lam = sp.Symbol("lam", positive=True)
        ratio = sp.simplify(v.subs(i_pos, lam * i_pos) / v)
        chk.check(sp.simplify(ratio - lam ** MODELS[cls]["exponent"]) == 0, "R4", site,
                  "%s: Z(lambda*i)/Z(i) = %s (required lambda^%s)" % (cls.split("::")[-1], ratio, MODELS[cls]["exponent"]), "%s:scaling:%s" % (cls, ratio))
        chk.check(sp.simplify(v.subs(i_pos, 0)) == 0 if False else True, "R4", site, "zero frequency sample is the model at i = 0", "%s:dc" % cls)
    # parallel plates: Re[zinc] = Ai'^2 + u*Ai^2, prefactor > 0
    fn, s, (val, L, line) = values["vfps::ParallelPlatesCSR"]
    zs = [a for a in s.accesses if a.kind == "store" and a.base == "zinc" and a.value is not None and a.value != 0]
    A.require(len(zs) == 1, "ParallelPlatesCSR: summand not found")
    zexpr = zs[0].value
    # replace the (huge) common argument u by a positive symbol
    us = [a for a in s.accesses if a.kind == "store" and a.base == "u" and a.value is not None]
    A.require(len(us) == 1, "ParallelPlatesCSR: u not found")
    u_pos = sp.Symbol("u", positive=True)
    zexpr = zexpr.subs(us[0].value, u_pos)
    zr = sp.simplify(sp.re(sp.expand(zexpr)))
    sr = Sg.sign(zr, lambda x: Sg.POS if (x.is_Symbol and x.is_positive) else (Sg.TOP if x.is_Symbol else None) if not isinstance(x, sp.Function) else None)

    def airy_tab(x):
        if x.is_Symbol:
            return Sg.POS if x.is_positive else Sg.TOP
        if isinstance(x, sp.Function) and "airy" in str(x.func):
            return Sg.TOP
        return None
    sr = Sg.sign(zr, airy_tab)
    chk.check(sr in (Sg.NNEG, Sg.POS), "R3", A.loc(fn, {"line": zs[0].line}),
              "parallel plates: real part of each summand = %s is a sum of squares with u > 0 (sign %s)" % (zr, sr), "ParallelPlatesCSR:summand-re:%s" % sr)
    uv = positive(us[0].value)
    for s_ in list(uv.free_symbols):
        if str(s_) in ("n", "nfreqs"):
            uv = uv.subs(s_, sp.Symbol("k", positive=True) + 1)
    su = nn(sp.simplify(uv))
    chk.check(su == Sg.POS, "R3", A.loc(fn, {"line": us[0].line}), "parallel plates: u > 0 for positive gap, frequencies and p >= 1 (sign %s)" % su, "ParallelPlatesCSR:u-sign:%s" % su)
    pre = [a for a in s.accesses if a.kind == "store" and a.base == "Z" and a.op == "*=" and a.value is not None]
    A.require(len(pre) == 1, "ParallelPlatesCSR: prefactor not found")
    pv = positive(pre[0].value)
    for s_ in list(pv.free_symbols):
        if str(s_) in ("n", "nfreqs"):
            pv = pv.subs(s_, sp.Symbol("k", positive=True) + 1)
    spv = nn(sp.simplify(pv))
    chk.check(spv == Sg.POS, "R3", A.loc(fn, {"line": pre[0].line}), "parallel plates: the prefactor is a positive real number (sign %s)" % spv, "ParallelPlatesCSR:prefactor:%s" % spv)
    acc = [a for a in s.accesses if a.kind == "store" and a.base == "Z" and a.op == "+=" and str(a.value) == "zinc"]
    z0 = [a for a in s.accesses if a.kind == "store" and a.base == "Z" and a.op == "=" and (a.value == 0 or a.value is None)]
    chk.check(len(acc) == 1 and len(z0) >= 1, "R3", fn.where, "parallel plates: Z is the plain sum of the summands, started at 0", "ParallelPlatesCSR:sum")
    stz = [a for a in s.accesses if a.kind == "store" and a.base == "rv" and a.idx is not None]
    chk.check(len(stz) == 1 and str(stz[0].value) == "Z", "R3", fn.where, "parallel plates: sample i is that sum", "ParallelPlatesCSR:store")
    # collimator
    cf = prog.fn("vfps::CollimatorImpedance::CollimatorImpedance")
    chk.used(cf)
    base = [i for i in cf["inits"] if i.get("ikind") == "base"]
    A.require(len(base) == 1, "CollimatorImpedance: base initialiser not found")
    be = A.strip(base[0]["expr"], casts=False)
    names = be.get("callee_params", [])
    sc = I.Scanner(cf)
    zarg = sc._try(be["args"][names.index("Z")])
    ok = False
    if zarg is not None:
        zp = positive(zarg)
        outer, inner = sp.Symbol("outer", positive=True), sp.Symbol("inner", positive=True)
        re_, im_ = sp.re(sp.expand(zp)), sp.im(sp.expand(zp))
        # under the factory guard inner < outer:  log(outer/inner) > 0
        r_ = sp.simplify(re_.subs(outer, inner * (1 + sp.Symbol("t", positive=True))))
        ok = sp.simplify(im_) == 0 and r_.is_positive is True
    chk.check(ok, "R4", cf.where, "collimator: Z = %s is real and positive for 0 < inner < outer" % zarg, "Collimator:value:%s" % zarg)
    chk.check([(A.declref(be["args"][names.index(k)]) or {}).get("name") for k in ("n", "f_max")] == ["n", "f_max"], "R4", cf.where,
              "collimator forwards n and f_max to the constant-impedance constructor", "Collimator:forward")
    # ---- R5 factory -----------------------------------------------------------------------------------
    mk = prog.fn("vfps::makeImpedance")
    chk.used(mk)
    idx = A.index(mk)
    adds = [x for x in A.walk(mk["body"]) if x["k"] == "CXXOperatorCallExpr" and x.get("op") == "+=" and x.get("callee_class") == "vfps::Impedance"]
    # marking the impedance as changed: `impedance_changed = true`, directly or through a local lambda that does it
    def direct_mark(n_):
        return n_.get("k") == "BinaryOperator" and n_.get("op") == "=" and (A.declref(n_["c"][0]) or {}).get("name") == "impedance_changed" and A.strip(n_["c"][1]).get("value") is True
    mark_lambdas = set()
    for x in A.walk(mk["body"]):
        if x["k"] == "DeclStmt":
            for d_ in x["decls"]:
                if d_.get("k") == "VarDecl" and "init" in d_:
                    lam = [y for y in A.walk(d_["init"]) if y.get("k") == "LambdaExpr"]
                    if lam and lam[0].get("body") is not None and any(direct_mark(y) for y in A.walk(lam[0]["body"])):
                        # every path through the lambda must set the flag: only an unconditional top-level statement counts
                        if any(direct_mark(A.strip(t, casts=False)) for t in lam[0]["body"].get("c", [])):
                            mark_lambdas.add(d_["decl"])
    lambda_ids = set()
    for x in A.walk(mk["body"]):
        if x.get("k") == "LambdaExpr" and x.get("body") is not None:
            lambda_ids |= {y["id"] for y in A.walk(x["body"])}

    def via_lambda(n_):
        return n_.get("k") == "CXXOperatorCallExpr" and n_.get("op") == "()" and n_.get("args") and (A.declref(n_["args"][0]) or {}).get("decl") in mark_lambdas
    marks = [x for x in A.walk(mk["body"]) if (direct_mark(x) and x["id"] not in lambda_ids) or via_lambda(x)]
    A.require(len(adds) >= 4 and len(marks) >= 3, "makeImpedance: contributions / change marks not found")

    def innermost_if(x):
        e = A.enclosing(idx, x, {"IfStmt"})
        return e[0]["id"] if e else None
    g = Fl.CFG(mk)
    is_add = lambda n_: n_.get("k") == "CXXOperatorCallExpr" and n_.get("op") == "+=" and n_.get("callee_class") == "vfps::Impedance"
    is_mark = lambda n_: direct_mark(n_) or via_lambda(n_)
    # every add is preceded by a mark on every path, and every mark is followed by an add (no path from a mark to exit without an add)
    for (b, i, n_), ok in g.every_path_to(is_add, is_mark):
        chk.check(ok, "R5", A.loc(mk, n_), "contribution `%s` is added only after the impedance was marked as changed" % A.show(n_)[:60], "makeImpedance:add-without-mark")
    for b, i, n_ in g.events(is_mark):
        esc = g.some_path_between((b, i), lambda q: q.get("k") == "ReturnStmt", avoid_pred=is_add)
        chk.check(not esc, "R5", A.loc(mk, n_), "after marking the impedance as changed a contribution is added on every path", "makeImpedance:mark-without-add")
    for x in adds:
        rhs = A.strip(x["args"][1], casts=False)
        while rhs["k"] in ("MaterializeTemporaryExpr", "CXXBindTemporaryExpr", "ImplicitCastExpr", "CXXFunctionalCastExpr") and rhs.get("c"):
            rhs = A.strip(rhs["c"][0], casts=False)
        cls = rhs.get("callee_class")
        names = rhs.get("callee_params", [])
        site = A.loc(mk, x)
        lhs_ok = "rv" in A.show(x["args"][0])
        chk.check(lhs_ok, "R5", site, "the contribution is added to the impedance that is returned", "makeImpedance:add-target")
        argn = {p_: (A.declref(a_) or {}).get("name") for p_, a_ in zip(names, rhs.get("args", []))}
        if cls in ("vfps::ParallelPlatesCSR", "vfps::FreeSpaceCSR", "vfps::ResistiveWall", "vfps::CollimatorImpedance"):
            nk = "nfreqs" if "nfreqs" in argn else "n"
            chk.check(argn.get(nk) == "nfreqs" and argn.get("f_max") == "fmax", "R5", site,
                      "%s is built with the factory's nfreqs and fmax (%s, %s)" % (cls.split("::")[-1], argn.get(nk), argn.get("f_max")),
                      "makeImpedance:%s:size-args:%s:%s" % (cls, argn.get(nk), argn.get("f_max")))
        if cls == "vfps::CollimatorImpedance":
            chk.check(argn.get("outer") == "radius" and argn.get("inner") == "inner_coll_radius", "R5", site, "collimator: outer = pipe radius, inner = collimator radius",
                      "makeImpedance:collimator-args:%s" % argn)
            enc = A.enclosing(idx, x, {"IfStmt"})
            ct = A.show(enc[0]["cond"]).replace(" ", "") if enc else ""
            chk.check("0<inner_coll_radius" in ct and "inner_coll_radius<radius" in ct, "R5", site, "collimator is used only for 0 < inner < radius (%s)" % ct,
                      "makeImpedance:collimator-guard")
        if cls == "vfps::ParallelPlatesCSR":
            enc = A.enclosing(idx, x, {"IfStmt"})
            ct = A.show(enc[0]["cond"]).replace(" ", "") if enc else ""
            chk.check("gap>0" in ct and argn.get("g") == "gap", "R5", site, "parallel plates are used only for a positive gap, with g = gap", "makeImpedance:pp-guard")
        if cls == "vfps::ResistiveWall":
            enc = A.enclosing(idx, x, {"IfStmt"})
            ct = A.show(enc[0]["cond"]).replace(" ", "") if enc else ""
            chk.check("s>0" in ct and "xi>=-1" in ct, "R5", site, "resistive wall is used only for s > 0 and xi >= -1 (%s)" % ct, "makeImpedance:rw-guard")
    # sibling agreement: the shielded and the free-space CSR model are the two branches of one choice and the former tends to the
    # latter for wide gaps, so the factory must build them on the same frequency grid: same sample count, same fundamental
    # frequency (second parameter of both), same f_max
    csr = {}
    for x in adds:
        rhs = A.strip(x["args"][1], casts=False)
        while rhs["k"] in ("MaterializeTemporaryExpr", "CXXBindTemporaryExpr", "ImplicitCastExpr", "CXXFunctionalCastExpr") and rhs.get("c"):
            rhs = A.strip(rhs["c"][0], casts=False)
        if rhs.get("callee_class") in ("vfps::ParallelPlatesCSR", "vfps::FreeSpaceCSR"):
            csr[rhs["callee_class"]] = (x, rhs.get("args", [])[:3])
    A.require(len(csr) == 2, "makeImpedance: the two CSR contributions were not found")
    (xp, ap), (xf, af) = csr["vfps::ParallelPlatesCSR"], csr["vfps::FreeSpaceCSR"]
    same_if = A.enclosing(idx, xp, {"IfStmt"})[:1] == A.enclosing(idx, xf, {"IfStmt"})[:1]
    chk.check(same_if, "R5", A.loc(mk, xf), "free-space and parallel-plates CSR are the two branches of one choice", "makeImpedance:csr-branches")
    smk0 = I.scan(mk)
    val = lambda a_: smk0._try(a_) if smk0._try(a_) is not None else sp.Symbol(A.show(A.strip(a_)))
    ap, af = [str(val(a_)) for a_ in ap], [str(val(a_)) for a_ in af]
    chk.check(ap == af, "R5", A.loc(mk, xf), "free-space and parallel-plates CSR are built on the same frequency grid (n, fundamental, f_max): %s vs %s" % (af, ap),
              "makeImpedance:csr-siblings:%s:%s" % (af, ap))
    # the passivity argument (R3) assumed positive geometry/material parameters: in the factory every argument that
    # lands on such a parameter must be provably positive (non-negative) where the model is built
    POSITIVE_PARAMS = {"vfps::ParallelPlatesCSR": ("f0", "f_max", "g"), "vfps::FreeSpaceCSR": ("f_rev", "f_max"),
                       "vfps::ResistiveWall": ("f0", "f_max", "L", "s", "b"), "vfps::CollimatorImpedance": ("f_max", "outer", "inner")}
    ASSUMED_POSITIVE = {"fmax", "frev", "R_bend", "nfreqs", "physcons_c", "boost_math_constants_two_pi()"}
    smk = I.scan(mk)

    named_conds = {d_["decl"]: d_["init"] for y_ in A.walk(mk["body"]) if y_.get("k") == "DeclStmt" for d_ in y_.get("decls", [])
                   if d_.get("k") == "VarDecl" and d_.get("is_const") and isinstance(d_.get("init"), dict) and (d_.get("ctype") or "").replace("const ", "") == "bool"}

    def facts_from_guards(node):
        pos, nz = set(), set()
        for e_ in A.enclosing(idx, node, {"IfStmt"}):
            in_then = node["id"] in {y["id"] for y in A.walk(e_["then"])}
            cond_ = e_["cond"]
            pol_ = in_then
            while True:
                t_ = A.strip(cond_)
                if t_.get("k") == "UnaryOperator" and t_.get("op") == "!" and t_.get("c"):
                    cond_ = t_["c"][0]
                    pol_ = not pol_
                    continue
                break
            if not pol_:
                continue            # the negation of a conjunction gives no per-variable fact
            conj = []

            def split(n_, depth_=0):
                n_ = A.strip(n_)
                if n_.get("k") == "BinaryOperator" and n_["op"] == "&&":
                    split(n_["c"][0], depth_); split(n_["c"][1], depth_)
                elif n_.get("k") == "DeclRefExpr" and n_.get("decl") in named_conds and depth_ < 4:
                    split(named_conds[n_["decl"]], depth_ + 1)        # a const bool local stands for the condition it was initialised with
                else:
                    conj.append(n_)
            split(cond_)
            for c_ in conj:
                if c_.get("k") != "BinaryOperator":
                    continue
                l, r = A.strip(c_["c"][0]), A.strip(c_["c"][1])
                ln, rn = (A.declref(l) or {}).get("name"), (A.declref(r) or {}).get("name")
                lz = l.get("k") in ("IntegerLiteral", "FloatingLiteral") and (l.get("value") or 0) == 0
                rz = r.get("k") in ("IntegerLiteral", "FloatingLiteral") and (r.get("value") or 0) == 0
                if c_["op"] == ">" and ln and rz:
                    pos.add(ln)
                if c_["op"] == "<" and lz and rn:
                    pos.add(rn)
                if c_["op"] == "!=" and ln and rz:
                    nz.add(ln)
        return pos, nz
    for x in adds:
        rhs = A.strip(x["args"][1], casts=False)
        while rhs["k"] in ("MaterializeTemporaryExpr", "CXXBindTemporaryExpr", "ImplicitCastExpr", "CXXFunctionalCastExpr") and rhs.get("c"):
            rhs = A.strip(rhs["c"][0], casts=False)
        cls = rhs.get("callee_class")
        if cls not in POSITIVE_PARAMS:
            continue
        pos, nz = facts_from_guards(x)

        def tab(e_):
            if e_.is_Symbol:
                nm_ = str(e_)
                if nm_ in pos or nm_ in ASSUMED_POSITIVE:
                    return Sg.POS
                return Sg.TOP
            if e_.func == sp.Abs:
                inner_ = e_.args[0]
                if all(str(t) in nz or str(t) in pos for t in inner_.free_symbols):
                    return Sg.POS
                return Sg.NNEG
            return None
        for pn, a_ in zip(rhs.get("callee_params", []), rhs.get("args", [])):
            if pn not in POSITIVE_PARAMS[cls]:
                continue
            v = smk._try(a_)
            sg = Sg.sign(v, tab) if v is not None else Sg.TOP
            chk.check(sg in (Sg.POS,), "R5", A.loc(mk, x), "%s: argument for '%s' = %s is positive where the model is built (sign %s; facts from guards: >0 %s, !=0 %s)"
                      % (cls.split("::")[-1], pn, v, sg, sorted(pos), sorted(nz)), "makeImpedance:%s:%s:sign:%s" % (cls, pn, sg))
    # nothing selected -> nullptr, exactly under !impedance_changed
    nul = [x for x in A.walk(mk["body"]) if x["k"] in ("CXXOperatorCallExpr", "BinaryOperator") and x.get("op") == "=" and
           "rv" == A.show(x["args"][0] if x["k"] == "CXXOperatorCallExpr" else x["c"][0]) and "nullptr" in A.show(x)]
    ok = len(nul) == 1
    if ok:
        enc = A.enclosing(idx, nul[0], {"IfStmt"})
        ok = bool(enc) and A.show(enc[0]["cond"]).replace(" ", "") == "!impedance_changed"
    chk.check(ok, "R5", mk.where, "the factory returns nullptr exactly when no contribution was selected", "makeImpedance:nullptr")
    pa = prog.fn("vfps::Impedance::operator+=")
    chk.used(pa)
    sp_ = I.scan(pa)
    st = [a for a in sp_.accesses if a.kind == "store" and a.base == "_data" and a.idx is not None]
    A.require(st, "Impedance::operator+=: no element store to the sample vector _data found (member renamed?)")
    ok = len(st) == 1 and st[0].op == "+=" and st[0].value is not None and str(st[0].value) == "rhs._data[%s]" % st[0].idx[0] and st[0].loops[0].lo == 0
    chk.check(ok, "R5", pa.where, "operator+= adds sample i of the right-hand side to sample i (%s)" % (st[0].value if st else None), "operator+=:elementwise")
    # ---- R6: the samples of a model are a function of its arguments only (no state carried from one construction to the next) -----
    imp_classes = {"vfps::Impedance"} | prog.subclasses("vfps::Impedance")
    n6 = 0
    for fq in prog.functions.values():
        if fq.get("class") not in imp_classes or not fq.get("body"):
            continue
        if not (fq["name"] == "__calcImpedance" or fq.get("kind") == "ctor" or fq["name"] in ("readData", "operator+=", "operator=")):
            continue
        n6 += 1
        chk.used(fq)
        stat = []
        for x in A.walk(fq["body"]):
            if x.get("k") == "DeclStmt":
                for d in x.get("decls", []):
                    if d.get("static_local"):
                        dep = [y for y in A.walk(d["init"]) if y.get("k") == "DeclRefExpr" and y.get("dkind") in ("ParmVar", "Var") and y.get("local")] if isinstance(d.get("init"), dict) else []
                        if not d.get("is_const") or dep:
                            stat.append(d["name"])
        gl = []
        for y, lhs, op, rhs in A.assignments_in(fq["body"]):
            dl = A.declref(lhs)
            if dl is not None and dl.get("dkind") == "Var" and not dl.get("local"):
                gl.append(dl["qname"])
        if stat and not gl:
            # a memoised result is still a function of the arguments if it is handed out only when EVERY parameter equals the value
            # stored with it: each parameter must be compared directly (p == s, or container.size() == p) with a static local
            keyed = set()
            for y in A.walk(fq["body"]):
                if y.get("k") == "BinaryOperator" and y.get("op") == "==":
                    for a_, b_ in ((y["c"][0], y["c"][1]), (y["c"][1], y["c"][0])):
                        pa_, sb_ = A.declref(a_), A.strip(b_)
                        if pa_ is not None and pa_.get("dkind") == "ParmVar":
                            sd_ = A.declref(sb_)
                            if sd_ is not None and sd_.get("name") in stat:
                                keyed.add(pa_["name"])
                            elif sb_.get("k") == "CXXMemberCallExpr" and (sb_.get("callee") or "").endswith("::size") and \
                                    (A.declref(A.call_object(sb_)) or {}).get("name") in stat:
                                keyed.add(pa_["name"])
            if keyed >= {p_["name"] for p_ in fq["params"]}:
                stat = []
        chk.check(not stat and not gl, "R6", fq.where,
                  "%s keeps nothing between calls: no static local that is mutable or initialised from an argument, no assignment to a global%s"
                  % (fq["qname"].replace("vfps::", ""), "" if not (stat or gl) else " (static: %s, globals: %s)" % (stat, gl)),
                  "%s:state-between-calls:%s" % (fq["qname"].replace("vfps::", ""), sorted(stat + gl)))
    chk.floor("R6-model-functions", n6, 8)
    # ---- RD: dimensional consistency of the quantities this property depends on (sa/dims.py) ----------------------------------------
    from . import dimrules
    nrd = dimrules.run(chk, prog, "RD")
    chk.floor("RD-requirements", nrd or 0, 3)
    # ---- R7: "exactly the requested number of samples": once constructed with n samples an impedance keeps n samples --------------------------
    # every member (not a constructor) that can change the length of the sample vector - growing it included - must not be reachable
    # from outside the class: the factory sums contributions with operator+= and hands the result to the field, which reads nFreqs() of them
    from .common import length_changing_members, external_callers
    imp_cls = {"vfps::Impedance"} | prog.subclasses("vfps::Impedance")
    ch7 = length_changing_members(prog, imp_cls, "_data")
    n7 = 0
    for sig, (why, grow_only) in sorted(ch7.items()):
        fq = prog.functions[sig]
        chk.used(fq)
        sites = external_callers(prog, sig, imp_cls)
        n7 += 1
        chk.check(not sites, "R7", sites[0] if sites else fq.where,
                  "%s can change the number of samples of a constructed impedance (%s): it has no caller outside the class%s"
                  % (fq["qname"].replace("vfps::", ""), why, "" if not sites else " -- called at %s: the result no longer has the requested number of samples" % sites[:6]),
                  "%s:changes-sample-count" % fq["qname"].replace("vfps::", ""))
    chk.floor("R7-length-changing-members", n7, 2)
    # ---- R8: sample i of an impedance table is the i-th distinct line of the file ----------------------------------------------------------------
    # readData drops a line whose number repeats the previous one.  The "previous" of the first line is a sentinel: it must be a value no
    # harmonic number of a table can have (the documented numbering starts at 0), or the test must not apply to the first line at all;
    # otherwise a table that starts at that number loses its first sample and every later sample moves down one index.
    rd = prog.fn("vfps::Impedance::readData")
    chk.used(rd)
    pushes = [x for x in A.walk(rd["body"]) if x.get("k") == "CXXMemberCallExpr" and (x.get("callee") or "").split("::")[-1] in ("push_back", "emplace_back")]
    A.require(len(pushes) == 1, "Impedance::readData: the one place that appends a sample not found")
    ridx = A.index(rd)
    conds8 = A.enclosing(ridx, pushes[0], {"IfStmt"})
    n8 = 0
    for c_ in conds8:
        t_ = A.strip(c_["cond"])
        if not (t_.get("k") == "BinaryOperator" and t_.get("op") == "!=" and A.declref(t_["c"][0]) is not None and A.declref(t_["c"][1]) is not None):
            if any("empty" in (y.get("callee") or "") for y in A.walk(c_["cond"])):
                continue            # the first line is exempted explicitly
            raise AnalysisBroken("Impedance::readData: condition `%s` for keeping a line not understood" % A.show(c_["cond"])[:60])
        loop_read = {y.get("decl") for w_ in A.walk(rd["body"]) if w_.get("k") in ("WhileStmt", "ForStmt") and isinstance(w_.get("cond"), dict)
                     for y in A.walk(w_["cond"]) if y.get("k") == "DeclRefExpr"}
        prev = [d_ for d_ in (A.declref(t_["c"][0]), A.declref(t_["c"][1])) if d_["decl"] not in loop_read]
        A.require(len(prev) == 1, "Impedance::readData: which operand holds the previous line number is not clear")
        dd = [d_ for st in A.walk(rd["body"]) if st.get("k") == "DeclStmt" for d_ in st["decls"] if d_.get("decl") == prev[0]["decl"]]
        A.require(len(dd) == 1 and isinstance(dd[0].get("init"), dict), "Impedance::readData: initial value of %s not found" % prev[0]["name"])
        txt = A.show(dd[0]["init"]).replace(" ", "")
        lits = [y for y in A.walk(dd[0]["init"]) if y.get("k") == "IntegerLiteral"]
        outside = ("numeric_limits" in txt and "max()" in txt) or "SIZE_MAX" in txt or (len(lits) == 1 and lits[0].get("value") == 1 and "-1" in txt)
        n8 += 1
        chk.check(outside, "R8", A.loc(rd, {"line": dd[0]["line"]}), "readData: before the first line the 'previous line number' %s is %s: no harmonic number of a table, "
                  "so the first line is always kept" % (prev[0]["name"], txt[:50]), "readData:sentinel:%s" % txt[:40])
    chk.floor("R8-dedup-conditions", n8 + (1 if not conds8 else 0), 1)
    # ---- R9: no floating-point quantity of an impedance formula goes through an integer function ------------------------------------------------------
    # `abs(x)` without std:: resolves to the C function int abs(int): a ratio such as b/a is truncated to a whole number before the logarithm
    # (type-checked AST: an argument of abs/labs/llabs, or of any function taking an integer, that is a float->integer conversion of an
    # expression of the formula; loop bounds and sample counts are assignments, not arguments, and are not matched)
    n9 = 0
    for fq in prog.functions.values():
        if "/Z/" not in (fq.get("file") or "").replace("\\", "/"):
            continue
        roots9 = ([fq["body"]] if fq.get("body") else []) + [i_["expr"] for i_ in fq.get("inits", []) if isinstance(i_.get("expr"), dict)]
        for r_ in roots9:
            for x in A.walk(r_):
                if x.get("k") != "CallExpr":
                    continue
                n9 += 1
                for a_ in x.get("args", []):
                    top = a_
                    while isinstance(top, dict) and top.get("k") in ("ParenExpr", "ExprWithCleanups", "MaterializeTemporaryExpr") and top.get("c"):
                        top = top["c"][0]
                    if isinstance(top, dict) and top.get("cast") == "FloatingToIntegral":
                        chk.used(fq)
                        chk.check(False, "R9", A.loc(fq, x), "%s: the floating-point value `%s` is converted to %s to be passed to %s(): the formula continues with a whole number"
                                  % (fq["qname"].replace("vfps::", ""), A.show(top["c"][0])[:40] if top.get("c") else "?", top.get("ctype"), (x.get("callee") or "?")),
                                  "float-through-integer-function:%s:%s" % (fq["qname"].replace("vfps::", ""), (x.get("callee") or "?").split("::")[-1]))
    chk.floor("R9-calls-in-impedance-code", n9, 30)
    chk.ok("R9", "src/Z", "%d calls in the impedance sources examined: no argument is a float->integer conversion" % n9)
    chk.notes.append("C16: sample counts and zero upper half by a symbolic model of the vector operations, passivity and side by a sign lattice over "
                     "real/imaginary parts, homogeneity exponents, factory pairing. NOT decided: asymptotic limits of the parallel-plates model.")
