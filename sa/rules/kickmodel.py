"""Facts about KickMap (constructor, apply, applyTo) shared by C01, C08, C15, C17."""
import sympy as sp
from .. import ast as A
from .. import indexmap as I
from ..compdb import AnalysisBroken
from . import sizemodel as S


class Branch:
    pass


class KickApply:
    def __init__(self, prog):
        self.fn = fn = prog.fn("vfps::KickMap::apply", nparams=0)
        s = self.scan = I.scan(fn)
        A.require(not s.noncanonical_loops, "KickMap::apply: non-canonical loop")
        self.branches = {}
        for a in s.accesses:
            kd = [(g, pol) for g, pol in I.plain_guards(a.guards) if isinstance(g, dict) and g.get("k") == "BinaryOperator"
                  and A.this_field(g["c"][0]) == "_kickdirection"]
            if not kd:
                continue
            g, pol = kd[0]
            rhs = A.declref(g["c"][1])
            A.require(rhs is not None and rhs.get("dkind") == "EnumConstant" and g["op"] in ("==", "!="),
                      "KickMap::apply: unexpected kick-direction test")
            if g["op"] == "!=":
                pol = not pol
            axis = rhs["name"] if pol else {"x": "y", "y": "x"}[rhs["name"]]
            b = self.branches.setdefault(axis, Branch())
            b.axis = axis
            b.__dict__.setdefault("hinfo", [])
            b.__dict__.setdefault("din", [])
            b.__dict__.setdefault("dout", [])
            if a.kind == "load" and a.base == "_hinfo":
                b.hinfo.append(a)
            elif a.kind == "load" and a.base == "data_in":
                b.din.append(a)
            elif a.kind == "store" and a.base == "data_out" and a.idx is not None:
                b.dout.append(a)
        A.require(set(self.branches) == {"x", "y"}, "KickMap::apply: x and y branches not found")
        for b in self.branches.values():
            A.require(len(b.hinfo) >= 1 and len(b.din) == 1 and len(b.dout) == 1,
                      "KickMap::apply(%s): expected _hinfo reads, one grid read, one grid write" % b.axis)
            # several reads of the table (index and weight fetched separately) are fine as long as they address the same entry;
            # the rules look at the read made inside the innermost (stencil point) loop first
            b.hinfo.sort(key=lambda a_: -len(a_.loops))
            b.hinfo_same_entry = all(a_.idx is not None and b.hinfo[0].idx is not None and sp.expand(a_.idx[0] - b.hinfo[0].idx[0]) == 0 for a_ in b.hinfo)


def kick_fields(prog):
    """KickMap constructor initialisers, normalised with the size model"""
    fn = prog.fn("vfps::KickMap::KickMap")
    s = I.scan(fn)
    out = {}
    for a in s.accesses:
        if a.kind == "store" and a.idx is None and a.base.startswith("_"):
            out[a.base] = S.norm(a.value) if a.value is not None else None
    return fn, s, out


def source_guard(ka, b):
    """Is the grid read of branch b executed only under `c < N` (unsigned), where the source cell is
    n*N*N + stride*c + (perpendicular loop variable)*otherstride ?  -> (ok, explanation)"""
    N = S.N
    sz = {sp.Symbol("_meshsize_kd", real=True): N, sp.Symbol("_meshsize_pd", real=True): N}
    din = b.din[0]
    Sx = sp.expand(S.norm(din.idx[0]).subs(sz))
    nl = [L for L in din.loops if L.name == "n"]
    if len(nl) != 1:
        return False, "bunch loop not found"
    rest = sp.expand(Sx - nl[0].sym * N * N)
    if rest.has(nl[0].sym):
        return False, "source index is not n*N*N + in-bunch part: %s" % Sx
    sc = ka.scan
    for g, pol in I.plain_guards(din.guards):
        if not isinstance(g, dict) or g.get("k") in ("SwitchCase", "Catch") or not pol:
            continue
        gn = A.strip(g)
        if gn.get("k") != "BinaryOperator" or gn["op"] != "<":
            continue
        if "unsigned" not in (gn["c"][0].get("ctype") or "") or "unsigned" not in (gn["c"][1].get("ctype") or ""):
            continue
        lhs, rhs = sc._try(gn["c"][0]), sc._try(gn["c"][1])
        if lhs is None or rhs is None:
            continue
        lhs, rhs = sp.expand(S.norm(lhs).subs(sz)), sp.expand(S.norm(rhs).subs(sz))
        if sp.expand(rhs - N) != 0:
            continue
        for stride, other in ((N, 1), (1, N)):
            rem = sp.expand(rest - stride * lhs)
            cand = [L for L in din.loops if L.sym is not None and rem == other * L.sym]
            if len(cand) == 1 and cand[0].lo == 0 and sp.expand(S.norm(cand[0].hi).subs(sz) - N) == 0:
                return True, "source = n*N*N + %s*(%s) + %s*%s, read only if (%s) < N (unsigned), %s in [0,N)" % (
                    stride, lhs, other, cand[0].name, lhs, cand[0].name)
    return False, "no guard of the form `coordinate < N` (unsigned) on the wrapped source coordinate itself; in-bunch part %s, guards: %s" % (
        rest, I.guard_text(din.guards))


# ---------------------------------------------------------------------------------------------------------------------
# the source-map table is a cache of the displacement field: whoever changes `_offset` must rebuild `_hinfo`

_MUTATORS = {"swap", "assign", "resize", "clear", "push_back", "emplace_back", "insert", "erase", "fill"}
_BULK_DST = {"std::copy_n": 2, "std::copy": 2, "std::fill_n": 0, "std::fill": 0, "std::transform": -1, "std::move": 2, "std::generate": 0,
             "std::generate_n": 0, "std::iota": 0, "std::swap_ranges": 2, "std::memcpy": 0, "memcpy": 0, "std::memset": 0, "memset": 0}


def _guard_keys(guards):
    out = set()
    for g, pol in I.plain_guards(guards):
        if g is None:
            continue
        if g.get("k") == "SwitchCase":
            out.add(("case", A.show(g["cond"]), str(g["labels"])))
        elif g.get("k") == "Catch":
            out.add(("catch", g["caught"]))
        else:
            out.add((bool(pol), A.show(A.strip(g))))
    return out


def _is_offset_field(n):
    return A.this_field(n) == "_offset"


def _full_content_test(g, pol):
    """Is (g, pol) the condition "the whole displacement field differs from another vector"?  Accepted spellings:
    `_offset != v`, `!(_offset == v)`, `!std::equal(_offset.begin(), _offset.end(), v.begin())` (either operand order).
    A rebuild skipped when *all* displacements are unchanged is still a rebuild on every path that changed something."""
    n = A.strip(g)
    while n.get("k") == "UnaryOperator" and n.get("op") == "!":
        n, pol = A.strip(n["c"][0]), not pol
    if n.get("k") == "CXXOperatorCallExpr" and n.get("op") in ("!=", "==") and len(n.get("args", [])) == 2:
        if any(_is_offset_field(a) for a in n["args"]) and all("vector" in (A.strip(a).get("ctype") or "") for a in n["args"]):
            return (n["op"] == "!=") == bool(pol)
    if n.get("k") == "CallExpr" and n.get("callee") == "std::equal" and len(n.get("args", [])) == 3 and not pol:
        def rng(a, which):
            a = A.strip(a)
            while a.get("k") in ("CXXConstructExpr", "CXXTemporaryObjectExpr") and len(a.get("args", [])) == 1:
                a = A.strip(a["args"][0])
            if a.get("k") == "CXXMemberCallExpr" and (a.get("callee") or "").split("::")[-1] in which:
                return A.call_object(a)
            return None
        b, e, o = rng(n["args"][0], ("begin", "cbegin")), rng(n["args"][1], ("end", "cend")), rng(n["args"][2], ("begin", "cbegin"))
        if b is not None and e is not None and o is not None and A.show(b) == A.show(e) and (_is_offset_field(b) or _is_offset_field(o)):
            return True
    return False


def offset_writes(scan, owner_ctor=False):
    """every event of a scanned function body that changes elements of the displacement field `_offset`:
    element stores (also through aliases: the scanner resolves them), mutating container calls on the field, bulk algorithms
    whose destination is the field -> list of (seq, line, guards, loops, text)"""
    out = []
    for a in scan.accesses:
        if a.kind == "store" and a.base == "_offset" and (a.idx is not None or getattr(a, "bulk", None) is not None):
            out.append((a.seq, a.line, a.guards, a.loops, "store _offset[%s]" % (", ".join(str(i) for i in a.idx) if a.idx else "*")))
    for c in scan.calls:
        short = (c.callee or "").split("::")[-1]
        if c.obj is not None and A.this_field(c.obj) == "_offset" and short in _MUTATORS:
            if owner_ctor and short in ("resize", "assign"):
                continue            # the constructor of the class that owns the field sizes it: allocation, not a change of an established field
            out.append((c.seq, c.line, c.guards, c.loops, "_offset.%s(...)" % short))
        elif c.callee in _BULK_DST:
            k = _BULK_DST[c.callee]
            if k < 0:
                k = len(c.args) - 2
            if 0 <= k < len(c.args) and "_offset" in str(c.args[k]):
                out.append((c.seq, c.line, c.guards, c.loops, "%s -> %s" % (c.callee, c.args[k])))
    return out


def offset_table_sync(chk, prog, rule):
    """Rule: in every function of the KickMap family that changes `_offset`, each change is followed -- under no further
    condition -- by a rebuild of the source-map table (`updateSM`, directly or through a family member that itself always
    rebuilds).  Otherwise apply() moves the grid by displacements that are no longer the ones in `_offset`."""
    fam = {"vfps::KickMap"} | prog.subclasses("vfps::KickMap")
    fns = [f for f in prog.functions.values() if f.get("class") in fam and f.get("body")]
    scans = {}
    for f in fns:
        try:
            scans[f["sig"]] = I.scan(f)
        except Exception:          # a member the scanner cannot read cannot be shown to keep the table in sync
            scans[f["sig"]] = None
    # must-rebuild summary: functions that call updateSM (or another must-rebuild member) unconditionally
    must = {}
    changed = True
    while changed:
        changed = False
        for f in fns:
            s = scans[f["sig"]]
            if s is None or f["sig"] in must:
                continue
            for c in s.calls:
                tgt = c.sig or c.callee
                if ((c.callee or "").endswith("::updateSM") or tgt in must) and not _guard_keys(c.guards) and not c.loops:
                    must[f["sig"]] = c.seq
                    changed = True
                    break
    nw = 0
    # a member that fills the offsets without rebuilding (a fetch helper) is judged at its call sites: it must have callers, all of them
    # inside the family, and each call counts there as a change of the displacement field
    fam_sigs = {f["sig"] for f in fns}
    callers_of = {}
    for g in prog.functions.values():
        roots = ([g["body"]] if g.get("body") else []) + [i_["expr"] for i_ in g.get("inits", []) if isinstance(i_.get("expr"), dict)]
        for r_ in roots:
            for y in A.walk(r_):
                if y.get("callee_sig") in fam_sigs:
                    callers_of.setdefault(y["callee_sig"], set()).add(g["sig"])
    helpers = set()
    for f in fns:
        s = scans[f["sig"]]
        if s is None or f["name"] == "updateSM" or f.get("kind") in ("ctor", "dtor") or f["sig"] in must:
            continue
        ws0 = offset_writes(s, owner_ctor=False)
        has_sync = any((c.callee or "").endswith("::updateSM") or (c.sig or c.callee) in must for c in s.calls)
        cs = callers_of.get(f["sig"], set())
        if ws0 and not has_sync and cs and cs <= fam_sigs and not f.get("virtual"):
            helpers.add(f["sig"])
    for f in fns:
        if f["name"] == "updateSM" or f["sig"] in helpers:
            continue
        s = scans[f["sig"]]
        if s is None:
            continue
        ws = offset_writes(s, owner_ctor=(f.get("kind") == "ctor" and f.get("class") == "vfps::KickMap"))
        for c in s.calls:
            if (c.sig or c.callee) in helpers:
                ws = list(ws) + [(c.seq, c.line, c.guards, c.loops, "call of %s(), which fills _offset" % (c.callee or "").split("::")[-1])]
        if not ws:
            continue
        chk.used(f)
        syncs = [c for c in s.calls if (c.callee or "").endswith("::updateSM") or (c.sig or c.callee) in must]
        for seq, line, guards, loops, text in ws:
            gk = _guard_keys(guards)
            later = [c for c in syncs if c.seq > seq and _guard_keys([(g_, p_) for g_, p_ in I.plain_guards(c.guards)
                                                                     if not (isinstance(g_, dict) and g_.get("k") not in ("SwitchCase", "Catch")
                                                                             and _full_content_test(g_, p_))]) <= gk and not [L for L in c.loops if L not in loops]]
            if later:
                # ... and no early exit lies between the change and the rebuild: on the function's CFG every path from the block of the
                # change to the exit runs through a rebuild call
                try:
                    from .. import flow as Fl_
                    # (a rebuild skipped because the WHOLE field compares equal to what it was is still a rebuild wherever something changed:
                    # such a test is resolved to "differs")
                    def content_decide(c_):
                        try:
                            if _full_content_test(c_, True):
                                return True
                            if _full_content_test(c_, False):
                                return False
                        except Exception:
                            pass
                        return None
                    g_ = Fl_.CFG(f).pruned(content_decide)
                    wnode = [y for y in A.walk(f["body"]) if y.get("line") == line and (y.get("k") in ("BinaryOperator", "CompoundAssignOperator", "CallExpr", "CXXMemberCallExpr", "CXXOperatorCallExpr"))]
                    pos = None
                    for y in wnode:
                        pos = g_.where(y)
                        if pos is not None:
                            break
                    if pos is not None:
                        sync_names = {(c.sig or c.callee) for c in syncs} | {c.callee for c in syncs}
                        is_sync = lambda n_: n_.get("k") in ("CXXMemberCallExpr", "CallExpr") and ((n_.get("callee_sig") or n_.get("callee")) in sync_names or (n_.get("callee") or "") in sync_names)
                        mn_, mx_ = g_.count_on_paths(is_sync, start=pos[0])
                        if mn_ == 0:
                            later = []
                except Exception:
                    pass
            nw += 1
            short = f["qname"].replace("vfps::", "")
            chk.check(bool(later), rule, "%s:%d" % (f.where.split(":")[0], line),
                      "%s changes the displacement field (%s) and rebuilds the source-map table afterwards on every path on which it did%s"
                      % (short, text, "" if later else " -- rebuild calls: %s" % [(c.line, I.guard_text(c.guards)) for c in syncs]),
                      "%s:offset-change-without-rebuild:%s" % (short, text.split("[")[0].split("(")[0].strip()))
    chk.floor(rule + "-offset-writers", nw, 6)
