"""Facts about KickMap (constructor, apply, applyTo) shared by C01, C08, C15, C17."""
import sympy as sp
from .. import ast as A
from .. import indexmap as I
from ..compdb import AnalysisBroken
from . import sizemodel as S


class Branch:
    pass


class KickApply:
    def __init__(self, prog):
        self.fn = fn = prog.fn("vfps::KickMap::apply", nparams=0)
        s = self.scan = I.scan(fn)
        A.require(not s.noncanonical_loops, "KickMap::apply: non-canonical loop")
        self.branches = {}
        for a in s.accesses:
            kd = [(g, pol) for g, pol in a.guards if isinstance(g, dict) and g.get("k") == "BinaryOperator"
                  and A.this_field(g["c"][0]) == "_kickdirection"]
            if not kd:
                continue
            g, pol = kd[0]
            rhs = A.declref(g["c"][1])
            A.require(rhs is not None and rhs.get("dkind") == "EnumConstant" and g["op"] == "==",
                      "KickMap::apply: unexpected kick-direction test")
            axis = rhs["name"] if pol else {"x": "y", "y": "x"}[rhs["name"]]
            b = self.branches.setdefault(axis, Branch())
            b.axis = axis
            b.__dict__.setdefault("hinfo", [])
            b.__dict__.setdefault("din", [])
            b.__dict__.setdefault("dout", [])
            if a.kind == "load" and a.base == "_hinfo":
                b.hinfo.append(a)
            elif a.kind == "load" and a.base == "data_in":
                b.din.append(a)
            elif a.kind == "store" and a.base == "data_out" and a.idx is not None:
                b.dout.append(a)
        A.require(set(self.branches) == {"x", "y"}, "KickMap::apply: x and y branches not found")
        for b in self.branches.values():
            A.require(len(b.hinfo) == 1 and len(b.din) == 1 and len(b.dout) == 1,
                      "KickMap::apply(%s): expected one _hinfo read, one grid read, one grid write" % b.axis)


def kick_fields(prog):
    """KickMap constructor initialisers, normalised with the size model"""
    fn = prog.fn("vfps::KickMap::KickMap")
    s = I.scan(fn)
    out = {}
    for a in s.accesses:
        if a.kind == "store" and a.idx is None and a.base.startswith("_"):
            out[a.base] = S.norm(a.value) if a.value is not None else None
    return fn, s, out
