"""Facts about KickMap (constructor, apply, applyTo) shared by C01, C08, C15, C17."""
import sympy as sp
from .. import ast as A
from .. import indexmap as I
from ..compdb import AnalysisBroken
from . import sizemodel as S


class Branch:
    pass


class KickApply:
    def __init__(self, prog):
        self.fn = fn = prog.fn("vfps::KickMap::apply", nparams=0)
        s = self.scan = I.scan(fn)
        A.require(not s.noncanonical_loops, "KickMap::apply: non-canonical loop")
        self.branches = {}
        for a in s.accesses:
            kd = [(g, pol) for g, pol in I.plain_guards(a.guards) if isinstance(g, dict) and g.get("k") == "BinaryOperator"
                  and A.this_field(g["c"][0]) == "_kickdirection"]
            if not kd:
                continue
            g, pol = kd[0]
            rhs = A.declref(g["c"][1])
            A.require(rhs is not None and rhs.get("dkind") == "EnumConstant" and g["op"] in ("==", "!="),
                      "KickMap::apply: unexpected kick-direction test")
            if g["op"] == "!=":
                pol = not pol
            axis = rhs["name"] if pol else {"x": "y", "y": "x"}[rhs["name"]]
            b = self.branches.setdefault(axis, Branch())
            b.axis = axis
            b.__dict__.setdefault("hinfo", [])
            b.__dict__.setdefault("din", [])
            b.__dict__.setdefault("dout", [])
            if a.kind == "load" and a.base == "_hinfo":
                b.hinfo.append(a)
            elif a.kind == "load" and a.base == "data_in":
                b.din.append(a)
            elif a.kind == "store" and a.base == "data_out" and a.idx is not None:
                b.dout.append(a)
        A.require(set(self.branches) == {"x", "y"}, "KickMap::apply: x and y branches not found")
        for b in self.branches.values():
            A.require(len(b.hinfo) >= 1 and len(b.din) == 1 and len(b.dout) == 1,
                      "KickMap::apply(%s): expected _hinfo reads, one grid read, one grid write" % b.axis)
            # several reads of the table (index and weight fetched separately) are fine as long as they address the same entry;
            # the rules look at the read made inside the innermost (stencil point) loop first
            b.hinfo.sort(key=lambda a_: -len(a_.loops))
            b.hinfo_same_entry = all(a_.idx is not None and b.hinfo[0].idx is not None and sp.expand(a_.idx[0] - b.hinfo[0].idx[0]) == 0 for a_ in b.hinfo)


def kick_fields(prog):
    """KickMap constructor initialisers, normalised with the size model"""
    fn = prog.fn("vfps::KickMap::KickMap")
    s = I.scan(fn)
    out = {}
    for a in s.accesses:
        if a.kind == "store" and a.idx is None and a.base.startswith("_"):
            out[a.base] = S.norm(a.value) if a.value is not None else None
    return fn, s, out


def source_guard(ka, b):
    """Is the grid read of branch b executed only under `c < N` (unsigned), where the source cell is
    n*N*N + stride*c + (perpendicular loop variable)*otherstride ?  -> (ok, explanation)"""
    N = S.N
    sz = {sp.Symbol("_meshsize_kd", real=True): N, sp.Symbol("_meshsize_pd", real=True): N}
    din = b.din[0]
    Sx = sp.expand(S.norm(din.idx[0]).subs(sz))
    nl = [L for L in din.loops if L.name == "n"]
    if len(nl) != 1:
        return False, "bunch loop not found"
    rest = sp.expand(Sx - nl[0].sym * N * N)
    if rest.has(nl[0].sym):
        return False, "source index is not n*N*N + in-bunch part: %s" % Sx
    sc = ka.scan
    for g, pol in I.plain_guards(din.guards):
        if not isinstance(g, dict) or g.get("k") in ("SwitchCase", "Catch") or not pol:
            continue
        gn = A.strip(g)
        if gn.get("k") != "BinaryOperator" or gn["op"] != "<":
            continue
        if "unsigned" not in (gn["c"][0].get("ctype") or "") or "unsigned" not in (gn["c"][1].get("ctype") or ""):
            continue
        lhs, rhs = sc._try(gn["c"][0]), sc._try(gn["c"][1])
        if lhs is None or rhs is None:
            continue
        lhs, rhs = sp.expand(S.norm(lhs).subs(sz)), sp.expand(S.norm(rhs).subs(sz))
        if sp.expand(rhs - N) != 0:
            continue
        for stride, other in ((N, 1), (1, N)):
            rem = sp.expand(rest - stride * lhs)
            cand = [L for L in din.loops if L.sym is not None and rem == other * L.sym]
            if len(cand) == 1 and cand[0].lo == 0 and sp.expand(S.norm(cand[0].hi).subs(sz) - N) == 0:
                return True, "source = n*N*N + %s*(%s) + %s*%s, read only if (%s) < N (unsigned), %s in [0,N)" % (
                    stride, lhs, other, cand[0].name, lhs, cand[0].name)
    return False, "no guard of the form `coordinate < N` (unsigned) on the wrapped source coordinate itself; in-bunch part %s, guards: %s" % (
        rest, I.guard_text(din.guards))
