"""C03 — the bunch centroid rotates by 2*pi/steps per step and the orbit closes.

The tune is a property of the product of thousands of steps on run-time data: closure after a
period, the size of the splitting error and the sinusoidal model at finite amplitude are NOT
decided.  Decided: the linearised one-step map that the code shape fixes.
 R1  slopes: the RF offset folded from RFKickMap::_calcKick (linear model, phase = synchronous
     phase, amplitude 1) has d/dx = -tan(angle); the drift offset folded from the DriftMap
     constructor (first slip term) has d/dy = slip0*delta1/delta0.  With content moving by
     -offset, the centred one-step map is  Y' = Y + tan(a) X,  X' = X - s Y'  (det 1).  Required:
     the coupling product -s*tan(a), with s = a and delta0 = delta1, expands to -a^2 + O(a^4):
     elliptic, fixed sense, phase advance a + O(a^3).
 R2  single source of the angle: the value reaching RFKickMap's `angle` and the first slip element
     reaching DriftMap are the same const variable of main, whose initialiser is 2*pi/steps; delta0 =
     delta1 because both axes span pqsize with the same number of cells.
 R3  centre: the RF offset vanishes at x = zero bin of axis 0 and mentions axis 0 only; the drift
     offset vanishes where the axis-1 coordinate is 0 and mentions the axis-1 coordinate (and
     delta0 for normalisation) only; the zero bin is -min/delta (grid lemma).
 R4  the sinusoidal model focuses in the same sense as the linear one at the synchronous point.
 R6  the sinusoidal model linearised at the synchronous point has, per unit cos(phi_s), the slope angle = 2*pi/steps once the constructor
     parameters are replaced by what main passes (V_eff, f_rev*dt, f_RF) and the axis scales by what main gives the phase space (natural
     bunch length, dE): the two RF models agree to first order, which pins the position unit to the effective f_s and alpha.
"""
import sympy as sp
from .. import ast as A
from .. import indexmap as I
from .. import callargs as CA
from ..compdb import AnalysisBroken
from . import gridmodel as G, sizemodel as S

LEVEL = "other"


def run(chk, prog):
    chk.assume("exact real arithmetic", "linear RF model for the rate claim; small-amplitude statement only for the sinusoidal sense check",
               "positive physical constants (scales, delta, V_RF, revolution part, cos(synchronous phase) > 0)")
    G.lemmas(chk, prog)
    S.lemmas(chk, prog)
    hook = G.make_hook()
    rf = prog.fn("vfps::RFKickMap::_calcKick", nparams=2)
    dm = prog.fn("vfps::DriftMap::DriftMap")
    chk.used(rf); chk.used(dm)
    srf = I.scan(rf, hooks=[hook])
    sdm = I.scan(dm, hooks=[hook])
    folds = I.fold_stores(srf.accesses, "_offset")
    lin = [f for f in folds if any(A.this_field(g) == "_linear" and pol for g, pol in f["guards"] if isinstance(g, dict) and g.get("k") not in ("SwitchCase", "Catch"))]
    sin = [f for f in folds if any(A.this_field(g) == "_linear" and not pol for g, pol in f["guards"] if isinstance(g, dict) and g.get("k") not in ("SwitchCase", "Catch"))]
    A.require(len(lin) == 1 and len(sin) == 1, "RFKickMap::_calcKick: linear / sinusoidal offset formulas not found")
    lin, sin = lin[0], sin[0]
    x = lin["loops"][0].sym
    ang = sp.Symbol("_angle", real=True)
    phase, ampl, sync = sp.Symbol("phase", real=True), sp.Symbol("ampl", real=True), sp.Symbol("_syncphase", real=True)
    off_rf = lin["value"].subs({phase: sync, ampl: 1})
    b = sp.simplify(sp.diff(off_rf, x))
    site_rf = A.loc(rf, {"line": lin["line"]})
    chk.check(sp.simplify(b + sp.tan(ang)) == 0, "R1", site_rf, "linear RF offset has slope d/dx = -tan(angle) (got %s)" % b, "RF:slope:%s" % b)
    chk.check(lin["loops"][0].lo == 0 and str(lin["loops"][0].hi) == "_xsize" and lin["idx"] == (x,), "R1", site_rf,
              "the RF offset of column x is stored at _offset[x] for all columns", "RF:range")
    slip0 = sp.IndexedBase("slip")[0]
    d0, d1 = G.AX(0, "delta"), G.AX(1, "delta")
    # closed form of the drift table by bounded unrolling (E8): the slip vector has as many elements as main puts into it
    from .. import unroll as U
    from ..algebra import Unconvertible
    mainf0 = prog.fn("main")
    sl0 = [d for st in A.walk(mainf0["body"]) if st["k"] == "DeclStmt" for d in st["decls"] if d.get("k") == "VarDecl" and d["name"] == "slip"]
    il0 = [t for d in sl0 if isinstance(d.get("init"), dict) for t in A.walk(d["init"]) if t["k"] == "InitListExpr"]
    A.require(len(sl0) == 1 and il0 and il0[-1].get("inits"), "main: slip = {...} not found")
    K = len(il0[-1]["inits"])
    unrolled = None
    try:
        u1 = U.Unroller(dm, hooks=[hook], vec_len={"slip": 1}, target_fields={"_offset"}).run()
        uK = U.Unroller(dm, hooks=[hook], vec_len={"slip": K}, target_fields={"_offset"}).run()
        s1, sK = u1.stores("_offset"), uK.stores("_offset")
        if len(s1) == 1 and len(sK) == 1 and len(sK[0][3]) == 1:
            unrolled = (s1[0], sK[0], uK.opaque_calls)
    except Unconvertible as e_:
        chk.notes.append("C03: DriftMap constructor not unrollable (%s); falling back to the summand form" % e_)
    if unrolled is not None:
        (idx1, v1, line1, loops1), (idxK, vK, lineK, loopsK), opaque = unrolled
        y, ybound = loopsK[0]
        site_d = A.loc(dm, {"line": lineK})
        chk.check(idxK == y and str(ybound) == "_ysize", "R1", site_d, "the drift offset of row y is stored at _offset[y] for all rows (index %s, y < %s)" % (idxK, ybound),
                  "Drift:range")
        for cal, ln in opaque:
            cf = prog.fns(cal)
            wr = [a for f_ in cf if f_.get("body") for a in I.scan(f_, hooks=[hook]).accesses if a.kind == "store" and a.base == "_offset"]
            chk.check(cf and not wr, "R1", A.loc(dm, {"line": ln}), "%s(), called by the constructor after the table is filled, does not write _offset" % cal.split("::")[-1],
                      "Drift:later-writer:%s" % cal.split("::")[-1])
        off_d = sp.simplify(v1.subs(loops1[0][0], y))
        a_ = sp.simplify(sp.diff(off_d, y))
        chk.check(sp.simplify(a_ - slip0 * d1 / d0) == 0, "R1", site_d, "drift offset (first slip term) has slope d/dy = slip[0]*delta1/delta0 (got %s)" % a_, "Drift:slope:%s" % a_)
        pK = G.AX(1, "min") + d1 * y
        e_rel = pK * sp.Symbol("AX1_scale_ElectronVolt", positive=True) / sp.Symbol("E0", real=True)
        want = sum(sp.IndexedBase("slip")[i] * pK * e_rel ** i for i in range(K))
        gen = sp.simplify(vK * d0)
        chk.check(sp.simplify(sp.expand(gen - want)) == 0, "R1", site_d,
                  "with the %d slip coefficients of main the row offset is sum_i slip[i]*p*(p*scale/E0)^i / delta0: terms i >= 1 are of higher order in p (got %s)" % (K, sp.factor(gen)),
                  "Drift:terms:%s" % sp.factor(gen))
    else:
        fd = I.fold_stores(sdm.accesses, "_offset")
        A.require(len(fd) == 1, "DriftMap: offset formula not found")
        fd = fd[0]
        y = fd["loops"][0].sym
        isym = [L.sym for a in I._through_scalar_accumulators(sdm.accesses, "_offset") if a.kind == "store" and a.base == "_offset" for L in a.loops if L.sym is not None and L.sym != y]
        A.require(isym, "DriftMap: slip loop not found")
        i_ = isym[0]
        off_d = sp.simplify(fd["value"].subs(i_, 0))
        a_ = sp.simplify(sp.diff(off_d, y))
        site_d = A.loc(dm, {"line": fd["line"]})
        chk.check(sp.simplify(a_ - slip0 * d1 / d0) == 0, "R1", site_d, "drift offset (first slip term) has slope d/dy = slip[0]*delta1/delta0 (got %s)" % a_, "Drift:slope:%s" % a_)
        # higher slip terms carry a positive power of the relative energy deviation: they vanish to first order
        gen = sp.simplify(fd["value"] * d0)
        e_rel = (G.AX(1, "min") + d1 * y) * sp.Symbol("AX1_scale_ElectronVolt", positive=True) / sp.Symbol("E0", real=True)
        want = sp.IndexedBase("slip")[i_] * (G.AX(1, "min") + d1 * y) * e_rel ** i_
        chk.check(sp.simplify(gen - want) == 0, "R1", site_d, "slip term i = slip[i]*p*(p*scale/E0)^i: terms i >= 1 are of higher order in p (got %s)" % gen,
                  "Drift:terms:%s" % gen)
    a = sp.Symbol("a", positive=True)
    c1 = -b.subs(ang, a)                       # Y' = Y + c1 X
    c2 = -a_.subs({slip0: a, d1: d0})          # X' = X + c2 Y'
    prod = sp.series(sp.simplify(c1 * c2), a, 0, 4).removeO()
    chk.check(sp.expand(prod + a ** 2) == 0, "R1", site_rf,
              "one-step couplings c1 = %s, c2 = %s: product expands to %s (required -a^2: elliptic, phase advance a + O(a^3), fixed sense)" % (c1, c2, prod),
              "map:coupling-product:%s" % prod)
    chk.check(sp.simplify(c1 - sp.tan(a)) == 0 and c1.subs(a, sp.Rational(1, 10)) > 0, "R1", site_rf,
              "sense of rotation: a particle ahead (X>0) gains energy coupling +tan(a)", "map:sense:%s" % c1)
    # ---- R2 -------------------------------------------------------------------------------------
    mainf = prog.fn("main")
    chk.used(mainf)
    sm = I.scan(mainf)
    locs = {d["name"]: d for d in sm.locals.values()}
    A.require("angle" in locs and "slip" in locs and "steps" in locs, "main: angle / slip / steps not found")
    angd = locs["angle"]
    chk.check(angd.get("is_const"), "R2", A.loc(mainf, {"line": angd["line"]}), "main: angle is const", "main:angle-const")
    v = sm.tr.env.get(angd["decl"])
    st = sm.tr.env.get(locs["steps"]["decl"])
    tp = [t for t in (v.free_symbols if v is not None else []) if "two_pi" in str(t)]
    chk.check(v is not None and st is not None and len(tp) == 1 and sp.simplify(v - tp[0] / st) == 0, "R2", A.loc(mainf, {"line": angd["line"]}),
              "main: angle = 2*pi/steps", "main:angle-value:%s" % v)
    sl = locs["slip"]
    il = [t for t in A.walk(sl["init"]) if t["k"] == "InitListExpr"]
    first = A.declref(il[-1]["inits"][0]) if il and il[-1].get("inits") else None
    chk.check(first is not None and first["decl"] == angd["decl"], "R2", A.loc(mainf, {"line": sl["line"]}), "main: slip[0] is the variable angle", "main:slip0")
    news = [t for t in A.walk(mainf["body"]) if t["k"] == "CXXNewExpr" and (t.get("alloc_type") or "").endswith("RFKickMap")]
    nlin = 0
    for t in news:
        ce = A.strip(t["init"], casts=False)
        names = ce.get("callee_params", [])
        if "angle" in names:
            arg = A.declref(ce["args"][names.index("angle")])
            chk.check(arg is not None and arg["decl"] == angd["decl"], "R2", A.loc(mainf, t), "main: %s receives the variable angle as its angle" % t["alloc_type"],
                      "main:rf-angle")
            nlin += 1
    chk.floor("R2-linear-RF-constructions", nlin, 2)
    dms = [t for t in A.walk(mainf["body"]) if t.get("k") == "CallExpr" and "make_unique" in (t.get("callee") or "") and "DriftMap" in ((t.get("callee_sig") or "") + (t.get("type") or ""))]
    A.require(len(dms) == 1, "main: construction of the DriftMap not found")
    dargs = [CA.plain_var(x) for x in dms[0]["args"]]
    if len(dargs) < 3 or any(d_ is None for d_ in dargs[:3]):
        raise AnalysisBroken("main: the grids / slip vector handed to the DriftMap are not plain variables (%s): the wiring is not judged"
                             % [A.show(x)[:30] for x in dms[0]["args"][:3]])
    chk.check(len(dargs) >= 3 and dargs[2] is not None and dargs[2]["decl"] == sl["decl"] and dargs[0]["name"] == "grid_t1" and dargs[1]["name"] == "grid_t3", "R2",
              A.loc(mainf, dms[0]), "main: the DriftMap receives the slip vector (and maps grid_t1 -> grid_t3)", "main:drift-args")
    # delta0 == delta1
    env = {n: sm.tr.env.get(d["decl"]) for n, d in locs.items()}
    okd = all(env.get(k) is not None for k in ("qmin", "qmax", "pmin", "pmax", "pqsize"))
    if okd:
        okd = sp.simplify((env["qmax"] - env["qmin"]) - env["pqsize"]) == 0 and sp.simplify((env["pmax"] - env["pmin"]) - env["pqsize"]) == 0
    chk.check(okd, "R2", A.loc(mainf, {"line": locs["qmax"]["line"]}), "main: qmax-qmin == pmax-pmin == PhaseSpaceSize (both axes span the same range)", "main:axis-lengths")
    pc = [c for c in prog.fns("vfps::PhaseSpace::PhaseSpace") if [p["name"] for p in c["params"]][:6] == ["qmin", "qmax", "qscale", "pmin", "pmax", "pscale"]]
    A.require(len(pc) == 1, "PhaseSpace(qmin,qmax,..) constructor not found")
    chk.used(pc[0])
    rulers = [t for i in pc[0]["inits"] for t in A.walk(i["expr"]) if t["k"] == "CXXNewExpr" and "Ruler" in (t.get("alloc_type") or "")]
    got = []
    for r in rulers:
        ce = A.strip(r["init"], casts=False)
        got.append([A.show(z).replace("vfps::", "") for z in ce["args"][:3]])
    chk.check(got == [["PhaseSpace::nx", "qmin", "qmax"], ["PhaseSpace::ny", "pmin", "pmax"]], "R2", pc[0].where,
              "PhaseSpace builds axis 0 from (nx,qmin,qmax) and axis 1 from (ny,pmin,pmax); with nx == ny the cell sizes are equal (%s)" % got, "PhaseSpace:axes:%s" % got)
    # ---- R3 -------------------------------------------------------------------------------------
    zero_at = sp.solve(sp.Eq(off_rf, 0), x)
    chk.check(len(zero_at) == 1 and sp.simplify(zero_at[0] - G.AX(0, "zb")) == 0, "R3", site_rf, "the RF offset vanishes at x = zero bin of axis 0 (root %s)" % zero_at, "RF:centre:%s" % zero_at)
    ax = {str(t) for t in off_rf.free_symbols if str(t).startswith("AX")}
    chk.check(all(t.startswith("AX0") for t in ax), "R3", site_rf, "the linear RF offset reads axis 0 only (%s)" % sorted(ax), "RF:axes:%s" % sorted(ax))
    zero_d = sp.solve(sp.Eq(off_d, 0), y)
    chk.check(len(zero_d) == 1 and sp.simplify(zero_d[0] + G.AX(1, "min") / d1) == 0, "R3", site_d,
              "the drift offset vanishes where the axis-1 coordinate is 0, y = -min1/delta1 = zero bin of axis 1 (root %s)" % zero_d, "Drift:centre:%s" % zero_d)
    axd = {str(t) for t in off_d.free_symbols if str(t).startswith("AX")}
    chk.check(axd <= {"AX1_min", "AX1_delta", "AX0_delta"}, "R3", site_d, "the drift offset reads the axis-1 coordinate and delta0 only (%s)" % sorted(axd), "Drift:axes:%s" % sorted(axd))
    # the local that holds the RF centre, whatever it is called: the one initialised with the zero bin of axis 0
    xc = [a_ for a_ in srf.accesses if a_.kind == "store" and a_.idx is None and a_.value is not None and a_.value == G.AX(0, "zb") and a_.value_node is not None]
    chk.check(len(xc) == 1 and xc[0].value == G.AX(0, "zb") and "_in" in A.show(xc[0].value_node), "R3", A.loc(rf, {"line": xc[0].line if xc else rf["line"]}),
              "the RF centre is the zero bin of the input grid's axis 0", "RF:xcenter")
    # ---- R4 -------------------------------------------------------------------------------------
    pos = {s_: sp.Symbol(str(s_), positive=True) for s_ in sin["value"].free_symbols if str(s_) not in ("x", "phase", "AX0_min")}
    osin = sin["value"].subs(ampl, 1)
    ds = sp.diff(osin, sin["loops"][0].sym)
    # at the synchronous point the argument of sin equals the synchronous phase; cos(sync) > 0
    arg = [t for t in ds.atoms(sp.cos)]
    A.require(len(arg) == 1, "sinusoidal offset: derivative has no single cosine")
    cpos = sp.Symbol("cos_sync", positive=True)
    dsv = ds.subs(arg[0], cpos).subs(pos)
    chk.check(dsv.is_negative is True, "R4", A.loc(rf, {"line": sin["line"]}),
              "sinusoidal RF: slope at the synchronous point is negative like the linear model's -tan(a) (d/dx = %s)" % ds, "RF:sin-slope-sign")
    # ---- R6: the sinusoidal model, linearised, is the linear model (given how main wires both) ------------------------------
    # slope of the sinusoidal offset at the synchronous point, per unit cos(synchronous phase), expressed through the constructor's
    # parameters, then through what main passes for them and for the axis scales: must equal angle = 2*pi/steps.  This ties the length
    # unit of the position axis (natural bunch length), the energy unit, the step fraction of a turn and the RF frequency together.
    slope0 = -ds.subs(arg[0], 1)
    cts = [c for c in prog.fns("vfps::RFKickMap::RFKickMap") if "V_RF" in [p_["name"] for p_ in c["params"]]]
    A.require(len(cts) == 1, "sinusoidal RFKickMap constructor not found")
    chk.used(cts[0])
    ini = {a_.base: a_.value for a_ in I.scan(cts[0], hooks=[hook]).accesses if a_.kind == "store" and a_.idx is None and a_.value is not None}

    def subs_named(e, mapping):
        return e.subs({t: mapping[str(t)] for t in e.free_symbols if str(t) in mapping})
    e6 = slope0
    for _ in range(3):
        e6 = subs_named(e6, ini)
    site6 = A.loc(rf, {"line": sin["line"]})
    mains = []
    for t in A.walk(mainf["body"]):
        if t["k"] == "CXXNewExpr" and (t.get("alloc_type") or "").endswith("RFKickMap") and "DynamicRFKickMap" not in (t.get("alloc_type") or ""):
            ce = A.strip(t["init"], casts=False)
            if "V_RF" in ce.get("callee_params", []):
                mains.append((t, ce))
    A.require(len(mains) == 1, "main: construction of the static sinusoidal RFKickMap not found")
    t6, ce6 = mains[0]
    argv = {n_: sm._try(a_) for n_, a_ in zip(ce6.get("callee_params", []), ce6["args"])}
    ps_new = [A.strip(t["init"], casts=False) for t in A.walk(mainf["body"]) if t["k"] == "CXXNewExpr" and (t.get("alloc_type") or "").endswith("PhaseSpace")]
    ps_new = [c for c in ps_new if "qscale" in c.get("callee_params", [])]
    A.require(len(ps_new) == 1, "main: direct construction of the phase space (qscale, pscale) not found")
    pargs = {n_: sm._try(a_) for n_, a_ in zip(ps_new[0]["callee_params"], ps_new[0]["args"])}
    need = [argv.get(k_) for k_ in ("revolutionpart", "V_RF", "f_RF")] + [pargs.get("qscale"), pargs.get("pscale"), v]
    if all(z is not None for z in need):
        e6m = subs_named(e6, {k_: argv[k_] for k_ in ("revolutionpart", "V_RF", "f_RF", "V0") if argv.get(k_) is not None})
        e6m = subs_named(e6m, {"AX0_scale_Meter": pargs["qscale"], "AX1_scale_ElectronVolt": pargs["pscale"], "AX1_delta": d0})
        left = {str(t) for t in e6m.free_symbols if str(t).startswith(("_", "AX"))} - {"AX0_delta"}
        diff6 = sp.simplify(e6m - v)
        chk.check(not left and diff6 == 0, "R6", site6,
                  "sinusoidal RF, linearised at the synchronous point: -d(offset)/dx / cos(phi_s) = V_RF*revolutionpart*bl2phase*delta0/(delta1*scale_E), with the values main "
                  "passes (V_eff, f_rev*dt, 2*pi*f_RF*bl/c, dE) equals angle = 2*pi/steps like the linear model (difference %s%s)" % (str(diff6)[:160], "; unresolved %s" % sorted(left) if left else ""),
                  "RF:sin-slope-vs-angle")
    else:
        chk.fail("R6", site6, "the arguments main passes to the sinusoidal RF map / the phase space cannot be read as expressions", "RF:sin-slope-vs-angle:unreadable")
    # ---- R3 (continued): the kick machinery maps a zero offset onto the cell itself ---------------------------
    # the RF offset formula above vanishes at the zero bin, but the rotation centre is only there if KickMap turns offset 0 into
    # "take cell y from cell y": the centre that updateSM adds and the one apply subtracts are decided under C01/R2, re-evaluated here
    from . import C01 as c01
    sub = type(chk)("C01", chk.tier)
    from .. import main as _main
    _main.check_anchors("C01", prog)
    c01.run(sub, prog)
    r = [i for i in sub.instances if i["rule"] == "R2" and "KickMap" in i["site"]]
    for i in r:
        chk.check(i["ok"], "R3", i["site"], "(C01/R2) %s" % i["what"].split("\n")[0][:220], "C01-R2:%s" % i.get("key", "ok"))
    chk.floor("R3-kick-centre", len(r), 6)
    # ---- R5: every bunch is kicked and drifted (multi-bunch index maps decided under C08 R1/R2/R6; re-evaluated here) ----------
    from .common import reeval
    reeval(chk, prog, "C08", lambda i: (i["rule"] in ("R1", "R2", "R6") and "Wake" not in i["what"] and "wake" not in i["what"]) or (i["rule"] == "R4" and "Identity" in i["what"]),
           "R5", "R5-per-bunch-rows", 8)
    # ---- R7: "no damping" may be asked for with FPType 0 as well as with a zero damping time: the Fokker-Planck map then has to be the
    # identity on the centroid -- the FPType gates and stencil moments (C04 R1, R2; re-evaluated here)
    reeval(chk, prog, "C04", lambda i: i["rule"] in ("R1", "R2") and "none" in i["what"], "R7", "R7-no-damping-gate", 4)
    # ---- RD: dimensional consistency of the quantities this property depends on (sa/dims.py) ----------------------------------------
    from . import dimrules
    nrd = dimrules.run(chk, prog, "RD")
    chk.floor("RD-requirements", nrd or 0, 2)
    # ---- R8: "the configured angle": the step counts main divides 2*pi by are the configured ones --------------------------------------------------
    # (the getters hand out the bound option fields without a value-changing conversion: decided under C20 R7; re-evaluated here for the
    # options the angle is computed from)
    from .common import reeval
    reeval(chk, prog, "C20", lambda i: i["rule"] == "R7" and any(t_ in i["what"] for t_ in ("getStepsPerTsync", "getStepsPerTrev", "steps_per_T", "getNRotations", "getSyncFreq", "getAlpha0")),
           "R8", "R8-configured-steps", 2)
    # ---- R9: a kick or drift by the offset f displaces the charge by f: zeroth and first moment of the interpolation weights -------------------------
    # (sum_k w_k = 1 and sum_k w_k*node_k = f for every order, nodes as updateSM places them: decided under C02 R1; re-evaluated here)
    reeval(chk, prog, "C02", lambda i: i["rule"] == "R1" and ("moment 0" in i["what"] or "moment 1" in i["what"]), "R9", "R9-displacement-by-the-offset", 6)
    # ---- R10: when the run starts from a results file the grid's scales still are the ones main computed -----------------------------------------
    # (the sinusoidal kick reads the scales of the grid it is given: the factory hands bunch length and energy spread to the reader's
    # parameters of those roles - decided under C11 R4; re-evaluated here)
    reeval(chk, prog, "C11", lambda i: i["rule"] == "R4" and "parameters of those roles" in i["what"], "R10", "R10-scales-of-a-loaded-grid", 1)
    chk.notes.append("C03: linearised one-step kick-drift map read off the folded offset formulas: slopes, coupling product -a^2+O(a^4), sense, "
                     "single angle variable, equal cell sizes, centres at the zero bins. NOT decided: closure over a period, splitting-error size, "
                     "sinusoidal RF beyond the sign of its slope, DynamicRFKickMap (C19).")
