"""Facts about the interpolation scheme shared by C01, C02, C08, C15:
weights (SourceMap::calcCoefficiants) and the way KickMap::updateSM and
RotationMap::genHInfo turn an offset into stencil origin + weight set."""
import sympy as sp
from .. import ast as A
from .. import indexmap as I
from ..compdb import AnalysisBroken
from .common import interp_weights

k_ = sp.Symbol("k", integer=True)
n_ = sp.Symbol("n", integer=True)


def _ipart_atoms(e):
    return [a for a in e.atoms(sp.Function) if a.func == I.ipart]


def _frac_atoms(e):
    return [a for a in e.atoms(sp.Function) if a.func == I.frac]


class UpdateSM:
    """what KickMap::updateSM does with one row of _offset"""

    def __init__(self, prog):
        self.fn = fn = prog.fn("vfps::KickMap::updateSM", nparams=0)
        s = self.scan = I.scan(fn)
        A.require(not s.noncanonical_loops, "updateSM: non-canonical loop")
        calls = [c for c in s.calls if c.callee == "vfps::SourceMap::calcCoefficiants"]
        A.require(len(calls) >= 1, "updateSM: no calcCoefficiants call")
        self.coef_calls = calls
        self.index_stores = [a for a in s.accesses if a.kind == "store" and a.path == ".index"]
        self.weight_stores = [a for a in s.accesses if a.kind == "store" and a.path == ".weight"]
        self.hinfo_stores = [a for a in s.accesses if a.kind == "store" and a.base == "_hinfo"]
        A.require(self.index_stores and self.weight_stores and self.hinfo_stores,
                  "updateSM: stores to .index/.weight/_hinfo not found")
        self.it = sp.Symbol("_it", real=True)

    def live_index_stores(self):
        """index stores whose value depends on the offset (the non-fallback ones)"""
        return [a for a in self.index_stores if a.value is not None and _ipart_atoms(a.value)]

    def node_expr(self, a):
        """stored source index minus integer part of the displacement, in (k, n)"""
        v = a.value
        ip = _ipart_atoms(v)
        A.require(len(ip) == 1, "updateSM: index store does not contain exactly one integer-part term")
        e0 = sp.expand(v - ip[0])
        inner = [L for L in a.loops if L.sym is not None and e0.has(L.sym)]
        A.require(len(inner) == 1, "updateSM: index store does not depend on exactly one loop variable")
        e = e0.subs({inner[0].sym: k_, self.it: n_})
        return e, ip[0], inner[0]


class GenHInfo:
    def __init__(self, prog):
        self.fn = fn = prog.fn("vfps::RotationMap::genHInfo")
        s = self.scan = I.scan(fn)
        A.require(not s.noncanonical_loops, "genHInfo: non-canonical loop")
        self.coef_calls = [c for c in s.calls if c.callee == "vfps::SourceMap::calcCoefficiants"]
        self.index_stores = [a for a in s.accesses if a.kind == "store" and a.path == ".index"]
        self.weight_stores = [a for a in s.accesses if a.kind == "store" and a.path == ".weight"]
        self.smc_stores = [a for a in s.accesses if a.kind == "store" and a.base == "smc" and a.idx is not None]
        self.it = sp.Symbol("_it", real=True)


def weights(prog):
    fn, cases, f = interp_weights(prog)
    return fn, cases, f
