"""C04 — without impedance every start relaxes to the unit-width natural Gaussian.

Convergence over many damping times is a run-time fixed point and is NOT decided.
What is decided is the necessary algebraic condition that makes sigma = 1 the stationary
width: the stencil discretises  e1*(f + p f' + f'')  with matching coefficients.
 R1  moment conditions per derivation type, stencil block and FPType t (exact arithmetic):
        sum_k w_k            == 1 + e1*[damping(t)]
        sum_k w_k*(o_k d)    == e1*p*[damping(t)]
        sum_k w_k*(o_k d)^2/2 == e1*[diffusion(t)]
     where out[j] = sum_k w_k in[j+o_k];  [damping] / [diffusion] follow the FPType enum.
 R2  the gates are the same predicate in every block (follows from R1 holding per block and t).
 R3  wiring in main: the decrement handed to the constructor is 2/(fs*t_damp*steps) when t_damp > 0
     else 0; e1 > 0 selects FokkerPlanckMap, otherwise the identity; the FP type comes from the
     FPType option; arguments land on the parameters of their role.
"""
import sympy as sp
from .. import ast as A
from .. import indexmap as I
from .. import callargs as CA
from ..compdb import AnalysisBroken
from . import fpstencil as F, gridmodel as G

LEVEL = "other"

MAIN_ALIAS = {"grid_t1": ("in", "out"), "grid_t3": ("in", "out"), "ps_bins": ("xsize", "ysize"), "derivationtype": ("dt",),
              "fptype": ("fptype",), "fptrack": ("fptrack",), "e1": ("e1",), "oclh": ("oclh",)}


def run(chk, prog):
    chk.assume("exact real arithmetic", "interior rows (border rows excluded)", "derivation type in {3,4}")
    G.lemmas(chk, prog)
    st = F.Stencils(prog)
    chk.used(st.fn)
    en = prog.enums.get("vfps::FokkerPlanckMap::FPType")
    A.require(en is not None, "enum FPType not found")
    vals = {c["name"]: c["value"] for c in en["constants"]}
    A.require(set(vals) == {"none", "damping_only", "diffusion_only", "full"}, "FPType enumerators changed: %s" % sorted(vals))
    damp = {vals["damping_only"], vals["full"]}
    diff = {vals["diffusion_only"], vals["full"]}
    n1 = 0
    for dt in sorted(st.blocks):
        for b in st.blocks[dt]:
            site = A.loc(st.fn, {"line": b.line})
            for tname, t in sorted(vals.items(), key=lambda kv: kv[1]):
                w = b.weights(t)
                off = {k: int(c["offset"]) for k, c in b.cells.items()}
                m0 = sp.expand(sum(w.values()))
                m1 = sp.expand(sum(w[k] * off[k] * F.d for k in w))
                m2 = sp.expand(sum(w[k] * (off[k] * F.d) ** 2 / 2 for k in w))
                e0 = 1 + (F.e1 if t in damp else 0)
                e1_ = F.e1 * F.P if t in damp else 0
                e2 = F.e1 if t in diff else 0
                for nm, got, want in (("M0", m0, e0), ("M1", m1, e1_), ("M2", m2, e2)):
                    chk.check(sp.expand(got - want) == 0, "R1", site,
                              "dt=%d block [%s,%s) FPType=%s: %s = %s (required %s)" % (dt, b.loop.lo, b.loop.hi, tname, nm, got, sp.expand(want)),
                              "FP:%d:block@%s:%s:%s:%s" % (dt, b.loop.lo, tname, nm, sp.expand(got - want)))
                    n1 += 1
    chk.floor("R1-moments", n1, 36)
    # the enum value reaches _fptype unchanged
    sc = st.scan
    ini = {a.base: a.value for a in sc.accesses if a.kind == "store" and a.idx is None and a.base.startswith("_")}
    chk.check(str(ini.get("_fptype")) == "fptype", "R2", st.fn.where, "_fptype is the constructor's fptype parameter", "FP:ctor:_fptype")
    gate_fields = set()
    def gate_inputs(g, depth=0):
        for y in A.walk(g):
            f = A.this_field(y)
            if f:
                gate_fields.add(f)
            d = A.declref(y)
            if d is not None and d.get("dkind") in ("ParmVar", "Var"):
                loc = sc.locals.get(d.get("decl"))
                if loc is not None and "init" in loc and sc.assigned.get(d["decl"], 0) == 0 and depth < 3 and d.get("dkind") == "Var":
                    gate_inputs(loc["init"], depth + 1)      # a named condition: look at what it was computed from
                else:
                    gate_fields.add(d["name"])
    for dt, line, g in st.gate_nodes:
        gate_inputs(g)
    chk.check(gate_fields <= {"_fptype", "fptype"}, "R2", st.fn.where, "stencil gates depend on the Fokker-Planck type only (%s)" % sorted(gate_fields),
              "FP:ctor:gates:%s" % sorted(gate_fields))

    # ---- R3 main wiring ----------------------------------------------------------------------------
    mainf = prog.fn("main")
    chk.used(mainf)
    sm = I.scan(mainf)
    e1s = [a for a in sm.accesses if a.kind == "store" and a.base == "e1" and a.idx is None]
    A.require(len(e1s) == 1, "main: e1 not found")
    v = e1s[0].value
    ok = False
    if v is not None and v.func == sp.Function("ite"):
        cond, a_, b_ = v.args
        loc = {d["name"]: sm.tr.env.get(k) for k, d in sm.locals.items()}
        fs, td, stp = sp.Symbol("fs", real=True), loc.get("t_damp"), loc.get("steps")
        # fs is reassigned in main (opaque symbol), t_damp and steps are single-assignment locals
        want = 2 / (fs * (td if td is not None else sp.Symbol("t_damp")) * (stp if stp is not None else sp.Symbol("steps")))
        ok = sp.simplify(a_ - want) == 0 and b_ == 0 and "t_damp > 0" in str(cond)
    chk.check(ok, "R3", A.loc(mainf, {"line": e1s[0].line}), "main: e1 = (t_damp > 0) ? 2/(fs*t_damp*steps) : 0   (got %s)" % v, "main:e1:%s" % v)
    news = [x for x in A.walk(mainf["body"]) if x["k"] == "CXXNewExpr" and "FokkerPlanckMap" in (x.get("alloc_type") or "")]
    A.require(len(news) == 1, "main: construction of FokkerPlanckMap not found")
    ce = A.strip(news[0]["init"], casts=False)
    for j in CA.judge(ce, MAIN_ALIAS):
        chk.check(j["ok"], "R3", A.loc(mainf, news[0]), "main: FokkerPlanckMap argument %d '%s' lands on parameter '%s'" % (j["pos"], j["var"], j["param"]),
                  "main:new FokkerPlanckMap:%s->%s" % (j["var"], j["param"]))
    idx = A.index(mainf)
    enc = A.enclosing(idx, news[0], {"IfStmt"})
    ok = False
    if enc:
        c = A.strip(enc[0]["cond"])
        ok = c.get("k") == "BinaryOperator" and c["op"] == ">" and (A.declref(c["c"][0]) or {}).get("name") == "e1" and \
            A.strip(c["c"][1]).get("value") == 0 and news[0]["id"] in {y["id"] for y in A.walk(enc[0]["then"])}
        els = enc[0].get("else")
        ident = [y for y in A.walk(els)] if els else []
        ok = ok and any(y["k"] == "CXXNewExpr" and "Identity" in (y.get("alloc_type") or "") for y in ident)
    chk.check(ok, "R3", A.loc(mainf, news[0]), "main: e1 > 0 builds the Fokker-Planck map, otherwise the identity", "main:fpm-selection")
    ft = [a for a in sm.accesses if a.kind == "store" and a.base == "fptype" and a.idx is None]
    ok = len(ft) == 1 and "getFPType" in A.show(ft[0].value_node)
    chk.check(ok, "R3", A.loc(mainf, {"line": ft[0].line if ft else mainf["line"]}), "main: fptype comes from the FPType option", "main:fptype-source")
    # ---- R4: the identity steps of the chain -------------------------------------------------------------
    # without impedance the wake step of the loop is an Identity (and so is the damping step for e1 <= 0): the chain only relaxes
    # every bunch if that step hands on the whole grid; decided under C01/R4, re-evaluated here
    from . import C01 as c01
    sub = type(chk)("C01", chk.tier)
    from .. import main as _main
    _main.check_anchors("C01", prog)
    c01.run(sub, prog)
    # (and how the damping/diffusion step applies its stencil table to the grid: C01/R5)
    r = [i for i in sub.instances if (i["rule"] == "R4" and "Identity" in i["what"]) or i["rule"] == "R5"]
    for i in r:
        chk.check(i["ok"], "R4", i["site"], "(C01/%s) %s" % (i["rule"], i["what"].split("\n")[0][:220]), "C01-%s:%s" % (i["rule"], i.get("key", "ok")))
    chk.floor("R4-identity", len(r), 2)
    wmnew = [y for y in A.walk(mainf["body"]) if y["k"] == "CXXNewExpr" and "Identity" in (y.get("alloc_type") or "")]
    chk.check(len(wmnew) >= 2, "R4", mainf.where, "main builds Identity maps for the absent wake and the absent damping (%d)" % len(wmnew), "main:identities")
    # ---- R5: the rotation that turns energy spread into bunch length is circular in the normalised coordinates ---------------
    # (the limit "bunch length -> 1" is stated in units of the natural bunch length: kick and drift slopes must match, and the position
    # unit must be the natural length for the effective f_s/alpha -- decided under C03 R1, R2, R6; re-evaluated here)
    from .common import reeval
    reeval(chk, prog, "C03", lambda i: i["rule"] in ("R1", "R2", "R6", "R9"), "R5", "R5-rotation-matching", 10)
    # ---- R6: bunch length and energy spread are what PhaseSpace::variance reports: second moment of the bunch's own projection, normalised
    # by the bunch's own charge (formulas decided under C09 R2; re-evaluated here)
    from .common import reeval
    reeval(chk, prog, "C09", lambda i: i["rule"] == "R2", "R6", "R6-moment-formulas", 8)
    # ---- R7: every bunch of a train relaxes: the maps of the chain act on every bunch (rows per class, reader/writer agreement: C08 R1, R2)
    reeval(chk, prog, "C08", lambda i: i["rule"] in ("R1", "R2") and "Wake" not in i["what"] and "wake" not in i["what"], "R7", "R7-per-bunch-rows", 6)
    # ---- RD: dimensional consistency of the quantities this property depends on (sa/dims.py) ----------------------------------------
    from . import dimrules
    nrd = dimrules.run(chk, prog, "RD")
    chk.floor("RD-requirements", nrd or 0, 0)
    # ---- R8: the interpolation adds no diffusion of its own beyond its order -------------------------------------------------------------------------
    # the n-point weights reproduce every moment below n (sum_k w_k*node_k^m = f^m, m < n); a wrong second moment is an artificial diffusion
    # applied with every kick and drift, which the damping cannot balance at unit width (decided under C02 R1; re-evaluated here)
    from .common import reeval
    reeval(chk, prog, "C02", lambda i: i["rule"] == "R1" and "moment" in i["what"], "R8", "R8-interpolation-moments", 8)
    chk.notes.append("C04: decides that the Fokker-Planck stencils are consistent discretisations of e1*(f + p f' + f'') with matching damping and "
                     "diffusion coefficients for every FPType, and the wiring of e1. Does NOT decide convergence, monotonicity or the stable range.")
