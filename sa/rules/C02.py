"""C02 — whole-cell shifts are lossless; fractional shifts reproduce polynomials.

Decided statically (exact real arithmetic, see DESIGN §3/C02):
 R1  Lagrange conditions: for every interpolation order n and every m < n,
     sum_k w_k(f) * node_k^m == f^m as polynomials in f, where the nodes are read
     off the code that *consumes* the weights (KickMap::updateSM, and
     RotationMap::genHInfo must agree with it).
 R2  at f = 0 every non-central weight carries the syntactic factor f (exact
     floating-point zero) and the central weight evaluates to 1 through exactly
     representable (dyadic) constants only.
 R3  the fractional part handed to calcCoefficiants and the integer part used as
     stencil origin come from the same displacement expression.
 R4  a source index is stored with its weight only under a bounds comparison of
     that very index; every other path stores weight 0; the readers in
     KickMap::apply compare the wrapped source index against the mesh size.
"""
import sympy as sp
from .. import ast as A
from .. import indexmap as I
from ..compdb import AnalysisBroken
from . import interp
from .interp import k_, n_

LEVEL = "proof"


def nodes_for(expr, n):
    return [sp.nsimplify(expr.subs({k_: i, n_: n})) for i in range(n)]


def has_top_factor(node, decl):
    """does the expression tree have `decl` as a factor of its top-level product (numerator)?"""
    n = A.strip(node)
    if n["k"] == "DeclRefExpr":
        return n["decl"] == decl
    if n["k"] == "BinaryOperator" and n["op"] == "*":
        return has_top_factor(n["c"][0], decl) or has_top_factor(n["c"][1], decl)
    if n["k"] == "BinaryOperator" and n["op"] == "/":
        return has_top_factor(n["c"][0], decl)
    if n["k"] == "UnaryOperator" and n["op"] in ("-", "+"):
        return has_top_factor(n["c"][0], decl)
    return False


def literals_dyadic(node):
    """all numeric literals below node are integers or dyadic rationals (exact in binary FP)"""
    from ..algebra import literal
    for x in A.walk(node):
        if x["k"] in ("IntegerLiteral", "FloatingLiteral"):
            v = literal(x.get("text"), x.get("value"))
            q = sp.Rational(v).q
            if q & (q - 1):
                return False, A.show(x)
    # divisions by non-power-of-two constants
    for x in A.walk(node):
        if x["k"] == "BinaryOperator" and x["op"] == "/":
            d = A.strip(x["c"][1])
            if d["k"] in ("IntegerLiteral", "FloatingLiteral"):
                from ..algebra import literal as lit
                v = sp.Rational(lit(d.get("text"), d.get("value")))
                if v.p & (v.p - 1) or v.q != 1 and (v.q & (v.q - 1)):
                    return False, "/" + A.show(d)
    return True, ""


def run(chk, prog):
    chk.assume("exact real arithmetic: floating-point rounding is abstracted away (R1)",
               "interpolation order in {1,2,3,4} (documented domain of InterpolationType)")
    chk.trusted = ["clang 14 front end", "tool/isa-extract.cc", "sympy expand/nsimplify",
                   "exact-arithmetic abstraction of float"]
    wfn, cases, f = interp.weights(prog)
    chk.used(wfn)
    fpar = wfn["params"][1]
    usm = interp.UpdateSM(prog)
    chk.used(usm.fn)
    site_w = A.loc(wfn, {"line": wfn["line"]})

    # ---- nodes, from the consumers --------------------------------------------------------
    live = usm.live_index_stores()
    A.require(len(live) >= 1, "updateSM: no offset-dependent index store")
    node_exprs = []
    for a in live:
        e, ip, loop = usm.node_expr(a)
        node_exprs.append((a, e, ip, loop))
    node_e = node_exprs[0][1]
    for a, e, ip, loop in node_exprs[1:]:
        chk.check(sp.simplify(e - node_e) == 0, "R1", A.loc(usm.fn, {"line": a.line}),
                  "all index stores in updateSM use the same node formula", "updateSM:nodes-differ:%s" % e)
    A.require(node_e.free_symbols <= {k_, n_}, "updateSM: node formula has unexpected symbols: %s" % node_e)
    chk.tables["node_formula(k,n)"] = str(node_e)

    # sibling agreement: RotationMap::genHInfo
    gh = interp.GenHInfo(prog)
    chk.used(gh.fn)
    ysize = sp.Symbol("_ysize", real=True)
    gh_ok = 0
    for a in gh.index_stores:
        if a.value is None or not [x for x in a.value.atoms(sp.Function) if x.func == I.ipart]:
            continue
        v = sp.expand(a.value)
        ips = [x for x in v.atoms(sp.Function) if x.func == I.ipart]
        A.require(len(ips) == 2, "genHInfo: index store without two integer parts")
        xs = [x for x in ips if sp.expand(v.coeff(x)) == ysize]
        ys = [x for x in ips if sp.expand(v.coeff(x)) == 1]
        A.require(len(xs) == 1 and len(ys) == 1, "genHInfo: cannot separate row/column origin")
        rest = sp.expand(v - ysize * xs[0] - ys[0])
        ex = sp.expand(rest.coeff(ysize, 1))
        ey = sp.expand(rest.coeff(ysize, 0))
        lx = [L for L in a.loops if L.sym is not None and ex.has(L.sym)]
        ly = [L for L in a.loops if L.sym is not None and ey.has(L.sym)]
        A.require(len(lx) == 1 and len(ly) == 1, "genHInfo: node offsets do not depend on one loop variable each")
        nx = ex.subs({lx[0].sym: k_, gh.it: n_})
        ny = ey.subs({ly[0].sym: k_, gh.it: n_})
        site = A.loc(gh.fn, {"line": a.line})
        chk.check(sp.simplify(nx - node_e) == 0, "R1", site,
                  "genHInfo x-node formula %s agrees with updateSM %s" % (nx, node_e), "genHInfo:xnode:%s" % nx)
        chk.check(sp.simplify(ny - node_e) == 0, "R1", site,
                  "genHInfo y-node formula %s agrees with updateSM %s" % (ny, node_e), "genHInfo:ynode:%s" % ny)
        gh_ok += 1
        # R3 for genHInfo: weight = icq[i1]*icp[j1]; icq from frac(X), X the row origin
        wst = [w for w in gh.weight_stores if w.value is not None and w.value.atoms(sp.Indexed)
               and w.loops and [g for g in w.guards] == [g for g in a.guards]]
        A.require(len(wst) >= 1, "genHInfo: weight store paired with index store not found")
        w = wst[0]
        widx = list(w.value.atoms(sp.Indexed))
        A.require(len(widx) == 1 and str(widx[0].base) == "smc", "genHInfo: weight is not one read of smc")
        lidx = sp.expand(widx[0].indices[0])
        A.require(len(gh.smc_stores) == 1 and gh.smc_stores[0].idx is not None, "genHInfo: smc store not unique")
        sst = gh.smc_stores[0]
        sidx = sp.expand(sst.idx[0])
        sa_, sb_ = sidx.coeff(gh.it, 1), sp.expand(sidx - gh.it * sidx.coeff(gh.it, 1))
        la_, lb_ = lidx.coeff(gh.it, 1), sp.expand(lidx - gh.it * lidx.coeff(gh.it, 1))
        A.require(sa_.is_Symbol and sb_.is_Symbol and la_.is_Symbol and lb_.is_Symbol,
                  "genHInfo: smc index is not of the form _it*a+b")
        wexpr = sst.value.subs({sa_: la_, sb_: lb_}, simultaneous=True)
        facs = list(wexpr.atoms(sp.Indexed))
        chk.check(len(facs) == 2 and sp.expand(wexpr - facs[0] * facs[1]) == 0, "R3", site,
                  "2-D weight is the product of one x- and one y-weight: %s" % wexpr, "genHInfo:weightproduct")
        for fac in facs:
            base = str(fac.base)
            isym = fac.indices[0]
            calls = [c for c in gh.coef_calls if c.args[0] is not None and
                     any(str(s_) == base for s_ in c.args[0].free_symbols)]
            A.require(len(calls) == 1, "genHInfo: calcCoefficiants call filling %s not unique" % base)
            fr = [x for x in calls[0].args[1].atoms(sp.Function) if x.func == I.frac] if calls[0].args[1] is not None else []
            A.require(len(fr) == 1, "genHInfo: fraction argument is not a frac()")
            if isym == lx[0].sym:
                origin, nm = xs[0], "x"
            elif isym == ly[0].sym:
                origin, nm = ys[0], "y"
            else:
                raise AnalysisBroken("genHInfo: weight index %s is neither node loop" % isym)
            chk.check(sp.simplify(fr[0].args[0] - origin.args[0]) == 0, "R3", site,
                      "%s-weights %s[%s] use the fractional part of the displacement whose integer part is the %s-origin"
                      % (nm, base, isym, nm), "genHInfo:split:%s" % nm)
    chk.floor("R1-genHInfo-sites", gh_ok, 1)

    # ---- R1: Lagrange identities ------------------------------------------------------------
    ident = 0
    orders = sorted(c for c in cases if isinstance(c, int))
    chk.check(orders == [1, 2, 3, 4], "R1", site_w, "calcCoefficiants handles orders 1..4 (found %s)" % orders,
              "calcCoefficiants:orders:%s" % orders)
    for n in orders:
        cells = cases[n]["cells"]
        site = A.loc(wfn, {"line": cases[n]["line"]})
        if not chk.check(sorted(cells) == list(range(n)), "R1", site,
                         "order %d assigns exactly weights 0..%d (assigned: %s)" % (n, n - 1, sorted(cells)),
                         "calcCoefficiants:cells:%d:%s" % (n, sorted(cells))):
            continue
        nodes = nodes_for(node_e, n)
        for m in range(n):
            lhs = sp.expand(sum(cells[i] * nodes[i] ** m for i in range(n)))
            rhs = sp.expand(f ** m)
            chk.check(sp.expand(lhs - rhs) == 0, "R1", site,
                      "order %d, moment %d: sum_k w_k*node_k^%d == f^%d  (nodes %s; got %s)" % (n, m, m, m, nodes, lhs),
                      "calcCoefficiants:lagrange:n%d:m%d:%s" % (n, m, sp.expand(lhs - rhs)))
            ident += 1
    chk.floor("R1-identities", ident, 10)

    # ---- R2: exact behaviour at f = 0 ------------------------------------------------------
    r2 = 0
    for n in orders:
        cells, raw = cases[n]["cells"], cases[n]["raw"]
        if sorted(cells) != list(range(n)):
            continue
        nodes = nodes_for(node_e, n)
        site = A.loc(wfn, {"line": cases[n]["line"]})
        for i in range(n):
            rhs_nodes = raw.get(i, [])
            A.require(len(rhs_nodes) == 1 and rhs_nodes[0][0] == "=", "calcCoefficiants: weight %d/%d not a single assignment" % (i, n))
            rn = rhs_nodes[0][1]
            if nodes[i] == 0:
                ok1 = sp.simplify(cells[i].subs(f, 0) - 1) == 0
                dy, why = literals_dyadic(rn)
                chk.check(ok1 and dy, "R2", site,
                          "order %d central weight w_%d(0) == 1 through dyadic constants only%s"
                          % (n, i, "" if dy else " (non-dyadic %s)" % why),
                          "calcCoefficiants:central:n%d:k%d:%s:%s" % (n, i, cells[i].subs(f, 0), why))
            else:
                chk.check(has_top_factor(rn, fpar["decl"]), "R2", site,
                          "order %d weight w_%d (node %s) carries the syntactic factor f: exact zero at f=0"
                          % (n, i, nodes[i]), "calcCoefficiants:ffactor:n%d:k%d" % (n, i))
            r2 += 1
    chk.floor("R2-weights", r2, 10)

    # ---- R3 (updateSM): same displacement for fraction and origin ---------------------------
    for a, e, ip, loop in node_exprs:
        site = A.loc(usm.fn, {"line": a.line})
        # weight store in the same guard context
        ws = [w for w in usm.weight_stores if w.guards == a.guards and w.value is not None and w.value.atoms(sp.Indexed)]
        A.require(len(ws) == 1, "updateSM: weight store paired with index store not found")
        w = ws[0]
        ix = list(w.value.atoms(sp.Indexed))
        chk.check(len(ix) == 1 and sp.expand(w.value - ix[0]) == 0 and ix[0].indices[0] == loop.sym, "R3", site,
                  "weight of point %s is the plain coefficient %s (same point index as the source index)"
                  % (loop.name, w.value), "updateSM:weight:%s" % w.value)
        base = str(ix[0].base)
        calls = [c for c in usm.coef_calls if c.args[0] is not None and str(c.args[0]) == base]
        A.require(len(calls) == 1, "updateSM: calcCoefficiants call filling %s not unique" % base)
        c = calls[0]
        fr = [x for x in c.args[1].atoms(sp.Function) if x.func == I.frac] if c.args[1] is not None else []
        chk.check(len(fr) == 1 and sp.expand(c.args[1] - fr[0]) == 0 and sp.simplify(fr[0].args[0] - ip.args[0]) == 0,
                  "R3", A.loc(usm.fn, {"line": c.line}),
                  "calcCoefficiants gets frac(D) and the stencil origin is ipart(D) of the same D = %s" % ip.args[0],
                  "updateSM:split:%s" % (c.args[1],))
        chk.check(c.args[2] is not None and c.args[2] == usm.it, "R3", A.loc(usm.fn, {"line": c.line}),
                  "calcCoefficiants is asked for the map's own order _it", "updateSM:order:%s" % (c.args[2],))
        # the call is in every context in which the weights are read
        chk.check(all(g in a.guards for g in c.guards) and all(L in a.loops for L in c.loops) and
                  len(c.loops) == len(a.loops) - 1, "R3", A.loc(usm.fn, {"line": c.line}),
                  "calcCoefficiants is executed once per offset row, before the per-point loop",
                  "updateSM:callcontext")

    # ---- R4: zeros flow in from outside ------------------------------------------------------
    r4 = 0
    for w in usm.weight_stores:
        site = A.loc(usm.fn, {"line": w.line})
        if w.value is not None and w.value == 0:
            chk.ok("R4", site, "fallback path stores weight 0")
            r4 += 1
            continue
        # live weight: must be guarded by `v < size` with v the variable stored as index
        idx = [a for a in usm.index_stores if a.guards == w.guards]
        A.require(len(idx) == 1, "updateSM: index store for live weight not found")
        vnode = A.declref(idx[0].value_node)
        ok = False
        if vnode is not None:
            for g, pol in w.guards:
                gn = A.strip(g) if isinstance(g, dict) and g.get("k") not in ("SwitchCase", "Catch") else None
                if gn and gn["k"] == "BinaryOperator" and gn["op"] == "<" and pol:
                    l = A.declref(gn["c"][0])
                    if l is not None and l["decl"] == vnode["decl"] and "unsigned" in (l.get("dtype") or "unsigned") + (gn["c"][0].get("ctype") or ""):
                        ok = True
        chk.check(ok, "R4", site, "live weight is stored only under an unsigned `index < mesh size` test of the stored index",
                  "updateSM:unguarded-weight")
        r4 += 1
    # all (index, weight) paths covered: the _hinfo row is written on every path of the point loop
    hs = usm.hinfo_stores
    # relative to the row loop, either one store runs unconditionally, or two stores sit under the two outcomes of one condition
    def rel_guards(a_):
        row = a_.loops[0].node["id"] if a_.loops else None
        out_ = []
        for g_, pol_ in a_.guards:
            if isinstance(g_, dict) and g_.get("k") not in ("SwitchCase", "Catch") and row is not None and g_.get("line", 0) >= a_.loops[0].node["line"]:
                out_.append((g_, pol_))
        return out_
    rg = [rel_guards(a_) for a_ in hs]
    covered = any(not r_ for r_ in rg) or any(len(r1) == 1 and len(r2) == 1 and I.guards_complementary(r1[0], r2[0]) for r1 in rg for r2 in rg)
    chk.check(covered, "R4", A.loc(usm.fn, {"line": usm.fn["line"]}),
              "_hinfo is written on the in-range and on the out-of-range path (%d stores)" % len(hs), "updateSM:hinfo-paths")
    from . import kickmodel as K
    kap = K.KickApply(prog)
    chk.used(kap.fn)
    for axis, b in sorted(kap.branches.items()):
        ok, why = K.source_guard(kap, b)
        chk.check(ok, "R4", A.loc(kap.fn, {"line": b.din[0].line}),
                  "%s-kick: cells outside the grid contribute nothing (zeros flow in): %s" % (axis, why), "KickMap::apply:%s:source-guard" % axis)
        r4 += 1
    chk.floor("R4-sites", r4, 5)
    # ---- R5: the reader honours what the writer stored --------------------------------------------------------
    # the shift only comes out as stored if KickMap::apply gives every weight the source cell of its own stored index and reads the
    # table with the writer's stride: decided under C01/R2 (source = destination + stored index - centre) and C08/R1, re-evaluated here
    from . import C01 as c01, C08 as c08
    sub = type(chk)("C01", chk.tier)
    from .. import main as _main
    _main.check_anchors("C01", prog)
    c01.run(sub, prog)
    r5 = [i for i in sub.instances if i["rule"] == "R2" and "KickMap" in i["site"] and "-kick" in i["what"]]
    for i in r5:
        chk.check(i["ok"], "R5", i["site"], "(C01/R2) %s" % i["what"].split("\n")[0][:220], "C01-R2:%s" % i.get("key", "ok"))
    sub8 = type(chk)("C08", chk.tier)
    from .. import main as _main
    _main.check_anchors("C08", prog)
    c08.run(sub8, prog)
    r8 = [i for i in sub8.instances if i["rule"] == "R1" and "reader" in i["what"]]
    for i in r8:
        chk.check(i["ok"], "R5", i["site"], "(C08/R1) %s" % i["what"].split("\n")[0][:220], "C08-R1:%s" % i.get("key", "ok"))
    chk.floor("R5-reader", len(r5) + len(r8), 10)
    # ---- R6: the source-map table is rebuilt whenever the displacement field changes (a stale table moves the grid by old offsets) ----
    K.offset_table_sync(chk, prog, "R6")
    # ---- R7: the weights are a function of (offset, order) only: the weight function keeps no state between calls -------------------------
    from .common import no_state_between_calls
    for q_ in ("vfps::SourceMap::calcCoefficiants",):
        no_state_between_calls(chk, prog.fn(q_), "R7")
    for fq_ in prog.functions.values():
        if fq_.get("body") and fq_["name"] in ("updateSM", "genHInfo") and (fq_.get("class") or "").startswith("vfps::"):
            no_state_between_calls(chk, fq_, "R7")
    # ---- R8: `bit for bit` presupposes the default floating-point environment ------------------------------------------------------------
    from .common import fp_environment_untouched
    fp_environment_untouched(chk, prog, "R8")
    # ---- R9: the source index of a shifted cell is computed in the grid's index width ------------------------------------------------------
    from .common import no_index_narrowing
    nconv_ = no_index_narrowing(chk, prog, "R9", lambda f: f.get("class") in ("vfps::SourceMap", "vfps::KickMap", "vfps::RFKickMap", "vfps::DriftMap",
                                                                                "vfps::WakeKickMap", "vfps::WakePotentialMap", "vfps::DynamicRFKickMap"))
    chk.floor("R9-integral-conversions", nconv_, 40)
    chk.ok("R9", "src/SM", "%d integral conversions in the kick/drift map classes examined: no cell index or size passes through an 8/16-bit integer" % nconv_)
    # ---- R10: a zero offset is a zero displacement: the centre updateSM adds is the centre apply subtracts ------------------------------------
    # (a half-cell bias on odd grids turns every whole-cell shift into a fractional one; decided under C01 R2, re-evaluated here)
    from .common import reeval
    reeval(chk, prog, "C01", lambda i: i["rule"] == "R2" and "centre" in i["what"], "R10", "R10-centre-agreement", 1)
    # ---- R11: the offsets that reach the table builder are the offsets given ----------------------------------------------------------------------
    # "for every fractional offset": in the kick-map classes no store into the offset table rounds, truncates or snaps an offset
    # (round/floor/ceil/trunc/nearbyint/rint of an offset, or a conversion of it to an integer type)
    ROUNDERS = ("round", "floor", "ceil", "trunc", "nearbyint", "rint", "lround", "lrint", "llround")
    n11 = 0
    for fq_ in prog.functions.values():
        if not fq_.get("body") or fq_.get("class") not in ("vfps::KickMap", "vfps::RFKickMap", "vfps::DynamicRFKickMap", "vfps::DriftMap", "vfps::WakeKickMap",
                                                           "vfps::WakePotentialMap", "vfps::WakeFunctionMap"):
            continue
        mentions = [y for y in A.walk(fq_["body"]) if A.this_field(y) == "_offset"]
        if not mentions:
            continue
        n11 += 1
        aliases = set()           # locals bound to an element of _offset (range-for reference, reference / pointer initialised from it)
        for y in A.walk(fq_["body"]):
            if y.get("k") == "CXXForRangeStmt" and any(A.this_field(z) == "_offset" for z in A.walk(y.get("range") or {})):
                v_ = y.get("loopvar") or y.get("var") or {}
                if v_.get("decl") is not None:
                    aliases.add(v_["decl"])
            if y.get("k") == "DeclStmt":
                for d_ in y.get("decls", []):
                    if isinstance(d_.get("init"), dict) and ("&" in (d_.get("type") or "") or "*" in (d_.get("type") or "")) and any(A.this_field(z) == "_offset" for z in A.walk(d_["init"])):
                        aliases.add(d_["decl"])
        is_off = lambda n_: any(A.this_field(z) == "_offset" or (z.get("k") == "DeclRefExpr" and z.get("decl") in aliases) for z in A.walk(n_))
        bad = []
        for y in A.walk(fq_["body"]):
            cal = (y.get("callee") or "").split("::")[-1]
            if y.get("k") == "CallExpr" and cal in ROUNDERS and y.get("args") and is_off(y["args"][0]):
                bad.append((y, "%s() of an offset" % cal))
            elif y.get("cast") == "FloatingToIntegral" and y.get("c") and is_off(y["c"][0]) and not any(p_.get("k") in ("ArraySubscriptExpr",) for p_ in []):
                bad.append((y, "conversion of an offset to %s" % y.get("ctype")))
        # only quantisation that flows back into the table counts (updateSM legitimately splits an offset into cell and fraction)
        stores = [(x_, l_, r_) for x_, l_, op_, r_ in A.assignments_in(fq_["body"]) if is_off(l_)]
        tainted_locals = set()
        for y, why in bad:
            for st in A.walk(fq_["body"]):
                if st.get("k") == "DeclStmt":
                    for d_ in st.get("decls", []):
                        if isinstance(d_.get("init"), dict) and any(z is y or z.get("id") == y["id"] for z in A.walk(d_["init"])):
                            tainted_locals.add(d_["decl"])
        for x_, l_, r_ in stores:
            hit = [why for y, why in bad if any(z is y or z.get("id") == y["id"] for z in A.walk(r_))] + \
                  ["a rounded copy held in a local" for z in A.walk(r_) if z.get("k") == "DeclRefExpr" and z.get("decl") in tainted_locals]
            chk.check(not hit, "R11", A.loc(fq_, x_), "%s stores an offset that was not rounded or snapped (%s)" % (fq_["qname"].replace("vfps::", ""), hit or "plain value"),
                      "offset-quantised:%s" % fq_["qname"].replace("vfps::", ""))
    chk.floor("R11-functions-touching-the-offsets", n11, 4)
    chk.notes.append("C02: Lagrange/partition-of-unity identities for orders 1-4 over nodes read from updateSM/genHInfo; "
                     "exact-zero structure at f=0; frac/ipart pairing; bounds-guarded weights. Not decided: rounding over all floats.")
