"""C17 — no configuration or input file makes the program touch memory it does not own.

Whole-program memory safety over float-derived sizes needs a numeric abstract interpreter for C++
with library models; nothing available here can ingest this code (goto-analyzer cannot), so full
UB-freedom is NOT claimed.  Claimed are five obligation classes, each enumerated exhaustively:
 R1  bounds obligations: every loop-indexed access to the work arrays of the anchored classes
     (_hinfo, _offset, grid data, the field's FFT buffers, spectra, impedance samples) has
     0 <= index < extent of the allocation site, decided symbolically (all size symbols >= 1) from
     loop ranges, unsigned guards and the extent table; undischarged obligations are reported;
 R2  unchecked extraction: a local that is the target of `istream >>` in a statement that is not
     itself the stream test must not be read unless a stream test lies between;
 R3  definite assignment: every scalar local is assigned on all paths to each of its uses;
 R4  size agreement across objects: a loop that subscripts another object's container is bounded
     by (a minimum with) that container's size;
 R5  integer division / modulo by a run-time value is guarded by a non-zero test of the divisor.
"""
import sympy as sp
from .. import ast as A
from .. import indexmap as I
from .. import flow as Fl
from ..algebra import is_integral
from ..compdb import AnalysisBroken, REPO
from . import sizemodel as S, kickmodel as K, efield as E

LEVEL = "other"
N, B = S.N, S.B


LOWER = {"N": 8, "_ysize": 8, "_nmax": 8}      # documented domain: grids have at least 8 cells per axis


def nonneg_poly(e, syms_ge1, syms_ge0=()):
    """is e >= 0 for all values with every symbol in syms_ge1 >= 1 and in syms_ge0 >= 0 ?  Decided by substituting
    s -> 1 + s' and checking that every coefficient of the expanded polynomial is >= 0 (sufficient condition)."""
    # floor atoms: a lower bound of the slack is obtained with floor(q) <= q where it enters negatively, floor(q) >= q-1 where positively
    e = sp.expand(e)
    for t in list(e.atoms(sp.floor)):
        c = e.coeff(t, 1)
        if c.is_number:
            e = sp.expand(e.subs(t, t.args[0] if c < 0 else t.args[0] - 1))
    sub = {}
    for s_ in syms_ge1:
        lo = LOWER.get(str(s_), 1)
        sub[s_] = lo + sp.Symbol(str(s_) + "_p", nonnegative=True)
    e2 = sp.expand(e.subs(sub))
    if e2.has(sp.floor):
        return None
    try:
        poly = sp.Poly(e2, *sorted(e2.free_symbols, key=str)) if e2.free_symbols else None
    except sp.PolynomialError:
        return None
    if poly is None:
        return bool(e2 >= 0)
    return all(c >= 0 for c in poly.coeffs())


def max_index(idx, loops, extra_bounds):
    """upper bound of an index polynomial over the loop ranges (coefficients must be of known sign)"""
    e = sp.expand(idx)
    for L in loops:
        if L.sym is None or not e.has(L.sym):
            continue
        c = sp.expand(e.coeff(L.sym, 1))
        if sp.expand(e - c * L.sym).has(L.sym):
            return None
        hi = L.hi if L.cmp == "<" else (L.hi + 1 if L.cmp == "<=" else None)
        if hi is None or L.step != 1:
            return None
        e = sp.expand(e.subs(L.sym, S.norm(hi) - 1))
    for sym, hi in extra_bounds.items():
        if e.has(sym):
            e = sp.expand(e.subs(sym, hi - 1))
    return e


def run(chk, prog):
    chk.assume("all size symbols (B, interpolation points) are >= 1; grid size N, _ysize and transform length are >= 8", "nx == ny (size model lemma)",
               "tracked particle coordinates lie in [0, n-1] (decided by C15)", "library containers are used within their documented contracts apart from the indexed sites enumerated here")
    S.lemmas(chk, prog)
    for q in ("vfps::KickMap::updateSM", "vfps::KickMap::apply", "vfps::KickMap::applyTo", "vfps::FokkerPlanckMap::FokkerPlanckMap", "vfps::FokkerPlanckMap::apply",
              "vfps::ElectricField::wakePotential", "vfps::ElectricField::updateCSR", "vfps::ElectricField::padBunchProfiles", "vfps::Impedance::readData",
              "vfps::Impedance::operator+=", "vfps::makePSFromTXT", "vfps::HDF5File::readPhaseSpace", "main"):
        for f_ in prog.fns(q):
            chk.used(f_)
    # =========================================================== R2 unchecked extraction
    n2 = 0
    for f in prog.functions.values():
        if not f.get("body") or not f["file"].startswith(REPO):
            continue
        idx = None
        tops = []
        for x in A.walk(f["body"]):
            if x["k"] == "CXXOperatorCallExpr" and x.get("op") == ">>" and ("istream" in (x.get("callee") or "") or "istream" in (x.get("ctype") or "") or "ifstream" in (x.get("ctype") or "")):
                tops.append(x)
        if not tops:
            continue
        idx = A.index(f)
        inner = set()
        for x in tops:
            a0 = A.strip(x["args"][0], casts=False)
            if a0.get("k") == "CXXOperatorCallExpr" and a0.get("op") == ">>":
                inner.add(a0["id"])
        for x in tops:
            if x["id"] in inner:
                continue
            n2 += 1
            targets = []
            cur = x
            while cur.get("k") == "CXXOperatorCallExpr" and cur.get("op") == ">>":
                d = A.declref(cur["args"][1])
                if d is not None and d.get("local"):
                    targets.append(d)
                cur = A.strip(cur["args"][0], casts=False)
            stream = A.declref(cur)
            # is the extraction itself the tested condition?
            tested = False
            for q in A.enclosing(idx, x, {"WhileStmt", "IfStmt", "ForStmt", "DoStmt"}):
                if q.get("cond") is not None and x["id"] in {y["id"] for y in A.walk(q["cond"])}:
                    # the stream expression is (part of) the condition; it must be the whole condition or a conjunct of it
                    tested = True
                    break
            site = A.loc(f, x)
            if tested:
                chk.ok("R2", site, "%s: the extraction `%s` is itself the loop/branch condition: values are used only after a successful read" % (f["name"], A.show(x)[:50]))
                continue
            # standalone extraction: every later read of a target must be under a stream test that comes after it
            g = Fl.CFG(f)
            pos = g.where(x)
            bad = []
            for d in targets:
                def is_read(n_, dd=d):
                    return n_.get("k") == "ImplicitCastExpr" and n_.get("cast") == "LValueToRValue" and (A.declref(n_["c"][0]) or {}).get("decl") == dd["decl"]

                def is_test(n_, st=stream):
                    if st is None:
                        return False
                    if n_.get("k") == "CXXMemberCallExpr" and (n_.get("callee") or "").split("::")[-1] in ("good", "fail", "eof", "bad", "operator bool", "operator!") and \
                            (A.declref(A.call_object(n_)) or {}).get("decl") == st["decl"]:
                        return True
                    if n_.get("k") == "CXXOperatorCallExpr" and n_.get("op") == "!" and (A.declref(n_["args"][0]) or {}).get("decl") == st["decl"]:
                        return True
                    return False
                if pos is not None and g.some_path_between(pos, is_read, avoid_pred=is_test):
                    bad.append(d["name"])
            chk.check(not bad, "R2", site, "%s: `%s` is not the tested condition; %s %s read before the stream state is tested" %
                      (f["name"], A.show(x)[:50], bad or "no target", "are" if bad else "is"), "%s:unchecked-extraction:%s" % (f["qname"], sorted(bad)))
    chk.floor("R2-extractions", n2, 3)

    # =========================================================== R3 definite assignment
    n3 = 0
    for f in prog.functions.values():
        if not f.get("body") or f.get("cfg") is None:
            continue
        cand = {}
        for x in A.walk(f["body"]):
            if x["k"] == "DeclStmt":
                for d in x["decls"]:
                    if d.get("k") == "VarDecl" and "init" not in d and not d.get("static_local"):
                        t = (d.get("ctype") or "").replace("const ", "")
                        if t in ("float", "double", "long double", "int", "unsigned int", "long", "unsigned long", "short", "unsigned short", "char",
                                 "unsigned char", "signed char", "bool", "long long", "unsigned long long") or t.endswith("*"):
                            cand[d["decl"]] = d
        if not cand:
            continue
        g = Fl.CFG(f)

        def tr(n_, facts, cand=cand):
            k = n_.get("k")
            if k in ("BinaryOperator",) and n_.get("op") == "=":
                d = A.declref(n_["c"][0])
                if d is not None and d["decl"] in cand:
                    return facts | {d["decl"]}
            if k == "UnaryOperator" and n_.get("op") == "&":
                d = A.declref(n_["c"][0])
                if d is not None and d["decl"] in cand:
                    return facts | {d["decl"]}          # out-parameter: assigned by the callee
            if k == "CXXOperatorCallExpr" and n_.get("op") == ">>":
                d = A.declref(n_["args"][1])
                if d is not None and d["decl"] in cand:
                    return facts | {d["decl"]}          # whether the extraction succeeded is R2's concern
            if k in ("CallExpr", "CXXMemberCallExpr", "CXXConstructExpr"):
                # passed by non-const reference
                for a_ in n_.get("args", []):
                    d = A.declref(a_) if A.strip(a_, casts=False).get("k") == "DeclRefExpr" else None
                    if d is not None and d["decl"] in cand:
                        return facts | {d["decl"]}
            return facts
        res = g.forward(tr, set(cand), must=True, init=frozenset())
        for bid, b in g.blocks.items():
            if bid not in g.reach_from_entry:
                continue
            for i, n_ in enumerate(b["elems"]):
                d = None
                if n_.get("k") == "ImplicitCastExpr" and n_.get("cast") == "LValueToRValue":
                    d = A.declref(n_["c"][0]) if n_.get("c") else None
                elif n_.get("k") == "CompoundAssignOperator" or (n_.get("k") == "UnaryOperator" and n_.get("op") in ("++", "--")):
                    d = A.declref(n_["c"][0])
                if d is None or d["decl"] not in cand:
                    continue
                n3 += 1
                ok = d["decl"] in res[(bid, i)]
                chk.check(ok, "R3", A.loc(f, n_), "%s: local `%s` is assigned on every path before this use" % (f["name"], d["name"]),
                          "%s:maybe-uninitialised:%s" % (f["qname"], d["name"]))
    chk.floor("R3-uses-of-uninitialised-declared-locals", n3, 10)

    # =========================================================== R4 size agreement across objects
    n4 = 0
    for f in prog.functions.values():
        if not f.get("body") or not f.get("class"):
            continue
        pnames = {p["name"] for p in f["params"]}
        hits = [x for x in A.walk(f["body"]) if x["k"] in ("ArraySubscriptExpr",) or (x["k"] == "CXXOperatorCallExpr" and x.get("op") == "[]")]
        foreign = []
        for x in hits:
            base = A.strip(x["c"][0] if x["k"] == "ArraySubscriptExpr" else x["args"][0])
            if base.get("k") == "MemberExpr" and not A.is_this(base["c"][0]):
                o = A.declref(base["c"][0])
                if o is not None and o.get("dkind") == "ParmVar" and base["member"]["dkind"] == "Field":
                    foreign.append((x, o, base))
        if not foreign:
            continue
        s = I.scan(f)
        for x, o, base in foreign:
            n4 += 1
            acc = [a for a in s.accesses if a.node is x or a.node.get("id") == x["id"]]
            loops = acc[0].loops if acc else []
            site = A.loc(f, x)
            if not loops:
                chk.ok("R4", site, "%s: %s is not indexed by a loop" % (f["name"], A.show(x)), nontrivial=False)
                continue
            L = loops[-1]
            # the bound, with locals substituted, must mention the foreign object's size
            hi = L.hi
            txt = str(hi)
            ok = hi is not None and (("size(%s.%s)" % (o["name"], base["member"]["name"])) in txt.replace(" ", "") or ("%s._nfreqs" % o["name"]) in txt or
                                     ("size(%s)" % o["name"]) in txt.replace(" ", ""))
            if not ok and hi is not None and f.get("kind") == "ctor" and hi.is_Symbol:
                # copy constructor: own size field initialised from the same field of the source object, which sizes the source's array
                # by the class's own invariant (the same extent rule that covers `this->_data[i]`, i < _steps)
                ini = [a_ for a_ in s.accesses if a_.kind == "store" and a_.idx is None and a_.base == str(hi)]
                ok = len(ini) == 1 and ini[0].value is not None and str(ini[0].value).replace(" ", "") == "%s.%s" % (o["name"], str(hi)) and not ini[0].loops
            chk.check(ok, "R4", site, "%s: the loop over %s[%s] is bounded by that container's size (bound %s)" % (f["name"], A.show(base), L.name, hi),
                      "%s:foreign-subscript:%s:bound:%s" % (f["qname"], A.show(base), hi))
    chk.floor("R4-foreign-subscripts", n4, 1)

    # =========================================================== R5 guarded division
    n5 = 0
    for f in prog.functions.values():
        if not f.get("body"):
            continue
        idx = None
        asg_count = None
        local_decl = {}
        for x in A.walk(f["body"]):
            if x["k"] in ("BinaryOperator", "CompoundAssignOperator") and x.get("op") in ("%", "/", "%=", "/=") and is_integral(x.get("ctype")):
                d = A.strip(x["c"][1])
                if d["k"] == "IntegerLiteral" or ("const" in d and d["k"] != "DeclRefExpr"):
                    continue
                n5 += 1
                if idx is None:
                    idx = A.index(f)
                dtxt = A.show(d).replace(" ", "")
                # the divisor may be a name for another value (const hsize_t n = dims[0];): a test of that value is a test of the divisor
                dalts = [dtxt]
                dd_ = A.declref(d)
                hops_ = 0
                while dd_ is not None and hops_ < 3:
                    if asg_count is None:
                        asg_count = I._count_assignments(f)
                        local_decl = {v_["decl"]: v_ for st_ in A.walk(f["body"]) if st_["k"] == "DeclStmt" for v_ in st_["decls"] if v_.get("k") == "VarDecl"}
                    loc_ = local_decl.get(dd_.get("decl"))
                    if loc_ is None or "init" not in loc_ or asg_count.get(dd_["decl"], 0) != 0:
                        break
                    ini_ = A.strip(loc_["init"])
                    dalts.append(A.show(ini_).replace(" ", ""))
                    dd_ = A.declref(ini_)
                    hops_ += 1
                guarded = False
                # (a) left operand of an enclosing && tests the divisor
                cur, par = x, idx[1].get(x["id"])
                while par is not None and par["k"] not in ("CompoundStmt",):
                    if par["k"] == "BinaryOperator" and par.get("op") == "&&" and cur["id"] in {y["id"] for y in A.walk(par["c"][1])}:
                        lt = A.show(par["c"][0]).replace(" ", "")
                        if any(t in lt for dt_ in dalts for t in (dt_ + ">0", dt_ + "!=0", "0<" + dt_, "0!=" + dt_)):
                            guarded = True
                    if par["k"] == "IfStmt" and cur["id"] in {y["id"] for y in A.walk(par["then"])}:
                        ct = A.show(par["cond"]).replace(" ", "")
                        if any(t in ct for dt_ in dalts for t in (dt_ + ">0", dt_ + "!=0", "0<" + dt_)):
                            guarded = True
                    cur, par = par, idx[1].get(par["id"])
                # (b) an earlier `if (... divisor == 0 ...) throw/return` in an enclosing block
                if not guarded:
                    for blk in A.enclosing(idx, x, {"CompoundStmt"}):
                        for st in blk.get("c", []):
                            if st["line"] >= x["line"]:
                                break
                            if st["k"] == "IfStmt" and any(y["k"] in ("CXXThrowExpr", "ReturnStmt") for y in A.walk(st["then"])):
                                disj = []

                                def split_or(n_):
                                    n_ = A.strip(n_)
                                    if n_.get("k") == "BinaryOperator" and n_["op"] == "||":
                                        split_or(n_["c"][0]); split_or(n_["c"][1])
                                    else:
                                        disj.append(A.show(n_).replace(" ", ""))
                                split_or(st["cond"])
                                if any(t in (dt_ + "==0", "0==" + dt_, "(" + dt_ + "==0)") for t in disj for dt_ in dalts):
                                    guarded = True
                chk.check(guarded, "R5", A.loc(f, x), "%s: `%s` is evaluated only when the divisor %s was tested to be non-zero" % (f["name"], A.show(x)[:50], dtxt),
                          "%s:unguarded-division:%s" % (f["qname"], dtxt))
    chk.floor("R5-divisions", n5, 4)

    # =========================================================== R1 bounds obligations
    n1 = 0
    ip_, it_ = sp.Symbol("_ip", real=True), sp.Symbol("_it", real=True)
    ysz, xsz, mx = sp.Symbol("_ysize", real=True), sp.Symbol("_xsize", real=True), sp.Symbol("_meshxsize", real=True)
    nmax = E.NMAX
    GE1 = [N, B, ip_, ysz, nmax]

    seen_keys = set()

    def oblige(fn, acc, extent, what, subst=None, extra=None, key=None):
        nonlocal n1
        if acc.path == ".weight":
            return                      # same cell as the .index store of the brace initialiser
        n1 += 1
        e = acc.idx[0] if len(acc.idx) == 1 else None
        site = A.loc(fn, {"line": acc.line})
        if e is None:
            chk.fail("R1", site, "%s: multi-dimensional access %s not modelled" % (fn["name"], acc), key or "%s:%s:unmodelled" % (fn["qname"], acc.base))
            return
        e = sp.expand(S.norm(e).subs(subst or {}))
        mxi = max_index(e, acc.loops, extra or {})
        ok = None
        if mxi is not None:
            slack = sp.expand((S.norm(extent).subs(subst or {})) - mxi.subs(subst or {}) - 1)
            slack = slack.subs(sp.floor(N / 2), (N - sp.Symbol("par", nonnegative=True)) / 2) if slack.has(sp.floor) else slack
            ok = nonneg_poly(slack, [s_ for s_ in GE1 if slack.has(s_)])
        chk.check(bool(ok), "R1", site, "%s: %s %s[%s] stays below the extent %s (%s; max index %s)" % (fn["name"], acc.kind, acc.base, acc.idx[0], extent, what, mxi),
                  key or "%s:%s:%s:bound" % (fn["qname"], acc.kind, acc.base))

    # --- KickMap family -------------------------------------------------------------------------------
    kfn, ks, kf = K.kick_fields(prog)
    base = [i for i in kfn["inits"] if i.get("ikind") == "base"][0]
    be = A.strip(base["expr"], casts=False)
    names = be.get("callee_params", [])
    mem = S.norm(ks._try(be["args"][names.index("memsize")]))
    itp = sp.Symbol("it", real=True)
    ext_hinfo_kick = sp.expand(mem.subs(itp, ip_))
    chk.check(sp.expand(ext_hinfo_kick - N * B * ip_) == 0, "R1", kfn.where, "KickMap allocates N*B*it source-map entries (%s)" % mem, "KickMap:hinfo-extent:%s" % mem)
    smc = [c for c in prog.fns("vfps::SourceMap::SourceMap") if len(c["params"]) == 8][0]
    al = [i for i in smc["inits"] if i.get("target") == "_hinfo"]
    ok = False
    if len(al) == 1:
        ne = [x for x in A.walk(al[0]["expr"]) if x["k"] == "CXXNewExpr" and x.get("is_array") and isinstance(x.get("array_size"), dict)]
        if len(ne) == 1:
            ssm = I.Scanner(smc)
            ssm.run()
            v = ssm._try(ne[0]["array_size"])      # helper functions are looked into
            msz = sp.Symbol("memsize", real=True)
            ok = v is not None and (sp.expand(v - msz) == 0 or (v.func == sp.Max and msz in v.args and all(a_ == msz or (a_.is_Integer and a_ >= 0) for a_ in v.args)))
    chk.check(ok, "R1", smc.where, "SourceMap allocates at least memsize entries for _hinfo (max(memsize, const))", "SourceMap:hinfo-alloc")
    sz = {sp.Symbol("_meshsize_kd", real=True): N, sp.Symbol("_meshsize_pd", real=True): N, it_: ip_}
    rs = [c for c in ks.calls if c.callee and c.callee.endswith("::resize") and A.this_field(A.call_object(c.node)) == "_offset"]
    A.require(len(rs) == 1 and rs[0].args[0] is not None, "KickMap ctor: _offset.resize not found")
    ext_offset = sp.expand(S.norm(rs[0].args[0]).subs(sz))
    chk.check(sp.expand(ext_offset - N * B) == 0, "R1", A.loc(kfn, {"line": rs[0].line}), "KickMap allocates N*B offset rows (%s)" % ext_offset, "KickMap:offset-extent:%s" % ext_offset)
    usm = prog.fn("vfps::KickMap::updateSM", nparams=0)
    su = I.scan(usm)
    for a in su.accesses:
        if a.base == "_hinfo" and a.idx is not None:
            # outer loop runs over _offset.size() == N*B
            sub = dict(sz)
            a2 = a
            loops = []
            for L in a.loops:
                if str(L.hi) == "size(_offset)":
                    L = I.Loop(L.name, L.decl, L.sym, L.lo, N * B, L.cmp, L.step, L.node)
                elif L.hi == it_:
                    L = I.Loop(L.name, L.decl, L.sym, L.lo, ip_, L.cmp, L.step, L.node)
                loops.append(L)
            a2 = I.Access(a.kind, a.base, a.idx, a.path, a.node, a.line, a.guards, loops)
            oblige(usm, a2, ext_hinfo_kick, "KickMap::_hinfo holds N*B*it entries", sub)
        if a.base == "_offset" and a.idx is not None:
            loops = [I.Loop(L.name, L.decl, L.sym, L.lo, N * B, L.cmp, L.step, L.node) if str(L.hi) == "size(_offset)" else L for L in a.loops]
            oblige(usm, I.Access(a.kind, a.base, a.idx, a.path, a.node, a.line, a.guards, loops), ext_offset, "_offset rows", sz)
        if a.base in ("ph", "smc") and a.idx is not None and a.loops:
            loops = [I.Loop(L.name, L.decl, L.sym, L.lo, ip_, L.cmp, L.step, L.node) if L.hi == it_ else L for L in a.loops]
            oblige(usm, I.Access(a.kind, a.base, a.idx, a.path, a.node, a.line, a.guards, loops), ip_, "scratch arrays of _it entries", sz)
    ka = K.KickApply(prog)
    lastb = sp.Symbol("_lastbunch", real=True)
    for axis, b in sorted(ka.branches.items()):
        h = b.hinfo[0]
        nsym = [L for L in h.loops if L.name == "n"][0].sym
        sub = dict(sz)
        sub[sp.Min(lastb, nsym)] = nsym
        oblige(ka.fn, h, ext_hinfo_kick, "reader of the source-map table", sub)
        oblige(ka.fn, b.dout[0], N * N * B, "grid of B*N*N cells", sz)
        okg, why = K.source_guard(ka, b)
        chk.check(okg, "R1", A.loc(ka.fn, {"line": b.din[0].line}), "%s-kick grid read stays inside bunch n's N*N cells: %s" % (axis, why), "KickMap::apply:%s:source-guard" % axis)
        n1 += 1
    kat = prog.fn("vfps::KickMap::applyTo")
    st = I.scan(kat)
    for a in st.accesses:
        if a.kind == "load" and a.base == "_offset":
            gt = I.guard_text(a.guards).replace(" ", "")
            # rows floor(c) and floor(c)+1, read only under `floor(c)+1 < _meshsize_pd`
            ok = "+1<" in gt and "_meshsize_pd" in gt
            chk.check(ok, "R1", A.loc(kat, {"line": a.line}), "applyTo reads offset rows i and i+1 only if i+1 < perpendicular size (<= rows held)", "KickMap::applyTo:offset-rows")
            n1 += 1
    for nm, lim in (("vfps::RFKickMap::_calcKick", xsz), ("vfps::DriftMap::DriftMap", ysz)):
        f = prog.fn(nm) if nm.endswith("_calcKick") else prog.fn(nm)
        sc = I.scan(f)
        for a in sc.accesses:
            if a.kind == "store" and a.base == "_offset" and a.idx is not None:
                # _xsize (y-kick) resp. _ysize (x-kick) equal N by the KickMap constructor
                loops = [I.Loop(L.name, L.decl, L.sym, L.lo, N, L.cmp, L.step, L.node) if L.hi in (xsz, ysz) else L for L in a.loops]
                oblige(f, I.Access(a.kind, a.base, a.idx, a.path, a.node, a.line, a.guards, loops[:1]), ext_offset, "_offset rows", sz)
    # --- FokkerPlanckMap ---------------------------------------------------------------------------------
    fc = prog.fn("vfps::FokkerPlanckMap::FokkerPlanckMap")
    sf = I.scan(fc)
    zb = sp.Function("zerobin")
    ext_fp = ysz * ip_
    for a in sf.accesses:
        if a.kind == "store" and a.base == "_hinfo" and a.idx is not None:
            if a.loops and any("zerobin" in str(L.hi) or "zerobin" in str(L.lo) for L in a.loops):
                # loop bounded by the zero bin of the energy axis: inside [2,_ysize-2] only if the grid contains zero energy
                L = a.loops[0]
                which = "upper" if "zerobin" in str(L.lo) else "lower"
                if (which, "fp") in seen_keys:
                    continue
                seen_keys.add((which, "fp"))
                n1 += 1
                if which == "lower":
                    chk.fail("R1", A.loc(fc, {"line": a.line}), "FokkerPlanckMap: rows j in [2, zero bin) are written without checking zero bin <= _ysize-2: "
                             "a grid shifted so far that it does not contain zero energy writes beyond the stencil table", "FokkerPlanckMap::ctor:_hinfo:lower-block-bound:zerobin")
                else:
                    chk.ok("R1", A.loc(fc, {"line": a.line}), "FokkerPlanckMap: rows j in [zero bin, _ysize-2) are bounded by the table size from above")
                continue
            sw = [g_ for g_, pol in a.guards if isinstance(g_, dict) and g_.get("k") == "SwitchCase"]
            dtv = sw[0]["labels"][0] if sw else None
            oblige(fc, a, ext_fp, "stencil table of _ysize*_ip entries (dt=%s)" % dtv, {ip_: dtv} if isinstance(dtv, int) else None,
                   key="FokkerPlanckMap::ctor:_hinfo:dt%s:%s:%s" % (dtv, "loop" if a.loops else "border", a.idx[0]))
    fa = prog.fn("vfps::FokkerPlanckMap::apply", nparams=0)
    sfa = I.scan(fa)
    for a in sfa.accesses:
        if a.base == "_hinfo" and a.idx is not None:
            oblige(fa, a, ext_fp, "stencil table of _ysize*_ip entries")
        if a.base == "data_out" and a.idx is not None:
            oblige(fa, a, N * N * B, "grid of B*N*N cells", {mx: N, ysz: N})
    # --- ElectricField --------------------------------------------------------------------------------
    m = E.Model(prog)
    ext = {"_formfactor": nmax, "_wakelosses": nmax, "_wakepotential_padded": nmax, "_bp_padded": nmax, "_csrspectrum": None, "_csrintensity": None, "*_impedance": nmax}
    for op in m.ops:
        fn = m.fns[op]
        for e in m.events[op][0]:
            if e.kind in ("read", "write") and isinstance(e.lo, tuple) and len(e.lo) == 1 and e.buf in ext and ext[e.buf] is not None and e.loops:
                idxe = e.lo[0]
                if idxe.atoms(sp.Indexed) and ("pos", e.buf) in seen_keys:
                    continue
                if idxe.atoms(sp.Indexed):
                    seen_keys.add(("pos", e.buf))
                    # bucket*spacing + x : needs the relation between spacing, bucket numbers and the transform length, which main establishes with
                    # two different roundings
                    n1 += 1
                    chk.fail("R1", A.loc(fn, {"line": e.line}), "%s: %s[%s] < _nmax needs max(bucket)*spacing_bins + N <= _nmax, which main does not guarantee "
                             "(spacing_bins = round(s), transform length = ceil(n_buckets*s) when RoundPadding=0)" % (op, e.buf, idxe), "ElectricField:%s:padded-position-bound" % e.buf)
                    continue
                acc = I.Access(e.kind, e.buf, e.lo, "", {"id": e.nid}, e.line, e.guards, e.loops)
                hi_sub = {sp.Symbol("_nbunches", real=True): B}
                # the transform length is at least one grid length (lemma below: padding >= 1): _nmax = N + pad, pad >= 0
                ext_e = ext[e.buf]
                if not idxe.has(nmax) and not any(L.hi is not None and sp.sympify(L.hi).has(nmax) for L in e.loops):
                    ext_e = N + sp.Symbol("pad", nonnegative=True)
                oblige(fn, acc, ext_e, "FFT work buffer / impedance of _nmax >= N samples", hi_sub)
            if e.kind == "write" and e.buf == "_bp_padded" and not isinstance(e.lo, tuple):
                n1 += 1
                if e.lo.atoms(sp.Indexed):
                    chk.fail("R1", A.loc(fn, {"line": e.line}), "%s: copy of N values to _bp_padded+%s needs max(bucket)*spacing_bins + N <= _nmax, which main does not guarantee "
                             "(round vs ceil; RoundPadding=0)" % (op, e.lo), "ElectricField:_bp_padded:padded-position-bound")
                else:
                    slack = sp.expand(nmax - (e.lo + e.length))
                    ok = slack == 0 or nonneg_poly(slack.subs(nmax, N + sp.Symbol("pad", nonnegative=True)), [N])
                    chk.check(bool(ok), "R1", A.loc(fn, {"line": e.line}), "%s: %s of %s values at _bp_padded+%s ends inside the buffer of _nmax >= N values" % (op, e.what, e.length, e.lo),
                              "ElectricField:_bp_padded:%s:%s" % (e.what, e.lo))
    # the transform length is at least one grid length: padded_bins = ceil(N*max(padding,1))
    mainf = prog.fn("main")
    sm = I.scan(mainf)
    pad = [a for a in sm.accesses if a.kind == "store" and a.base == "padding" and a.idx is None]
    ok = len(pad) == 1 and pad[0].value is not None and pad[0].value.func == sp.Max and 1 in [sp.nsimplify(t) for t in pad[0].value.args if t.is_number]
    chk.check(ok, "R1", A.loc(mainf, {"line": pad[0].line if pad else mainf["line"]}), "main: the padding factor is at least 1, so the transform length is at least N (%s)" % (pad[0].value if pad else None),
              "main:padding>=1")
    n1 += 1
    # the padded positions bucket*spacing_bins + [0,N) must fit the transform length: main's side of the obligation.
    # (a) bucket numbers range over [0, n_buckets-1]; (b) the bucket-train length is selected whenever there is more than one
    # bucket; (c) that length is ceil(N*n_buckets*s) or larger, the spacing round(N*s): (c) leaves the round/ceil gap recorded
    # as a known finding, (a) and (b) are decided here.
    mk = [x for x in A.walk(mainf["body"]) if x.get("callee") == "vfps::makeImpedance"]
    A.require(len(mk) == 2, "main: the two makeImpedance calls not found")
    wk = [x for x in mk if A.strip(x["args"][0]).get("k") == "ConditionalOperator"]
    n1 += 1
    ok = False
    ct = ""
    if len(wk) == 1:
        co = A.strip(wk[0]["args"][0])
        ct = A.show(co["cond"]).replace(" ", "").strip("()")
        th, el = (A.declref(co["then"]) or {}).get("name"), (A.declref(co["else"]) or {}).get("name")
        ok = ct in ("filling.size()>1", "nbuckets>1") and th == "spaced_bins" and el == "padded_bins"
        # the same selection written the other way round (size and count are unsigned: `<= 1` is the complement of `> 1`)
        ok = ok or (ct in ("filling.size()<=1", "nbuckets<=1", "filling.size()<2", "nbuckets<2", "!(filling.size()>1)", "!(nbuckets>1)") and th == "padded_bins" and el == "spaced_bins")
        ok = ok or (ct in ("filling.size()>=2", "nbuckets>=2") and th == "spaced_bins" and el == "padded_bins")
    chk.check(ok, "R1", A.loc(mainf, wk[0]) if wk else mainf.where,
              "main: the wake transform length is the bucket-train length (spaced_bins) whenever there is more than one bucket, else the single-bunch length (selector `%s`)" % ct,
              "main:wake-length-selector:%s" % ct)
    bn = [x for x in A.walk(mainf["body"]) if x.get("k") == "CXXMemberCallExpr" and (x.get("callee") or "").endswith("::push_back") and "bucketnumbers" in A.show(A.call_object(x))]
    n1 += 1
    ok = False
    loc_ = {d["name"]: sm.tr.env.get(k_) for k_, d in sm.locals.items()}
    fill = loc_.get("filling")
    if len(bn) == 1 and fill is not None:
        acc = [c_ for c_ in sm.calls if c_.node.get("id") == bn[0]["id"]]
        if acc and acc[0].args[0] is not None and acc[0].loops:
            L = acc[0].loops[0]
            v = acc[0].args[0]
            # the container is named either by the value the local was initialised with or by the local itself
            for fs in (sp.Function("size")(sp.Symbol(str(fill).replace(" ", ""), real=True)), sp.Function("size")(sp.Symbol("filling", real=True))):
                ok = ok or (sp.simplify(v - (fs - 1 - L.sym)) == 0 and L.lo == 0 and L.hi is not None and sp.simplify(L.hi - fs) == 0)
    chk.check(ok, "R1", A.loc(mainf, bn[0]) if bn else mainf.where, "main: bucket numbers are n_buckets-1-i for i in [0,n_buckets): they lie in [0, n_buckets-1]", "main:bucket-number-range")
    sb, sps, psb = loc_.get("spacing_bins"), loc_.get("spacing_ps"), loc_.get("ps_bins")
    nbk = loc_.get("nbuckets")
    n1 += 1
    ok = sb is not None and sps is not None and psb is not None and sp.simplify(sb - sp.Function("round")(psb * sps)) == 0
    chk.check(ok, "R1", mainf.where, "main: spacing_bins = round(N * spacing) (%s)" % sb, "main:spacing_bins:%s" % sb)
    spd = [a for a in sm.accesses if a.kind == "store" and a.base == "spaced_bins" and a.idx is None]
    if len(spd) == 1 and spd[0].value is not None and spd[0].value.is_Symbol:
        # the value was built in a helper's local (a lambda spliced into main): the stores to that local since it was last handed
        # to another variable are the stores that build spaced_bins
        hname = str(spd[0].value)
        scalar = [a for a in sm.accesses if a.kind == "store" and a.idx is None]
        handed = [a.seq for a in scalar if a.value is not None and a.value.is_Symbol and str(a.value) == hname and a.seq < spd[0].seq]
        since = max(handed) if handed else -1
        built = [a for a in scalar if a.base == hname and since < a.seq < spd[0].seq]
        if built:
            spd = built
    n1 += 1
    ok = len(spd) >= 1 and spd[0].value is not None and spd[0].value.func == sp.ceiling and \
        sp.simplify(spd[0].value.args[0] - psb * nbk * sps) == 0 if (psb is not None and sps is not None and nbk is not None) else False
    ok = ok and fill is not None and nbk is not None and sp.simplify(nbk - sp.Function("size")(sp.Symbol(str(fill).replace(" ", ""), real=True))) == 0
    later = [a for a in spd[1:]]
    ok = ok and all("upper_power_of_two" in str(a.value) for a in later)
    chk.check(bool(ok), "R1", mainf.where, "main: the bucket-train length is ceil(N * n_buckets * spacing), only ever enlarged (to a power of two)", "main:spaced_bins")
    chk.floor("R1-obligations", n1, 30)
    # ---- R7: grid-coordinate look-ups of tracked positions (Ruler::at is an unchecked array read) -----------------------------------------
    # invariant (decided under C15 R1): every tracked coordinate lies in [0, n-1].  Every index handed to q()/p()/at() in appendTracks must
    # have an upper bound <= n-1 under that invariant: the coordinate itself (converted to an index: floor), min(., n-1), a local that holds
    # such a value, such a value minus a constant -- but not such a value plus one.
    at = prog.fn("vfps::HDF5File::appendTracks")
    chk.used(at)
    Nn = sp.Symbol("n", positive=True)
    linit = {}
    for x in A.walk(at["body"]):
        if x.get("k") == "DeclStmt":
            for d in x.get("decls", []):
                if d.get("k") == "VarDecl" and isinstance(d.get("init"), dict):
                    linit[d["decl"]] = d["init"]

    def ub(nd, depth=0):
        nd = A.strip(nd)
        if depth > 8:
            return None
        k_ = nd.get("k")
        if k_ in ("IntegerLiteral", "FloatingLiteral"):
            return sp.nsimplify(nd.get("value"))
        if k_ == "MemberExpr" and nd["member"]["name"] in ("x", "y") and "Position" in (nd["member"].get("qname") or ""):
            return Nn - 1                       # a tracked coordinate (invariant)
        if k_ == "MemberExpr" and nd["member"]["name"] in ("_psSizeX", "_psSizeY", "_nmeshcellsX", "_nmeshcellsY"):
            return Nn
        if k_ == "DeclRefExpr" and nd.get("qname") in ("vfps::PhaseSpace::nx", "vfps::PhaseSpace::ny"):
            return Nn
        if k_ == "DeclRefExpr" and nd.get("decl") in linit:
            return ub(linit[nd["decl"]], depth + 1)
        if k_ == "CallExpr" and (nd.get("callee") or "") in ("std::min", "min", "std::fmin") and len(nd.get("args", [])) == 2:
            a_, b_ = ub(nd["args"][0], depth + 1), ub(nd["args"][1], depth + 1)
            if a_ is None or b_ is None:
                return a_ if b_ is None else b_
            d_ = sp.simplify(a_ - b_)
            return a_ if (d_.is_number and d_ <= 0) else (b_ if d_.is_number else None)
        if k_ == "CallExpr" and (nd.get("callee") or "").split("::")[-1] in ("floor", "trunc") and nd.get("args"):
            return ub(nd["args"][0], depth + 1)
        if k_ == "BinaryOperator" and nd.get("op") in ("+", "-"):
            a_, b_ = ub(nd["c"][0], depth + 1), A.strip(nd["c"][1])
            if a_ is not None and b_.get("k") in ("IntegerLiteral", "FloatingLiteral"):
                c_ = sp.nsimplify(b_.get("value"))
                return a_ + c_ if nd["op"] == "+" else a_ - c_
            return None
        return None
    n7 = 0
    for x in A.walk(at["body"]):
        cal = (x.get("callee") or "")
        if x.get("k") in ("CXXMemberCallExpr", "CXXOperatorCallExpr") and (cal in ("vfps::PhaseSpace::q", "vfps::PhaseSpace::p", "vfps::PhaseSpace::_qp") or
                                                                            (cal.startswith("vfps::Ruler") and cal.split("::")[-1] in ("at", "operator[]"))):
            arg = (x.get("args") or [None])[-1]
            if arg is None:
                continue
            u_ = ub(arg)
            n7 += 1
            okb = u_ is not None and sp.simplify(u_ - (Nn - 1)).is_number and sp.simplify(u_ - (Nn - 1)) <= 0
            chk.check(bool(okb), "R7", A.loc(at, x), "appendTracks: the grid index handed to %s() is at most n-1 for coordinates in [0, n-1] (upper bound %s of `%s`)"
                      % (cal.split("::")[-1], u_, A.show(arg)[:60]), "appendTracks:%s:index-bound:%s" % (cal.split("::")[-1], u_))
    chk.floor("R7-coordinate-lookups", n7, 2)
    # ---- R6: class invariant behind the loops bounded by nFreqs(): Impedance::_nfreqs == _data.size() ---------------------------------
    # constructors establish it (R1/R4 lemmas); it survives only if nothing changes the length of _data afterwards.  Every member that can
    # (swap, assignment of the sample vector, resize, ...; directly or through another member) must have no caller outside the class.
    from .common import length_changing_members, external_callers
    imp_cls = {"vfps::Impedance"} | prog.subclasses("vfps::Impedance")
    changing_all = length_changing_members(prog, imp_cls, "_data")
    # a member that can only make the vector longer keeps _nfreqs <= _data.size(): loops bounded by nFreqs() stay inside (that the
    # number of samples is then no longer the requested one is C16's business, not a memory error)
    changing = {sig: why for sig, (why, grow_only) in changing_all.items() if not grow_only}
    chk.tables["impedance_members_that_only_grow_the_samples"] = sorted(prog.functions[s_]["qname"] for s_, (w_, g_) in changing_all.items() if g_)
    n6 = 0
    for sig, why in sorted(changing.items()):
        fq = prog.functions[sig]
        chk.used(fq)
        sites = external_callers(prog, sig, imp_cls)
        n6 += 1
        chk.check(not sites, "R6", sites[0] if sites else fq.where,
                  "%s can change the number of samples without changing nFreqs() (%s): it has no caller outside the class%s"
                  % (fq["qname"].replace("vfps::", ""), why, "" if not sites else " -- called at %s; afterwards loops bounded by nFreqs() over- or under-run the samples" % sites),
                  "%s:length-changing-member-called" % fq["qname"].replace("vfps::", ""))
    chk.floor("R6-length-changing-members", n6, 2)
    # ---- R8: the number of bunches the grids are sized for is the length of the filling they are built with -------------------------------------
    # PhaseSpace::setSize(n, b) fixes the static bunch count every per-bunch loop runs to; the constructor copies its `filling` argument
    # into _filling_set, which those loops subscript.  At every place that sizes the grids, b must be the size of the very vector handed to
    # the constructions that follow in that function (directly `v.size()`, or a local defined as that).
    def vec_whose_size(fn, e, depth=0):
        e = A.strip(e)
        if e.get("k") == "CXXMemberCallExpr" and (e.get("callee") or "").endswith("::size"):
            d_ = A.declref(A.call_object(e))
            return d_["decl"] if d_ is not None else None
        d_ = A.declref(e)
        if d_ is not None and depth < 3:
            for st in A.walk(fn["body"]):
                if st.get("k") == "DeclStmt":
                    for dd in st.get("decls", []):
                        if dd.get("decl") == d_.get("decl") and dd.get("is_const") and isinstance(dd.get("init"), dict):
                            return vec_whose_size(fn, dd["init"], depth + 1)
        return None
    fill_pos = {len(c_["params"]): [p_["name"] for p_ in c_["params"]].index("filling") for c_ in prog.fns("vfps::PhaseSpace::PhaseSpace")
                if "filling" in [p_["name"] for p_ in c_["params"]]}
    A.require(fill_pos, "PhaseSpace constructors with a `filling` parameter not found")
    n8 = 0
    for fq in prog.functions.values():
        if not fq.get("body"):
            continue
        sizers = [x for x in A.walk(fq["body"]) if x.get("callee") == "vfps::PhaseSpace::setSize" and len(x.get("args", [])) == 2]
        if not sizers:
            continue
        chk.used(fq)
        builds = []
        for x in A.walk(fq["body"]):
            args = None
            if x.get("k") == "CXXNewExpr" and (x.get("alloc_type") or "").endswith("PhaseSpace") and isinstance(x.get("init"), dict):
                ce = A.strip(x["init"], casts=False)
                if ce.get("k") == "CXXConstructExpr" and "filling" in (ce.get("callee_params") or []):
                    args = (ce["args"], ce["callee_params"].index("filling"))
            elif x.get("k") == "CallExpr" and (x.get("callee") or "") in ("std::make_unique", "std::make_shared") and "PhaseSpace>" in (x.get("ctype") or "") and \
                    "vfps::PhaseSpace" in (x.get("callee_sig") or ""):
                cand = {pos for n_, pos in fill_pos.items() if pos < len(x["args"]) and "std::vector<" in (A.strip(x["args"][pos]).get("ctype") or "")}
                if len(cand) == 1 and len(x["args"]) > 4:
                    args = (x["args"], cand.pop())
            if args is not None and args[1] < len(args[0]) and args[0][args[1]].get("k") != "CXXDefaultArgExpr":
                builds.append((x, args[0][args[1]]))
        for sz in sizers:
            vb = vec_whose_size(fq, sz["args"][1])
            later = [(x, a_) for x, a_ in builds if x["id"] > sz["id"]]
            for x, a_ in later:
                da = A.declref(a_)
                n8 += 1
                chk.check(vb is not None and da is not None and da["decl"] == vb, "R8", A.loc(fq, sz),
                          "%s: the grids are sized for `%s` bunches and the phase space built at line %d takes the filling `%s`: the count is that vector's size"
                          % (fq["qname"].replace("vfps::", ""), A.show(sz["args"][1])[:40], x["line"], A.show(a_)[:30]),
                          "%s:setSize-vs-filling:%s" % (fq["qname"].replace("vfps::", ""), A.show(a_)[:30].replace(" ", "")))
    chk.floor("R8-sized-constructions", n8, 3)
    # ---- R9: no member initialiser uses a member that is constructed later ------------------------------------------------------------------------
    # members are constructed in the order of their declaration, whatever the order of the initialiser list: an initialiser that reads a
    # member declared further down (directly, or through a member function it calls) uses an object that does not exist yet
    from .. import effects as Ef9
    eff9 = Ef9.Effects(prog)
    n9 = 0
    for q9, rec9 in sorted(prog.records.items()):
        if not q9.startswith("vfps::"):
            continue
        order9 = {fld["name"]: k_ for k_, fld in enumerate(rec9.get("fields", []))}
        if not order9:
            continue
        for c9 in prog.functions.values():
            if c9.get("class") != q9 or c9.get("kind") != "ctor" or not c9.get("inits"):
                continue
            for i9 in c9["inits"]:
                if i9.get("ikind") != "member" or i9.get("target") not in order9 or not isinstance(i9.get("expr"), dict):
                    continue
                reads9 = {}
                for y in A.walk(i9["expr"]):
                    f_ = A.this_field(y)
                    if f_ in order9:
                        reads9.setdefault(f_, "read directly")
                    if y.get("k") == "CXXMemberCallExpr" and (A.call_object(y) is None or A.is_this(A.strip(A.call_object(y)))):
                        for cal9 in [g_ for g_ in prog.fns(y.get("callee") or "") if g_.get("body") and g_.get("class") == q9]:
                            try:
                                for (o_, fld_, sel_) in eff9.summary(cal9, q9).reads:
                                    if o_ == "this" and fld_ in order9:
                                        reads9.setdefault(fld_, "read by %s()" % cal9["name"])
                            except Exception:
                                pass
                n9 += 1
                late9 = sorted((f_, how_) for f_, how_ in reads9.items() if order9[f_] > order9[i9["target"]])
                chk.check(not late9, "R9", A.loc(c9, {"line": i9["line"]}), "%s: the initialiser of %s uses only members declared before it (%s)"
                          % (q9.replace("vfps::", ""), i9["target"], ["%s, %s, is declared after it" % t_ for t_ in late9] or "ok"),
                          "init-order:%s::%s:%s" % (q9.replace("vfps::", ""), i9["target"], [t_[0] for t_ in late9]))
    chk.floor("R9-member-initialisers", n9, 100)
    # ---- R10: an algorithm that writes through an iterator writes no more elements than its destination holds ----------------------------------------
    # std::transform / std::copy over [A.begin(), A.end()) into OUT.begin() write size(A) elements: OUT must be A itself, or be sized from A
    # in the same function (constructed or resized with A.size()), or the call must be under a test size(A) <= size(OUT)
    def _range_container(first, last):
        f_, l_ = A.strip(first), A.strip(last)
        for n_ in (f_, l_):
            while n_.get("k") in ("CXXConstructExpr", "MaterializeTemporaryExpr", "CXXBindTemporaryExpr", "CXXFunctionalCastExpr") and len(n_.get("args", n_.get("c", []))) == 1:
                n_ = A.strip((n_.get("args") or n_.get("c"))[0])
        def strip_(n_):
            n_ = A.strip(n_)
            while n_.get("k") in ("CXXConstructExpr", "MaterializeTemporaryExpr", "CXXBindTemporaryExpr", "CXXFunctionalCastExpr") and len(n_.get("args", n_.get("c", []))) == 1:
                n_ = A.strip((n_.get("args") or n_.get("c"))[0])
            return n_
        f_, l_ = strip_(first), strip_(last)
        if f_.get("k") == "CXXMemberCallExpr" and l_.get("k") == "CXXMemberCallExpr" and (f_.get("callee") or "").split("::")[-1] in ("begin", "cbegin") and \
                (l_.get("callee") or "").split("::")[-1] in ("end", "cend") and A.call_object(f_) is not None and A.call_object(l_) is not None and \
                A.show(A.strip(A.call_object(f_))) == A.show(A.strip(A.call_object(l_))):
            return A.show(A.strip(A.call_object(f_))).replace(" ", ""), strip_
        return None, strip_
    n10 = 0
    for fq in prog.functions.values():
        if not fq.get("body") or not (fq["qname"].startswith("vfps::") or fq["qname"] == "main"):
            continue
        fidx10 = None
        for x in A.walk(fq["body"]):
            if x.get("k") != "CallExpr" or x.get("callee") not in ("std::transform", "std::copy", "std::copy_backward", "std::move") or len(x.get("args", [])) < 3:
                continue
            src_c, strip_ = _range_container(x["args"][0], x["args"][1])
            if src_c is None:
                continue
            out_n = strip_(x["args"][-2] if x["callee"] == "std::transform" else x["args"][2])
            if not (out_n.get("k") == "CXXMemberCallExpr" and (out_n.get("callee") or "").split("::")[-1] in ("begin", "data") and A.call_object(out_n) is not None):
                continue
            out_c = A.show(A.strip(A.call_object(out_n))).replace(" ", "")
            n10 += 1
            ok10 = out_c == src_c
            why10 = "the destination is the source range itself" if ok10 else ""
            if not ok10:
                if fidx10 is None:
                    fidx10 = A.index(fq)
                szs = lambda c_: ("%s.size()" % c_)
                for y in A.walk(fq["body"]):
                    t_ = A.show(y).replace(" ", "") if y.get("k") in ("CXXMemberCallExpr", "DeclStmt", "CXXConstructExpr") else ""
                    if y.get("id", 0) < x["id"] and y.get("k") == "CXXMemberCallExpr" and (y.get("callee") or "").endswith("::resize") and \
                            A.show(A.strip(A.call_object(y))).replace(" ", "") == out_c and szs(src_c) in A.show(y["args"][0]).replace(" ", ""):
                        ok10, why10 = True, "destination resized to the source's size before"
                for c_ in A.enclosing(fidx10, x, {"IfStmt"}):
                    ct = A.show(c_["cond"]).replace(" ", "")
                    if any(ct_ in ct for ct_ in ("%s<=%s" % (szs(src_c), szs(out_c)), "%s>=%s" % (szs(out_c), szs(src_c)), "%s==%s" % (szs(src_c), szs(out_c)), "%s==%s" % (szs(out_c), szs(src_c)))) and \
                            x["id"] in {z["id"] for z in A.walk(c_.get("then") or {})}:
                        ok10, why10 = True, "under a test that the source is not longer than the destination"
            chk.used(fq)
            chk.check(ok10, "R10", A.loc(fq, x), "%s: %s writes size(%s) elements into %s: %s" % (fq["qname"].replace("vfps::", ""), x["callee"], src_c, out_c,
                      why10 or "NOTHING relates the two sizes, a longer source writes past the end of the destination"),
                      "iterator-write:%s:%s->%s" % (fq["qname"].replace("vfps::", ""), src_c, out_c))
    chk.floor("R10-iterator-range-writes", n10, 1)
    # ---- R11: a member that selects an array element has a value from construction on ---------------------------------------------------------------------
    # every scalar member that some member function uses inside a subscript is given a value by every constructor of the class that declares it:
    # in the initialiser list (default member initialisers included), or by an assignment that lies on every path through the constructor body
    from .. import flow as Fl11
    SC11 = ("bool", "char", "signed char", "unsigned char", "short", "unsigned short", "int", "unsigned int", "long", "unsigned long", "long long", "unsigned long long")
    idx_fields = {}
    for fq in prog.functions.values():
        cls_ = fq.get("class") or ""
        if not cls_.startswith("vfps::") or not fq.get("body"):
            continue
        for x in A.walk(fq["body"]):
            sub = None
            if x.get("k") == "ArraySubscriptExpr":
                sub = x["c"][1]
            elif x.get("k") == "CXXOperatorCallExpr" and x.get("op") == "[]" and len(x.get("args", [])) == 2:
                sub = x["args"][1]
            if sub is None:
                continue
            srcs11 = [sub]
            # a local used in the subscript stands for its initialiser (const meshindex_t offs = std::min(n,_lastbunch)*rows; ... table[offs+x])
            for y in A.walk(sub):
                if y.get("k") == "DeclRefExpr" and y.get("local"):
                    for st_ in A.walk(fq["body"]):
                        if st_.get("k") == "DeclStmt":
                            for d_ in st_.get("decls", []):
                                if d_.get("decl") == y.get("decl") and isinstance(d_.get("init"), dict):
                                    srcs11.append(d_["init"])
            for src_ in srcs11:
                for y in A.walk(src_):
                    if y.get("k") == "MemberExpr" and A.this_field(y) and (y.get("ctype") or "").replace("const ", "").strip() in SC11:
                        owner = (y.get("member") or {}).get("qname", "").rsplit("::", 1)[0]
                        idx_fields.setdefault((owner, A.this_field(y)), fq["qname"])
    n11 = 0
    for (owner, fld), user in sorted(idx_fields.items()):
        if owner not in prog.records:
            continue
        for c11 in prog.functions.values():
            if c11.get("class") != owner or c11.get("kind") != "ctor" or c11.get("copy_ctor") or c11.get("move_ctor"):
                continue
            inits11 = c11.get("inits", [])
            if any(i_.get("ikind") == "delegating" for i_ in inits11) or (not c11.get("body") and not inits11):
                continue
            ok11 = any(i_.get("ikind") == "member" and i_.get("target") == fld for i_ in inits11)
            how = "initialiser list"
            if not ok11 and c11.get("body"):
                g11 = Fl11.CFG(c11)
                assigns = lambda n_, f_=fld: n_.get("k") in ("BinaryOperator",) and n_.get("op") == "=" and A.this_field(n_["c"][0]) == f_
                mn11, mx11 = g11.count_on_paths(assigns)
                ok11 = mn11 is not None and mn11 >= 1
                how = "assignment on every path of the body"
            n11 += 1
            chk.check(ok11, "R11", c11.where, "%s::%s (an index in %s) is given a value by this constructor (%s)" % (owner.replace("vfps::", ""), fld, user.replace("vfps::", ""),
                      how if ok11 else "NOT initialised: its first use reads an indeterminate value"),
                      "index-member-uninitialised:%s::%s" % (owner.replace("vfps::", ""), fld))
    chk.floor("R11-index-members-x-constructors", n11, 3)
    chk.notes.append("C17: %d bounds obligations on the work arrays (symbolic max index vs. allocation extent), stream-extraction discipline, definite assignment "
                     "of scalar locals over all functions, foreign-container subscripts, guarded integer division. NOT decided: UB-freedom in general, libraries." % n1)
