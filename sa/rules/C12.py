"""C12 — observing the simulation does not change it; equal inputs give equal outputs.

Effect / non-interference analysis over main (E4 summaries lifted to main's objects):
 simulation state S = the data of the three grids, the X projection of grid_t1 (input of the wake),
   every map's offsets and source-map table, the wake field's work buffers, the RF modulation queue;
 observer inputs O = outstep, h5save, outstepnr, hdf_file, ofname, verbose, trackme, display, updatetime.
 R1  no observer write into S: every call in the output block (the region control-dependent on
     the output condition) may write only locations outside S;
 R2  no control or data flow from O to S-writing calls: the branch conditions that S-writing calls
     of the loop are under mention no observer input, and neither do their arguments (particle
     tracking gets `trackme` but writes only the particles and the tracking RNG, both outside S);
 R3  particle tracking and display are sinks: trackme is passed only to applyToAll / appendTracks;
 R4  sources of nondeterminism (random_device, clocks, rand) are called only from a frozen list of
     functions, none of which computes simulation state other than the RNG-driven parts the
     statement excludes.
Bit-identity of two concrete runs additionally assumes deterministic compiled arithmetic and FFTW
with the same wisdom (premise of the statement); that is NOT decided.
"""
from .. import ast as A
from .. import mainmodel as M
from ..callargs import plain_var
from ..compdb import AnalysisBroken

LEVEL = "other"

OBSERVER_VARS = {"outstep", "h5save", "outstepnr", "hdf_file", "ofname", "verbose", "trackme", "display", "updatetime"}
STATE_FIELDS = {"_data", "_offset", "_hinfo", "_next_modulation", "_bp_padded", "_formfactor", "_wakelosses", "_wakepotential",
                "_wakepotential_padded", "_lastbunch"}
# who may call a source of nondeterminism, and why that does not reach the deterministic physics
NONDET_ALLOWED = {
    "main": "start time for log time stamps only",
    "vfps::Display::printText": "log time stamps",
    "vfps::Display::Display": "GUI",
    "vfps::make_display": "log file name",
    "vfps::FokkerPlanckMap::FokkerPlanckMap": "seeds the particle-tracking RNG (mutable members read only by applyTo)",
    "vfps::DynamicRFKickMap::DynamicRFKickMap": "seeds the RF noise RNG (excluded by the statement: deterministic RF only)",
    "vfps::Display::draw": "GUI",
}
NONDET_CALLEES = ("std::random_device::random_device", "std::random_device::operator()", "std::chrono::_V2::system_clock::now",
                  "std::chrono::_V2::steady_clock::now", "time", "std::time", "rand", "std::rand", "srand", "clock", "std::clock",
                  "gettimeofday", "clock_gettime", "getpid", "std::this_thread::get_id")


def in_state(loc, mm):
    v, f, sel = loc
    if v == "rdtn_field":
        return False          # the radiation field is an observer object: never an input of a map
    if f in STATE_FIELDS:
        return True
    if v == "grid_t1" and f == "_projection" and sel in (0, None):
        return True
    return False


OBSERVER_GETTERS = {"getOutSteps", "getSavePhaseSpace", "getOutFile", "getVerbosity", "getParticleTracking", "showPhaseSpace",
                    "getOpenGLVersion", "getForceRun", "getCLDevice", "getSaveSourceMap"}


def observer_taint(mainf):
    """locals of main whose value derives from an observer option (transitively) + the named observer variables"""
    tainted = set(OBSERVER_VARS)
    decls = [d for st in A.walk(mainf["body"]) if st["k"] == "DeclStmt" for d in st["decls"] if d.get("k") == "VarDecl" and "init" in d]
    changed = True
    while changed:
        changed = False
        for d in decls:
            if d["name"] in tainted:
                continue
            if mentions_observer(d["init"], tainted):
                tainted.add(d["name"]); changed = True
    return tainted


def mentions_observer(node, tainted):
    for y in A.walk(node):
        if y["k"] == "DeclRefExpr" and y.get("local") and y["name"] in tainted:
            return True
        if y.get("k") == "CXXMemberCallExpr" and (y.get("callee") or "").startswith("vfps::ProgramOptions::") and y["callee"].split("::")[-1] in OBSERVER_GETTERS:
            return True
    return False


def run(chk, prog):
    chk.assume("CPU path; no GUI (INOVESA_USE_OPENGL=0 is the analysed build)", "deterministic RF: DynamicRFKickMap's noise is outside the statement")
    mm = M.MainModel(prog)
    mainf = mm.fn
    chk.used(mainf)
    loop = mm.main_loop()
    idx = mm.idx
    OBS = observer_taint(mainf)
    chk.tables["observer_variables"] = sorted(OBS)
    # rdtn_field really is not an input of any map or of the wake
    users = []
    for v, o in mm.objs.items():
        for alt in o.alts:
            if "rdtn_field" in [a for a in alt[2].values() if a]:
                users.append((v, alt[0]))
    chk.check({u[0] for u in users} <= {"hdf_file"}, "R1", mainf.where, "the radiation field is handed only to the results file, never to a map (%s)" % users,
              "rdtn_field-users:%s" % sorted(users))
    outs = [mm.output_block()]
    ob = outs[0]
    ob_ids = {y["id"] for y in A.walk(ob["then"])}
    ev = mm.events()
    n_obs, n_state = 0, 0
    for bid, i, n, e in sorted(ev, key=lambda t: t[2]["id"]):
        if n["id"] not in ob_ids:
            continue
        n_obs += 1
        bad = sorted((l for l in e["may_writes"] if in_state(l, mm)), key=str)
        chk.check(not bad, "R1", A.loc(mainf, n), "output block: %s.%s() writes nothing the simulation reads (state writes: %s)" % (e["var"], e["method"], bad),
                  "observer-writes-state:%s.%s:%s" % (e["var"], e["method"], bad))
    chk.floor("R1-observer-calls", n_obs, 10)
    # the same statement without a hand-written state table: nothing the output block may write is read by a call of the
    # simulation part of the loop (reads that a call overwrites itself first - its own outputs - do not count)
    loop_ids0 = {y["id"] for y in A.walk(loop["body"])}
    from .. import fresh as Fr
    w_obs = {}
    for bid, i, n, e in ev:
        if n["id"] in ob_ids:
            for l in e["may_writes"]:
                w_obs.setdefault(Fr.norm_loc(l), []).append("%s.%s" % (e["var"], e["method"]))
    nsim = 0
    for bid, i, n, e in sorted(ev, key=lambda t: t[2]["id"]):
        if n["id"] not in loop_ids0 or n["id"] in ob_ids:
            continue
        nsim += 1
        own = {Fr.norm_loc(l) for l in e["may_writes"]}
        # reads of locations the call itself (re)writes are its own outputs, except containers it only appends to
        ext_reads = {Fr.norm_loc(l) for l in e["reads"] if not any(Fr.covers(w, Fr.norm_loc(l)) for w in own) or l[1] == "_past_modulation"}
        hit = sorted({w for r in ext_reads for w in w_obs if Fr.covers(w, r) or Fr.covers(r, w)}, key=str)
        chk.check(not hit, "R1", A.loc(mainf, n), "%s.%s() (simulation part of the step) reads nothing the output block writes (%s)"
                  % (e["var"], e["method"], ["%s.%s%s written by %s" % (k[0], k[1], "" if k[2] is None else "[%s]" % k[2], sorted(set(w_obs[k]))) for k in hit]),
                  "sim-reads-observer-write:%s.%s:%s" % (e["var"], e["method"], ["%s.%s" % (k[0], k[1]) for k in hit]))
    chk.floor("R1-simulation-calls", nsim, 10)
    # the same for every other part of main that runs only under an observer condition (set-up messages under `verbose`, creation of the
    # results file, ...), flow-sensitively: forward MAY analysis over main's CFG of "location possibly written by a call that runs only
    # under an observer condition and not definitely rewritten since" (must-writes of unconditional calls kill); no call of the
    # simulation reads such a location
    obs_cond = {}
    for bid, i, n, e in ev:
        if n["id"] in ob_ids:
            continue
        conds_ = [c for c in A.enclosing(idx, n, {"IfStmt"}) if mentions_observer(c["cond"], OBS)]
        if conds_:
            obs_cond[n["id"]] = conds_[0]
    by_node = {n["id"]: e for (_, _, n, e) in ev}
    observer_objs = {"hdf_file", "display", "opts"}

    def taint_tr(n, facts):
        e0 = by_node.get(n.get("id"))
        if e0 is None:
            return facts
        out = set(facts)
        for e in (e0.get("sequence") or [e0]):
            if n["id"] in obs_cond or n["id"] in ob_ids:
                if n["id"] in obs_cond:
                    for l in e["may_writes"]:
                        l = Fr.norm_loc(l)
                        if l[0] not in observer_objs:
                            out.add((l, "%s.%s@%d under `%s`" % (e["var"], e["method"], n["line"], A.show(obs_cond[n["id"]]["cond"])[:40])))
            else:
                must = {Fr.norm_loc(w) for w in e["writes"]}
                out = {(l, t) for (l, t) in out if not any(w == l or (w[0] == l[0] and w[1] == l[1] and w[2] is None) for w in must)}
        return frozenset(out)
    tres = mm.cfg.forward(taint_tr, set(), must=False, init=frozenset())
    nreg = 0
    for bid, i, n, e in sorted(ev, key=lambda t: t[2]["id"]):
        if n["id"] in obs_cond or n["id"] in ob_ids:
            continue
        if any(mentions_observer(c["cond"], OBS) for c in A.enclosing(idx, n, {"IfStmt"})):
            continue
        facts = tres.get((bid, i), frozenset())
        must = {Fr.norm_loc(w) for w in e["writes"]}
        # what the call (re)writes itself is its own output (accumulators, work buffers: their history independence is C18's statement)
        own = {Fr.norm_loc(l) for l in e["may_writes"]}
        ext_reads = {Fr.norm_loc(l) for l in e["reads"] if not any(Fr.covers(w, Fr.norm_loc(l)) for w in own)}
        hit = sorted({(l, t) for (l, t) in facts for r in ext_reads if Fr.covers(l, r) or Fr.covers(r, l)}, key=str)
        nreg += 1
        if hit:
            chk.check(False, "R1", A.loc(mainf, n), "%s.%s() reads %s, which may still hold what %s wrote under an observer condition"
                      % (e["var"], e["method"], sorted({"%s.%s" % (l[0], l[1]) for l, t in hit}), sorted({t for l, t in hit})),
                      "sim-reads-observer-region:%s.%s<-%s:%s" % (e["var"], e["method"], sorted({t.split("@")[0] for l, t in hit}), sorted({"%s.%s" % (l[0], l[1]) for l, t in hit})))
    chk.ok("R1", mainf.where, "%d calls of the simulation outside observer conditions read nothing that one of the %d observer-conditional calls outside the output block "
           "(%s) may have written and that was not rewritten since" % (nreg, len(obs_cond), sorted({"%s.%s" % (by_node[k]["var"], by_node[k]["method"]) for k in obs_cond})[:8]))
    chk.floor("R1-simulation-calls-vs-observer-regions", nreg, 20)
    # statements of the output block that are not calls on objects: plain assignments to locals
    for x, lhs, op, rhs in A.assignments_in(ob["then"]):
        d = A.declref(lhs)
        if d is not None and d.get("local") and d["name"] not in OBSERVER_VARS:
            decl_in_block = any(st["k"] == "DeclStmt" and any(dd.get("decl") == d["decl"] for dd in st["decls"]) for st in A.walk(ob["then"]))
            chk.check(decl_in_block, "R1", A.loc(mainf, x), "output block assigns only observer variables or its own locals (%s)" % d["name"], "observer-assigns:%s" % d["name"])
    for x in A.walk(ob["then"]):
        if x["k"] == "UnaryOperator" and x["op"] in ("++", "--"):
            d = A.declref(x["c"][0])
            if d is not None:
                chk.check(d["name"] in OBSERVER_VARS, "R1", A.loc(mainf, x), "output block increments only observer counters (%s)" % d["name"], "observer-increments:%s" % d["name"])
    # ---- R2 -----------------------------------------------------------------------------------------
    loop_ids = {y["id"] for y in A.walk(loop["body"])}
    for bid, i, n, e in sorted(ev, key=lambda t: t[2]["id"]):
        if n["id"] not in loop_ids or n["id"] in ob_ids:
            continue
        sw = sorted((l for l in e["may_writes"] if in_state(l, mm)), key=str)
        if not sw:
            continue
        n_state += 1
        conds = A.enclosing(idx, n, {"IfStmt", "WhileStmt"})
        cvars = set()
        for c in conds:
            if c["id"] == loop["id"]:
                continue
            for y in A.walk(c["cond"]):
                if y["k"] == "DeclRefExpr" and y.get("local"):
                    cvars.add(y["name"])
        getter_in_cond = any(mentions_observer(c["cond"], set()) for c in conds if c["id"] != loop["id"])
        chk.check(not (cvars & OBS) and not getter_in_cond, "R2", A.loc(mainf, n),
                  "%s.%s() (writes %s) runs under conditions on %s only: no observer input" % (e["var"], e["method"], [l[1] for l in sw], sorted(cvars) or "the loop condition"),
                  "state-write-under-observer-condition:%s.%s:%s" % (e["var"], e["method"], sorted(cvars & OBS)))
        avars = {y["name"] for a_ in n.get("args", []) for y in A.walk(a_) if y["k"] == "DeclRefExpr" and y.get("local")}
        chk.check(not (avars & OBS) and not any(mentions_observer(a_, set()) for a_ in n.get("args", [])), "R2", A.loc(mainf, n),
                  "%s.%s() takes no observer input as argument (%s)" % (e["var"], e["method"], sorted(avars)),
                  "state-write-observer-argument:%s.%s:%s" % (e["var"], e["method"], sorted(avars & OBS)))
    chk.floor("R2-state-writing-calls", n_state, 6)
    # the loop condition itself
    lvars = {y["name"] for y in A.walk(loop["cond"]) if y["k"] == "DeclRefExpr" and y.get("local")}
    chk.check(not (lvars & OBS) and not mentions_observer(loop["cond"], set()), "R2", A.loc(mainf, loop), "the loop condition depends on %s and the abort flag only" % sorted(lvars),
              "loop-condition-observer:%s" % sorted(lvars & OBS))
    # variables that steer the physics are not assigned from observer inputs: laststep, renormalize, steps
    # everything that steers the physics is computed without observer inputs: the arguments of every constructor of a
    # simulation object and the variables of the loop condition / renormalisation test, transitively
    physics = set()
    for v, o in mm.objs.items():
        if v in ("hdf_file", "opts", "display"):
            continue
        for alt in o.alts:
            physics |= {a for a in alt[2].values() if a}
    physics |= lvars | {"renormalize"}
    decl_of = {d["name"]: d for st in A.walk(mainf["body"]) if st["k"] == "DeclStmt" for d in st["decls"] if d.get("k") == "VarDecl"}
    work, seen_ = list(physics), set()
    while work:
        v = work.pop()
        if v in seen_ or v not in decl_of or "init" not in decl_of[v]:
            seen_.add(v)
            continue
        seen_.add(v)
        for y in A.walk(decl_of[v]["init"]):
            if y["k"] == "DeclRefExpr" and y.get("local") and y["name"] not in seen_:
                work.append(y["name"])
    physics = {v for v in seen_ if v in decl_of and v not in mm.objs and v not in ("ofname", "oclh")}
    nph = 0
    for v in sorted(physics):
        d = decl_of[v]
        if "init" in d:
            chk.check(not mentions_observer(d["init"], OBS - {v}) or v in OBS and False, "R2", A.loc(mainf, {"line": d["line"]}),
                      "%s (reaches a simulation object or the loop condition) is initialised without observer inputs" % v, "physics-var-from-observer:%s" % v)
            nph += 1
    for x in A.walk(mainf["body"]):
        tgt = None
        if x["k"] in ("BinaryOperator", "CompoundAssignOperator") and x.get("op", "").endswith("=") and x["op"] not in ("==", "!=", "<=", ">="):
            tgt, rhs = A.declref(x["c"][0]), x["c"][1]
        elif x["k"] == "CXXOperatorCallExpr" and x.get("op") in ("=", "+=", "-=", "*=", "/=") and len(x.get("args", [])) == 2:
            tgt, rhs = A.declref(x["args"][0]), x["args"][1]
        if tgt is not None and tgt["name"] in physics:
            conds = A.enclosing(idx, x, {"IfStmt", "WhileStmt"})
            bad = mentions_observer(rhs, OBS) or any(mentions_observer(c["cond"], OBS) for c in conds if c["id"] != loop["id"])
            chk.check(not bad, "R2", A.loc(mainf, x), "assignment to %s uses no observer input (value or controlling condition)" % tgt["name"],
                      "physics-var-assigned-from-observer:%s" % tgt["name"])
            nph += 1
    chk.floor("R2-physics-variables", nph, 25)
    # ---- R3: trackme and tracking ------------------------------------------------------------------------
    uses = []
    tdecl = [d for st in A.walk(mainf["body"]) if st["k"] == "DeclStmt" for d in st["decls"] if d.get("name") == "trackme"]
    A.require(len(tdecl) == 1, "main: trackme not found")
    for x in A.walk(mainf["body"]):
        if x["k"] in ("CXXMemberCallExpr", "CallExpr", "CXXConstructExpr"):
            for a_ in x.get("args", []):
                pv = plain_var(a_)
                if pv is not None and pv["decl"] == tdecl[0]["decl"]:
                    uses.append(((x.get("callee") or "").split("::")[-1], x))
    allowed = {"applyToAll", "appendTracks", "update"}
    chk.check(all(u in allowed for u, _ in uses) and len(uses) >= 5, "R3", A.loc(mainf, tdecl[0]), "the tracked particles are passed only to applyToAll/appendTracks (%s)" % sorted({u for u, _ in uses}),
              "trackme-users:%s" % sorted({u for u, _ in uses} - allowed))
    for bid, i, n, e in ev:
        if e["method"] == "applyToAll":
            bad = sorted((l for l in e["may_writes"] if in_state(l, mm)), key=str)
            chk.check(not bad, "R3", A.loc(mainf, n), "%s.applyToAll writes only particles / tracking RNG, no simulation state (%s)" % (e["var"], bad), "applyToAll-writes-state:%s:%s" % (e["var"], bad))
    # mutable RNG members of FokkerPlanckMap are read only by applyTo
    rng_readers = set()
    for f in prog.functions.values():
        if f.get("class") == "vfps::FokkerPlanckMap" and f.get("body"):
            for x in A.walk(f["body"]):
                if A.this_field(x) in ("_prng", "_normdist"):
                    rng_readers.add(f["name"])
    chk.check(rng_readers <= {"applyTo"}, "R3", "src/SM/FokkerPlanckMap.cpp", "the tracking RNG is used by applyTo only (%s)" % sorted(rng_readers), "fp-rng-readers:%s" % sorted(rng_readers))
    # ---- R4 nondeterminism sources --------------------------------------------------------------------------
    callers = {}
    for f in prog.functions.values():
        roots = [f["body"]] if f.get("body") else []
        roots += [i["expr"] for i in f.get("inits", []) if isinstance(i.get("expr"), dict)]
        for r in roots:
            for x in A.walk(r):
                cal = x.get("callee") or ""
                if cal in NONDET_CALLEES or cal.endswith("system_clock::now") or cal.startswith("std::random_device::"):
                    callers.setdefault(f["qname"], set()).add(cal)
    for q, cs in sorted(callers.items()):
        chk.check(q in NONDET_ALLOWED, "R4", prog.fns(q)[0].where if prog.fns(q) else q, "%s may call %s: %s" % (q, sorted(cs), NONDET_ALLOWED.get(q, "NOT in the allowed list")),
                  "nondeterminism:%s:%s" % (q, sorted(cs)))
    chk.floor("R4-nondeterminism-callers", len(callers), 3)
    # FFT plans come only from fft::prepareFFT (wisdom first)
    planners = set()
    for f in prog.functions.values():
        if f.get("body"):
            for x in A.walk(f["body"]):
                if (x.get("callee") or "").startswith(("fftw_plan_", "fftwf_plan_")):
                    planners.add(f["qname"])
    chk.check(planners and all(p.startswith("fft::prepareFFT") for p in planners), "R4", "src/FFTWWrapper.cpp", "FFTW plans are created only by fft::prepareFFT (%s)" % sorted(planners),
              "fft-planners:%s" % sorted(planners))
    for f in prog.fns("fft::prepareFFT"):
        chk.used(f)
        body_calls = [x.get("callee") for x in A.walk(f["body"]) if x["k"] == "CallExpr"]
        imp = [i for i, c in enumerate(body_calls) if c and "import_wisdom" in c]
        pl = [i for i, c in enumerate(body_calls) if c and "_plan_dft" in c]
        if not pl:
            continue         # thin overloads that forward to the planning overloads
        chk.check(imp and pl and imp[0] < pl[0], "R4", f.where, "prepareFFT consults the wisdom file before planning", "prepareFFT:wisdom-first:%s" % f["sig"])
    for key_ in list(mm.eff.memo):
        chk.functions.add(key_[0])
    # ---- R5: what an observer computes is a function of the current grid, not of what it computed last time ----------------------------------------
    # "records present in two runs with different cadence are identical": a member function of the grid that the output block calls and
    # that writes members (moments, rms, energy projection) must not read one of the members it writes before it has written it in this
    # call - directly or through a member function it calls first (variance() calls average() before it reads the mean).
    ps_methods = {f["qname"]: f for f in prog.functions.values() if f.get("class") == "vfps::PhaseSpace" and f.get("body") and f.get("kind") not in ("ctor", "dtor")}

    def direct_writes(f):
        out = set()
        for x, lhs, op, rhs in A.assignments_in(f["body"]):
            cur = A.strip(lhs)
            while isinstance(cur, dict) and A.this_field(cur) is None and (cur.get("c") or cur.get("args")):
                cur = A.strip((cur.get("args") or cur.get("c"))[0])
            fld = A.this_field(cur) if isinstance(cur, dict) else None
            if fld:
                out.add(fld)
        return out
    dw = {q: direct_writes(f) for q, f in ps_methods.items()}

    def all_writes(q, seen=()):
        if q in seen or q not in ps_methods:
            return set()
        w = set(dw[q])
        for y in A.walk(ps_methods[q]["body"]):
            if y.get("k") == "CXXMemberCallExpr" and y.get("callee") in ps_methods and (A.call_object(y) is None or A.is_this(A.strip(A.call_object(y)))):
                w |= all_writes(y["callee"], seen + (q,))
        return w
    called_in_block = {y.get("callee") for y in A.walk(ob["then"]) if y.get("k") == "CXXMemberCallExpr" and y.get("callee") in ps_methods}
    n5 = 0
    for q in sorted(called_in_block):
        f = ps_methods[q]
        W = all_writes(q)
        if not W:
            continue
        chk.used(f)
        events5 = []          # (order, kind, field)
        lhs_ids = set()
        for x, lhs, op, rhs in A.assignments_in(f["body"]):
            cur = A.strip(lhs)
            while isinstance(cur, dict) and A.this_field(cur) is None and (cur.get("c") or cur.get("args")):
                cur = A.strip((cur.get("args") or cur.get("c"))[0])
            fld = A.this_field(cur) if isinstance(cur, dict) else None
            if fld in W:
                events5.append((x["id"], "store" if op == "=" else "update", fld, x))
                if op == "=":
                    lhs_ids |= {y["id"] for y in A.walk(lhs) if A.this_field(y) == fld}
        for y in A.walk(f["body"]):
            if y.get("k") == "CXXMemberCallExpr" and y.get("callee") in ps_methods and (A.call_object(y) is None or A.is_this(A.strip(A.call_object(y)))):
                for fld in all_writes(y["callee"]):
                    events5.append((y["id"], "store", fld, y))
            if y.get("k") == "MemberExpr" and A.this_field(y) in W and y["id"] not in lhs_ids:
                events5.append((y["id"], "read", A.this_field(y), y))
        events5.sort(key=lambda t: t[0])
        for o_, kind, fld, node in events5:
            if kind not in ("read", "update"):
                continue
            if kind == "read" and any(k2 == "update" and n2["id"] <= o_ <= max(z["id"] for z in A.walk(n2)) and f2 == fld for o2, k2, f2, n2 in events5):
                continue            # the read inside a compound assignment is that update
            before = [t for t in events5 if t[0] < o_ and t[1] == "store" and t[2] == fld]
            n5 += 1
            chk.check(bool(before), "R5", A.loc(f, node), "%s (called when a record is written) %s %s only after it has stored it in the same call%s"
                      % (f["name"], "reads" if kind == "read" else "updates", fld, "" if before else " -- it sees the value left by the previous call: records depend on the output cadence"),
                      "observer-history:%s:%s" % (f["name"], fld))
    chk.floor("R5-observer-self-reads", n5, 2)
    # ---- R6: equal inputs give equal outputs: nothing the physics indexes with starts from an indeterminate value ---------------------------------------
    # (members used as array indices are initialised by every constructor: decided under C17 R11; re-evaluated here)
    from .common import reeval
    reeval(chk, prog, "C17", lambda i: i["rule"] == "R11", "R6", "R6-index-members-initialised", 3)
    chk.notes.append("C12: E4 write sets of every call in the output block vs. the simulation state, observer-free control/data of state-writing calls, "
                     "tracking as a sink, who-may-call for nondeterminism sources. NOT decided: bit-identity of two concrete executions.")
