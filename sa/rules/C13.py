"""C13 — the configuration file saved next to the results reproduces the run.

Exhaustive over the option table extracted from the ProgramOptions constructor:
 R1  type coverage: every option that can be in the variables map has a value type the
     writer ProgramOptions::save(std::string) emits (typeid chain / string fallback /
     vector branch); otherwise the option is silently dropped;
 R2  skip list: every name the writer skips belongs to the compatibility groups;
 R3  re-readability: every name the writer can emit is accepted by the config-file
     description with the same field and type; command-line-only options are either
     written as a comment or make parse() return before anything is saved;
 R4  substituted values: where the writer replaces an option's value by a constant under
     condition W and main uses the option under condition U, W implies not U;
 R5  precision: floating-point values are written with max_digits10 digits;
 R7  the writer saves the variables map while the run uses the bound fields: every change of the
     map in parse() is followed by notify() before parse() returns true;
 R6  the save call precedes the creation of the results file and the simulation loop on
     every path that reaches them.
"""
import re
from .. import ast as A
from .. import flow as Fl
from .. import options as O
from ..compdb import AnalysisBroken

LEVEL = "other"


def string_compares(cond):
    """names compared against it->first in a condition (|| / && chains): list of (name, node)"""
    out = []
    for x in A.walk(cond):
        if x["k"] == "CXXOperatorCallExpr" and x.get("op") in ("==",) and len(x.get("args", [])) == 2:
            lit = [y for y in A.walk(x["args"][1]) if y["k"] == "StringLiteral"] or \
                  [y for y in A.walk(x["args"][0]) if y["k"] == "StringLiteral"]
            if lit and "first" in A.show(x):
                out.append((lit[0]["value"], x))
        # the comparison chain moved into a predicate function: notSaved(it->first) with `return name == "a" || name == "b" ...;`
        if x["k"] == "CallExpr" and x.get("callee_in_root") and PROG is not None and any("first" in A.show(a_) for a_ in x.get("args", [])):
            f = PROG.functions.get(x.get("callee_sig"))
            body = f.get("body") if f else None
            if body and len(body.get("c", [])) == 1 and body["c"][0]["k"] == "ReturnStmt" and body["c"][0].get("c"):
                pdecls = {p_["decl"] for p_, a_ in zip(f["params"], x["args"]) if "first" in A.show(a_)}
                for y in A.walk(body["c"][0]["c"][0]):
                    if y["k"] == "CXXOperatorCallExpr" and y.get("op") == "==" and len(y.get("args", [])) == 2:
                        lit = [z for z in A.walk(y) if z["k"] == "StringLiteral"]
                        refs = [z for z in A.walk(y) if z["k"] == "DeclRefExpr" and z.get("decl") in pdecls]
                        if lit and refs:
                            out.append((lit[0]["value"], x))
                # only a pure disjunction of such comparisons is a name list
                ret = A.strip(body["c"][0]["c"][0])

                def pure(n_):
                    n_ = A.strip(n_)
                    if n_.get("k") == "BinaryOperator" and n_.get("op") == "||":
                        return pure(n_["c"][0]) and pure(n_["c"][1])
                    return n_.get("k") == "CXXOperatorCallExpr" and n_.get("op") == "=="
                if not pure(ret):
                    out = [o_ for o_ in out if o_[1] is not x]
    return out


PROG = None


def top_ops(cond):
    n = A.strip(cond)
    return n.get("op") if n.get("k") == "BinaryOperator" else None


def fpzero_test(n):
    """a test whether a number is zero, in any of its spellings: `std::fpclassify(X) ==/!= FP_ZERO`, `X ==/!= 0`, `!X`, `X` (as a condition),
    `std::abs(X) > 0`, `0 < std::abs(X)` -> (X node, True if the test holds when X is zero)"""
    n = A.strip(n)
    neg = False
    while n.get("k") == "UnaryOperator" and n.get("op") == "!":
        n, neg = A.strip(n["c"][0]), not neg

    def is_zero_lit(c):
        c = A.strip(c)
        return c.get("k") in ("IntegerLiteral", "FloatingLiteral") and c.get("value") == 0

    def numeric(c):
        t = (A.strip(c).get("ctype") or "").replace("const ", "")
        return t in ("float", "double", "long double")
    if n.get("k") == "BinaryOperator" and n["op"] in ("==", "!="):
        for a, b in ((n["c"][0], n["c"][1]), (n["c"][1], n["c"][0])):
            ca = A.strip(a)
            if ca.get("k") == "CallExpr" and (ca.get("callee") or "").endswith("fpclassify"):
                cb = A.strip(b)
                if cb.get("k") == "IntegerLiteral" and cb.get("value") == 2 or cb.get("const") == 2 or \
                        "FP_ZERO" in (cb.get("text") or "") or A.show(cb) in ("2", "FP_ZERO"):
                    return ca["args"][0], (n["op"] == "==") != neg
            if is_zero_lit(b) and numeric(a) and not is_zero_lit(a):
                return ca, (n["op"] == "==") != neg
    if n.get("k") == "BinaryOperator" and n["op"] in (">", "<"):
        big, small = (n["c"][0], n["c"][1]) if n["op"] == ">" else (n["c"][1], n["c"][0])
        cb = A.strip(big)
        if is_zero_lit(small) and cb.get("k") == "CallExpr" and (cb.get("callee") or "").split("::")[-1] in ("abs", "fabs") and cb.get("args"):
            return cb["args"][0], neg
    if numeric(n) and n.get("k") in ("DeclRefExpr", "MemberExpr"):
        return n, neg           # `if (X)` is true when X is non-zero
    return None


def run(chk, prog):
    global PROG
    PROG = prog
    chk.assume("boost::program_options semantics as documented (config parser rejects unknown names; repeated keys compose vectors)",
               "a value printed with max_digits10 significant digits is read back exactly (IEEE-754 round trip)")
    t = O.Table(prog)
    chk.used(t.ctor)
    sv = [f for f in prog.fns("vfps::ProgramOptions::save") if "basic_string" in f["sig"]]
    A.require(len(sv) == 1, "ProgramOptions::save(std::string) not found")
    sv = sv[0]
    chk.used(sv)
    site = sv.where
    cfg = {o.name: o for o in t.members("_cfgfileopts")}
    cli = {o.name: o for o in t.members("_commandlineopts")}
    compat = {o.name for o in t.members("_compatopts")}
    chk.tables["options"] = {o.name: "%s -> %s (%s)" % (o.vtype, o.field, o.group) for o in t.options}

    loops = [x for x in A.walk(sv["body"]) if x["k"] == "ForStmt"]
    A.require(len(loops) == 1, "save: expected one loop over the variables map")
    loop = loops[0]
    A.require("_vm" in A.show(loop.get("init")) and "begin" in A.show(loop.get("init")), "save: loop is not over _vm")

    # ---- skip list and substitutions ------------------------------------------------------------
    skip, subst = [], []
    for x in A.walk(loop["body"]):
        if x["k"] != "IfStmt":
            continue
        then = x["then"]
        stmts = then.get("c", []) if then["k"] == "CompoundStmt" else [then]
        if stmts and stmts[-1]["k"] == "ContinueStmt":
            names = string_compares(x["cond"])
            if len(stmts) == 1:
                A.require(names, "save: a `continue` branch whose condition is not a list of option names")
                ops = {y["op"] for y in A.walk(x["cond"]) if y["k"] == "BinaryOperator"}
                A.require(ops <= {"||"}, "save: skip condition is not a pure || list")
                skip += [(n, x) for n, _ in names]
            else:
                lits = [y["value"] for s_ in stmts[:-1] for y in A.walk(s_) if y["k"] == "StringLiteral"]
                m = [re.match(r"^(\w+)=(.*)$", l) for l in lits]
                m = [q for q in m if q]
                A.require(len(m) == 1 and len(names) == 1 and m[0].group(1) == names[0][0],
                          "save: unrecognised substitution branch at line %d" % x["line"])
                subst.append((names[0][0], m[0].group(2), x))
    A.require(len(skip) >= 6, "save: skip list not found")
    for n, x in skip:
        chk.check(n in compat, "R2", A.loc(sv, x), "skipped option '%s' is a compatibility option (not one the run depends on)" % n,
                  "save:skip:%s" % n)

    # ---- R1 type coverage ---------------------------------------------------------------------
    handled = set()
    for x in A.walk(loop["body"]):
        if x["k"] == "CXXTypeidExpr" and x.get("type_operand"):
            handled.add(x["type_operand"])
    as_types = {re.sub(r"^const ", "", x.get("type", "")) for x in A.walk(loop["body"]) if (x.get("callee") or "").endswith("variable_value::as")}
    # a typeid branch must extract the same type it tested
    emit = set()
    for tname in handled:
        if tname in as_types:
            emit.add(tname)
    if "std::basic_string<char>" in as_types:
        emit.add("std::basic_string<char>")
    chk.tables["writer_types"] = sorted(emit)
    skipnames = {n for n, _ in skip}
    n1 = 0
    for name, o in sorted({**cli, **cfg}.items()):
        if o.vtype is None or name in skipnames:
            continue
        n1 += 1
        chk.check(o.vtype in emit, "R1", "src/IO/ProgramOptions.cpp:%d" % o.line,
                  "option '%s' (%s) has a value type the writer emits" % (name, o.vtype), "save:type:%s:%s" % (name, o.vtype))
    chk.floor("R1-options", n1, 50)
    # vector branch writes one line per element
    for x in A.walk(loop["body"]):
        if x["k"] != "IfStmt":
            continue
        tids = [y for y in A.walk(x["cond"]) if y["k"] == "CXXTypeidExpr" and (y.get("type_operand") or "").startswith("std::vector")]
        if not tids:
            continue
        rf = [y for y in A.walk(x["then"]) if y["k"] == "CXXForRangeStmt"]
        ok = False
        if len(rf) == 1:
            rng = [y for y in A.walk(rf[0]["range"]) if (y.get("callee") or "").endswith("variable_value::as")]
            lv = rf[0]["loopvar"]
            ins = [y for y in A.walk(rf[0]["body"]) if y["k"] == "CXXOperatorCallExpr" and y.get("op") == "<<"]
            txt = " ".join(A.show(y) for y in ins)
            uses_lv = any(z["k"] == "DeclRefExpr" and z["decl"] == lv["decl"] for y in ins for z in A.walk(y))
            ok = bool(rng) and uses_lv and "first" in txt and ("endl" in txt or "\\n" in txt)
        chk.check(ok, "R1", A.loc(sv, x), "vector option is written as one `name=value` line per element (config-file syntax for repeated values)",
                  "save:vector-branch")

    # ---- R3 re-readability ------------------------------------------------------------------------
    pf = prog.fn("vfps::ProgramOptions::parse")
    chk.used(pf)
    # options that stop parse() before anything is saved: decided on the CFG of parse() under the hypothesis "this option was given"
    # (conditions are evaluated three-valued through `!`, `&&`, named bools and value lambdas; not read off the spelling of an if)
    from .common import CondEval
    ce = CondEval(pf)
    gpf = Fl.CFG(pf)
    early = set()
    counted = set()
    for x in A.walk(pf["body"]):
        if x.get("k") == "CXXMemberCallExpr" and (x.get("callee") or "").endswith("::count"):
            for y in A.walk(x):
                if y.get("k") == "StringLiteral":
                    counted.add(y["value"])
    for lm in ce.lambdas.values():
        pass
    for x in A.walk(pf["body"]):
        lam = ce.lambda_of(x)
        if lam is not None:
            for a_ in lam[1]:
                sarg_ = ce.string_arg(a_, {})
                if sarg_:
                    counted.add(sarg_)
    for name in sorted(counted):
        def atom(c, env, name=name):
            if c.get("k") == "CXXMemberCallExpr" and (c.get("callee") or "").endswith("::count") and c.get("args"):
                sarg_ = ce.string_arg(c["args"][0], env)
                if sarg_ == name:
                    return True
            return None
        g_ = gpf.pruned(lambda c, at=atom: ce.tv(c, at))
        rets = g_.events(lambda n: n.get("k") == "ReturnStmt")
        vals = [ce.return_value(r[2]) for r in rets]
        if rets and all(v is False for v in vals):
            early.add(name)
    commented = set()
    for x in A.walk(loop["body"]):
        if x["k"] == "IfStmt":
            names = string_compares(x["cond"])
            chars = [y for y in A.walk(x["then"]) if y["k"] == "CharacterLiteral" and y.get("value") == ord("#")]
            if names and chars:
                commented |= {n for n, _ in names}
    for name, o in sorted(cli.items()):
        if name in cfg:
            f = cfg[name]
            chk.check(f.field == o.field and f.vtype == o.vtype, "R3", "src/IO/ProgramOptions.cpp:%d" % o.line,
                      "option '%s': command-line and config-file declarations bind the same field and type (%s/%s vs %s/%s)"
                      % (name, o.field, o.vtype, f.field, f.vtype), "options:%s:cli-file-mismatch" % name)
        else:
            ok = name in commented or name in early
            chk.check(ok, "R3", "src/IO/ProgramOptions.cpp:%d" % o.line,
                      "command-line-only option '%s' is written as a comment or stops parse() before anything is saved" % name,
                      "save:cli-only:%s" % name)

    # ---- R4 substituted values ----------------------------------------------------------------------
    mainf = prog.fn("main")
    chk.used(mainf)
    getters = {}
    rec = prog.record("vfps::ProgramOptions")
    for f in prog.functions.values():
        if f.get("class") == "vfps::ProgramOptions" and f["name"].startswith("get") and f.get("body"):
            rets = [y for y in A.walk(f["body"]) if y["k"] == "ReturnStmt"]
            if len(rets) == 1 and rets[0].get("c"):
                fld = A.this_field(rets[0]["c"][0])
                if fld:
                    getters[f["name"]] = fld
    fld2get = {}
    for g, fld in getters.items():
        fld2get.setdefault(fld, []).append(g)
    for name, const, x in subst:
        A.require(name in cfg, "save: substituted option %s unknown" % name)
        # W: the non-name conjuncts
        conj = []
        def split(n):
            n = A.strip(n)
            if n.get("k") == "BinaryOperator" and n["op"] == "&&":
                split(n["c"][0]); split(n["c"][1])
            else:
                conj.append(n)
        split(x["cond"])
        others = [c for c in conj if not string_compares(c)]
        tests = [fpzero_test(c) for c in others]
        if len(tests) != 1 or tests[0] is None or not A.this_field(tests[0][0]):
            # the substituted value is written under a condition that is not a test of one option value: it cannot be shown to
            # coincide with "the run did not use this option" (which main decides on an option value)
            chk.fail("R4", A.loc(sv, x), "writer substitutes '%s=%s' under the condition `%s`, which is not a zero test of one option's value: "
                     "it does not imply that the run ignored %s" % (name, const, " && ".join(A.show(c) for c in others)[:200], name),
                     "save:subst:%s:condition-not-a-value-test" % name)
            continue
        wnode, w_iszero = tests[0]
        wfield = A.this_field(wnode)
        # main: variable initialised from the getter of the option's field, and the branch on the getter of wfield
        var = {}
        for st in A.walk(mainf["body"]):
            if st["k"] == "DeclStmt":
                for d in st["decls"]:
                    if d.get("k") == "VarDecl" and "init" in d:
                        calls = [y for y in A.walk(d["init"]) if y.get("k") == "CXXMemberCallExpr" and
                                 (y.get("callee") or "").startswith("vfps::ProgramOptions::get")]
                        if len(calls) == 1 and A.strip(d["init"]).get("id") == calls[0]["id"]:
                            var.setdefault(getters.get(calls[0]["callee"].split("::")[-1]), []).append(d)
        ovars = var.get(cfg[name].field, [])
        wvars = var.get(wfield, [])
        if len(wvars) == 0 or len(ovars) == 0:
            # main may take the value through a getter that is not a plain `return field;`: then main decides on a transformed value while
            # the writer tests the raw member, and the two can disagree (a negative value clamped to 0 is "not set" for main, "set" here)
            for missing in ([wfield] if not wvars else []) + ([cfg[name].field] if not ovars else []):
                shaped = [g_ for g_ in prog.functions.values() if g_.get("class") == "vfps::ProgramOptions" and g_.get("body") and g_["name"].startswith("get")
                          and g_["name"] not in getters and any(A.this_field(y) == missing for y in A.walk(g_["body"]))]
                used = [g_ for g_ in shaped if any(y.get("callee") == g_["qname"] for y in A.walk(mainf["body"]))]
                if used:
                    chk.fail("R4", used[0].where, "main reads %s through %s(), which does not return the member unchanged, while the writer decides '%s=%s' on the raw member: "
                             "the saved file can say the option was ignored when the run used it (or the reverse)" % (missing, used[0]["name"], name, const),
                             "save:subst:%s:getter-transforms:%s" % (name, used[0]["name"]))
            if any(i_["rule"] == "R4" and not i_["ok"] and "getter-transforms" in (i_.get("key") or "") for i_ in chk.instances):
                continue
        A.require(len(ovars) >= 1 and len(wvars) >= 1, "main: variables holding %s / %s not found" % (cfg[name].field, wfield))
        odecls, wdecls = {d_["decl"] for d_ in ovars}, {d_["decl"] for d_ in wvars}
        uses = []
        for st in A.walk(mainf["body"]):
            if st["k"] == "IfStmt":
                ft = fpzero_test(st["cond"])
                if ft is None:
                    continue
                d = A.declref(ft[0])
                if d is None or d["decl"] not in wdecls:
                    continue
                for branch, pol in ((st["then"], True), (st.get("else"), False)):
                    if branch is None:
                        continue
                    reads = [y for y in A.walk(branch) if y["k"] == "DeclRefExpr" and y["decl"] in odecls]
                    writes = [l for _, l, op, r in A.assignments_in(branch) if (A.declref(l) or {}).get("decl") in odecls and op == "="]
                    wr_ids = {A.declref(l)["id"] for l in writes}
                    pure_reads = [y for y in reads if y["id"] not in wr_ids]
                    if pure_reads:
                        # the option's value is used when (test is-zero == ft[1]) has polarity pol
                        uses.append((ft[1] if pol else not ft[1], st))
        A.require(len(uses) == 1, "main: branch that uses %s under a test of %s not found" % (name, wfield))
        u_iszero, ust = uses[0]
        # W: wfield is zero == w_iszero ; U: wfield is zero == u_iszero.  W => not U  iff  w_iszero != u_iszero
        chk.check(w_iszero != u_iszero, "R4", A.loc(sv, x),
                  "writer substitutes '%s=%s' when %s %s 0; main uses %s exactly when %s %s 0 (main.cpp:%d): the substituted value must never be the one used"
                  % (name, const, wfield, "==" if w_iszero else "!=", name, wfield, "==" if u_iszero else "!=", ust["line"]),
                  "save:subst:%s:W(%s%s0):U(%s%s0)" % (name, wfield, "==" if w_iszero else "!=", wfield, "==" if u_iszero else "!="))

    # ---- R5 precision ------------------------------------------------------------------------------------
    g = Fl.CFG(sv)

    def is_prec(n):
        if n.get("k") == "CXXMemberCallExpr" and (n.get("callee") or "").endswith("::precision") and n.get("args"):
            return True
        if n.get("k") == "CallExpr" and n.get("callee") == "std::setprecision":
            return True
        return False
    precs = g.events(is_prec)
    digits = None
    for b, i, n in precs:
        a = A.strip(n["args"][0])
        v = a.get("const", a.get("value"))
        if isinstance(v, int):
            digits = v if digits is None else min(digits, v)

    def is_float_insert(n):
        if n.get("k") == "CXXOperatorCallExpr" and n.get("op") == "<<" and len(n.get("args", [])) == 2:
            t_ = re.sub(r"^const ", "", (A.strip(n["args"][1], casts=False).get("ctype") or ""))
            return t_ in ("float", "double", "long double")
        return False
    fins = g.events(is_float_insert)
    A.require(len(fins) >= 2, "save: floating-point insertions not found")
    dom = g.every_path_to(is_float_insert, is_prec)
    for (b, i, n), ok in dom:
        t_ = re.sub(r"^const ", "", (A.strip(n["args"][1], casts=False).get("ctype") or ""))
        need = {"float": 9, "double": 17, "long double": 21}[t_]
        chk.check(ok and digits is not None and digits >= need, "R5", A.loc(sv, n),
                  "%s value is written after the stream precision was set to >= %d digits (precision: %s)" % (t_, need, digits),
                  "save:precision:%s:%s" % (t_, digits))

    # ---- R6 ordering in main ------------------------------------------------------------------------------
    gm = Fl.CFG(mainf)
    is_save = lambda n: n.get("k") == "CXXMemberCallExpr" and n.get("callee") == "vfps::ProgramOptions::save" and \
        "basic_string" in (n.get("callee_sig") or "")
    is_h5 = lambda n: n.get("k") == "CXXConstructExpr" and n.get("callee_class") == "vfps::HDF5File"
    res = gm.every_path_to(is_h5, is_save)
    A.require(res, "main: construction of HDF5File not found")
    for (b, i, n), ok in res:
        chk.check(ok, "R6", A.loc(mainf, n), "the configuration is saved on every path before the results file is created", "main:save-before-h5")
    svs = gm.events(is_save)
    for b, i, n in svs:
        a = A.show(n["args"][0]).replace(" ", "")
        chk.check("ofname" in a and ".cfg" in a, "R6", A.loc(mainf, n), "saved next to the results: %s" % a, "main:cfg-name:%s" % a)
    # ---- R7: what is saved (the map) is what the run used (the bound fields) --------------------------------
    pfn, muts = O.vm_mutations(prog)
    chk.used(pfn)
    A.require(len(muts) >= 2, "parse: changes of the variables map not found")
    for n, ok in muts:
        chk.check(ok, "R7", A.loc(pfn, n), "map change `%s` is notified before parse() returns true: the saved value is the value the run used"
                  % A.show(n)[:70].replace("\n", " "), "parse:unnotified:%s" % A.show(n)[:50].replace(" ", ""))
    # ---- R8: "yields exactly the same value for every option": the value parsed is the value given and reaches its user unchanged
    # (character-typed numeric options and value-changing conversions: decided under C20 R7/R8; re-evaluated here)
    from .common import reeval
    reeval(chk, prog, "C20", lambda i: i["rule"] in ("R7", "R8"), "R8", "R8-values-unchanged", 100)
    # ---- R9: an alias without a value of its own never competes with the primary read back from the saved file -----------------------------------
    # the saved file names primaries only; an alias that carries a default is "present" on every parse, is notified after the primary (key
    # order) and overwrites the shared field with its default when the file is read back (alias table: decided under C20 R3; the
    # no-default clause is re-evaluated here)
    reeval(chk, prog, "C20", lambda i: i["rule"] == "R3" and "has no default" in i["what"], "R9", "R9-alias-defaults", 3)
    # ---- R10: a string value is written exactly as it was parsed -------------------------------------------------------------------------------------
    # boost's config-file parser takes everything after '=' literally (no quoting, no escapes): whatever reaches the stream for a string option
    # must be the value taken out of the variables map - a local holding it is assigned from as<std::string>() and from nothing else
    svidx = A.index(sv)
    str_locals = {}
    for st_ in A.walk(sv["body"]):
        if st_.get("k") == "DeclStmt":
            for d_ in st_.get("decls", []):
                if d_.get("k") == "VarDecl" and "basic_string" in (d_.get("ctype") or ""):
                    str_locals[d_["decl"]] = d_
    n10 = 0
    for dcl, d_ in str_locals.items():
        inserted = [y for y in A.walk(sv["body"]) if y.get("k") == "CXXOperatorCallExpr" and y.get("op") == "<<" and len(y.get("args", [])) == 2 and
                    (A.declref(y["args"][1]) or {}).get("decl") == dcl]
        if not inserted:
            continue
        writes = []
        for y in A.walk(sv["body"]):
            if y.get("k") == "CXXOperatorCallExpr" and y.get("op") in ("=", "+=") and len(y.get("args", [])) == 2 and (A.declref(y["args"][0]) or {}).get("decl") == dcl:
                writes.append((y, y["args"][1]))
            if y.get("k") == "CXXMemberCallExpr" and (y.get("callee") or "").split("::")[-1] in ("append", "insert", "replace", "push_back", "erase", "assign") and \
                    A.call_object(y) is not None and (A.declref(A.call_object(y)) or {}).get("decl") == dcl:
                writes.append((y, None))
        for y, rhs in writes:
            src_ok = rhs is not None and y.get("op") == "=" and any((z.get("callee") or "").endswith("::as") or "any_cast" in (z.get("callee") or "") for z in A.walk(rhs)) and \
                not any(z.get("k") == "CXXOperatorCallExpr" and z.get("op") == "+" for z in A.walk(rhs))
            n10 += 1
            chk.check(src_ok, "R10", A.loc(sv, y), "the string %s written to the file is taken from the variables map unchanged (%s)" % (d_["name"], A.show(y)[:70]),
                      "save:string-value-modified:%s" % d_["name"])
    chk.floor("R10-string-values", n10, 1)
    chk.notes.append("C13: option table (%d declarations) x writer type chain x skip list x re-readability, substituted-value "
                     "implication, precision, ordering. Exhaustive over the option table. Not decided: boost's parser." % len(t.options))
