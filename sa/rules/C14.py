"""C14 — Ctrl+C at any moment leaves a complete, consistent results file.

"For every point at which the signal can arrive" is a who-writes / who-reads statement:
 R1  the only handler installed is Display::SIGINT_handler for SIGINT; it calls nothing and
     its only effect is `Display::abort = true` on a volatile flag;
 R2  every writer of Display::abort stores `true`; its readers are the loop condition and the
     final Aborted/Finished message: a signal at any instruction boundary changes nothing but
     the next evaluation of the loop condition, so every record written before is the record
     of the uninterrupted run;
 R3  the loop condition is evaluated once per iteration and the step in progress completes:
     no break/continue/goto/return/throw leaves the loop body; the step counter is incremented
     exactly once, as a top-level statement of the body;
 R4  from the loop exit every path reaches the final-record block (guarded only by the results
     file being open), the status line, the Aborted/Finished test and `return EXIT_SUCCESS`; no
     return/exit in between;
 R5  the final block appends to every time-indexed dataset the loop block appends to;
 R6  between installing the handler and entering the loop the flag is not read.
Assumes glibc signal() = BSD semantics (SA_RESTART): blocking HDF5 writes are not failed by EINTR.
"""
from .. import ast as A
from .. import flow as Fl
from .. import mainmodel as M
from ..compdb import AnalysisBroken


def _rel(path):
    import os
    from ..compdb import REPO
    return os.path.relpath(path, REPO)


LEVEL = "other"


def is_abort_ref(n):
    return n.get("k") == "DeclRefExpr" and n.get("qname") == "vfps::Display::abort"


def run(chk, prog):
    chk.assume("glibc signal() installs the handler with SA_RESTART (BSD semantics)", "a store to a volatile bool is atomic on the target",
               "the HDF5 library is not re-entered by the handler (it is not: the handler calls nothing)")
    mainf = prog.fn("main")
    chk.used(mainf)
    # ---- R1 -------------------------------------------------------------------------------------
    sigs = []
    for f in prog.functions.values():
        if not f.get("body"):
            continue
        for x in A.walk(f["body"]):
            if x.get("k") == "CallExpr" and x.get("callee") in ("signal", "std::signal", "sigaction", "bsd_signal", "sysv_signal"):
                sigs.append((f, x))
    chk.check(len(sigs) == 1 and sigs[0][0]["qname"] == "main", "R1",
              A.loc(sigs[0][0], sigs[0][1]) if sigs else mainf.where, "exactly one signal handler is installed, in main (%d installation sites)" % len(sigs),
              "signal-sites:%s" % [(f["qname"]) for f, x in sigs])
    if sigs:
        f, x = sigs[0]
        signo = A.strip(x["args"][0])
        chk.check(signo.get("value", signo.get("const")) == 2, "R1", A.loc(f, x), "the signal is SIGINT", "signal:number:%s" % signo.get("value", signo.get("const")))
        if x["callee"] in ("signal", "std::signal", "bsd_signal"):
            h = A.declref(x["args"][1])
            chk.check(h is not None and h.get("qname") == "vfps::Display::SIGINT_handler", "R1", A.loc(f, x), "the handler is Display::SIGINT_handler", "signal:handler:%s" % (h or {}).get("qname"))
        elif x["callee"] == "sigaction":
            # struct sigaction act; act.sa_handler = H; act.sa_flags = F; sigaction(SIGINT, &act, ...)
            a1 = A.strip(x["args"][1])
            var = A.declref(a1["c"][0]) if a1.get("k") == "UnaryOperator" and a1.get("op") == "&" else None
            hq, flags = None, None
            if var is not None:
                for y, lhs, op, rhs in A.assignments_in(f["body"]):
                    l = A.strip(lhs)
                    root = l
                    while root.get("k") == "MemberExpr" and root.get("c"):
                        root = A.strip(root["c"][0])
                    if l.get("k") == "MemberExpr" and root.get("k") == "DeclRefExpr" and root.get("decl") == var["decl"] and op == "=":
                        nm = l["member"]["name"]
                        if "handler" in nm or "sigaction" in nm:
                            hq = (A.declref(rhs) or {}).get("qname")
                        if nm == "sa_flags":
                            r = A.strip(rhs)
                            flags = r.get("const", r.get("value"))
            chk.check(hq == "vfps::Display::SIGINT_handler", "R1", A.loc(f, x), "the handler is Display::SIGINT_handler", "signal:handler:%s" % hq)
            SA_RESTART, SA_RESETHAND = 0x10000000, 0x80000000
            ok = isinstance(flags, int) and (flags & SA_RESTART) and not (flags & SA_RESETHAND)
            chk.check(ok, "R1", A.loc(f, x), "sigaction flags keep the handler installed and restart interrupted system calls (SA_RESTART set, SA_RESETHAND clear; flags %s)"
                      % (hex(flags & 0xffffffff) if isinstance(flags, int) else flags), "signal:sigaction-flags:%s" % (hex(flags & 0xffffffff) if isinstance(flags, int) else flags))
        else:
            chk.fail("R1", A.loc(f, x), "handler installed through %s, whose semantics are not modelled" % x["callee"], "signal:installer:%s" % x["callee"])
    hf = prog.fn("vfps::Display::SIGINT_handler")
    chk.used(hf)
    calls = [y for y in A.walk(hf["body"]) if y["k"] in ("CallExpr", "CXXMemberCallExpr", "CXXOperatorCallExpr", "CXXConstructExpr", "CXXNewExpr", "CXXDeleteExpr", "CXXThrowExpr")]
    asg = list(A.assignments_in(hf["body"]))
    ok = not calls and len(asg) == 1 and is_abort_ref(A.strip(asg[0][1])) and A.strip(asg[0][3]).get("value") is True and asg[0][2] == "=" and \
        len(hf["body"].get("c", [])) == 1
    chk.check(ok, "R1", hf.where, "the handler's whole body is `Display::abort = true;` (calls: %d, assignments: %d)" % (len(calls), len(asg)), "handler:body")
    g = prog.globals.get("vfps::Display::abort")
    A.require(g is not None, "Display::abort not found")
    chk.check("volatile" in g.get("type", "") and "bool" in g.get("type", ""), "R1", "%s:%d" % (_rel(g["file"]), g["line"]),
              "the flag is a volatile bool (%s)" % g.get("type"), "flag:type:%s" % g.get("type"))
    iv = A.strip(g["init"]) if "init" in g else None
    if iv is not None and iv.get("k") == "InitListExpr" and len(iv.get("inits", [])) == 1:
        iv = A.strip(iv["inits"][0])          # brace initialisation: abort{false}
    chk.check(iv is not None and iv.get("value") is False, "R1", "%s:%d" % (_rel(g["file"]), g["line"]), "the flag starts as false", "flag:init")
    # ---- R2 -------------------------------------------------------------------------------------
    writers, readers = [], []
    for f in prog.functions.values():
        if not f.get("body"):
            continue
        wr_ids = set()
        for x, lhs, op, rhs in A.assignments_in(f["body"]):
            if is_abort_ref(A.strip(lhs)):
                writers.append((f, x, op, rhs))
                wr_ids.add(A.strip(lhs)["id"])
        for x in A.walk(f["body"]):
            if is_abort_ref(x) and x["id"] not in wr_ids:
                readers.append((f, x))
            if x["k"] == "UnaryOperator" and x["op"] == "&" and is_abort_ref(A.strip(x["c"][0])):
                writers.append((f, x, "&", None))
    for f, x, op, rhs in writers:
        ok = op == "=" and rhs is not None and A.strip(rhs).get("value") is True
        chk.check(ok, "R2", A.loc(f, x), "%s only ever sets the flag to true" % f["qname"], "flag:writer:%s:%s" % (f["qname"], op))
    chk.floor("R2-writers", len(writers), 2)
    loop = M.MainModel(prog).main_loop()
    cond_ids = {y["id"] for y in A.walk(loop["cond"])}
    rd_main = [(f, x) for f, x in readers if f["qname"] == "main"]
    rd_other = [(f, x) for f, x in readers if f["qname"] != "main"]
    chk.check(not rd_other, "R2", mainf.where, "outside main nobody reads the flag (%s)" % [f["qname"] for f, x in rd_other], "flag:readers-outside-main:%s" % sorted({f["qname"] for f, x in rd_other}))
    in_cond = [x for f, x in rd_main if x["id"] in cond_ids]
    after = [x for f, x in rd_main if x["id"] not in cond_ids]
    chk.check(len(in_cond) == 1, "R2", A.loc(mainf, loop), "the loop condition reads the flag once", "flag:loop-condition-reads:%d" % len(in_cond))
    c = A.strip(loop["cond"])
    ok = c.get("k") == "BinaryOperator" and c["op"] == "&&" and any(A.strip(t).get("k") == "UnaryOperator" and A.strip(t)["op"] == "!" and
                                                                    any(is_abort_ref(y) for y in A.walk(t)) for t in c["c"])
    chk.check(ok, "R2", A.loc(mainf, loop), "the loop continues only while the flag is false (`... && !Display::abort`)", "loop:condition-shape")
    idx = A.index(mainf)
    for x in after:
        # the reader selects between the two final messages: `if (abort) A else B` or `print(abort ? A : B)`
        enc = A.enclosing(idx, x, {"IfStmt", "ConditionalOperator"})
        ok = bool(enc) and x["id"] in {y["id"] for y in A.walk(enc[0]["cond"])} and x["line"] > loop["eline"]
        msgs = [y["value"] for y in A.walk(enc[0]) if y["k"] == "StringLiteral"] if enc else []
        chk.check(ok and "Aborted." in msgs and "Finished." in msgs, "R2", A.loc(mainf, x), "the only other reader selects the Aborted./Finished. message after the loop (%s)" % msgs,
                  "flag:other-reader")
    # "report that it was aborted": every place after the loop that can print "Aborted." is selected by the flag itself (not by a
    # quantity that merely correlates with it, such as the step counter: an interrupt during the last step leaves the counter at its end)
    ab_lits = [y for y in A.walk(mainf["body"]) if y.get("k") == "StringLiteral" and "Aborted" in (y.get("value") or "") and y["line"] > loop["eline"]]
    chk.check(bool(ab_lits), "R2", A.loc(mainf, loop), "main reports an aborted run after the loop (%d message sites)" % len(ab_lits), "flag:aborted-message:none")
    for y in ab_lits:
        enc = A.enclosing(idx, y, {"IfStmt", "ConditionalOperator"})
        sel = [e_ for e_ in enc if e_["line"] > loop["eline"]]
        byflag = False
        for e_ in sel[:1]:
            cn = A.strip(e_["cond"])
            neg = False
            while cn.get("k") == "UnaryOperator" and cn.get("op") == "!":
                cn, neg = A.strip(cn["c"][0]), not neg
            in_then = y["id"] in {z["id"] for z in A.walk(e_.get("then") or {})}
            byflag = is_abort_ref(cn) and (in_then != neg)
        chk.check(byflag, "R2", A.loc(mainf, y), "\"Aborted.\" is reported exactly when the abort flag is set (innermost selecting condition: %s)"
                  % (A.show(sel[0]["cond"])[:80] if sel else "none"), "flag:aborted-message:not-selected-by-flag")
    # ---- R3 -------------------------------------------------------------------------------------
    body = loop["body"]
    bad = []
    for x in A.walk(body):
        if x["k"] in ("ReturnStmt", "GotoStmt", "CXXThrowExpr"):
            bad.append(x)
        if x["k"] in ("BreakStmt", "ContinueStmt"):
            enc = A.enclosing(idx, x, {"WhileStmt", "ForStmt", "DoStmt", "CXXForRangeStmt", "SwitchStmt"})
            if x["k"] == "ContinueStmt":
                enc = [e for e in enc if e["k"] != "SwitchStmt"]
            if enc and enc[0]["id"] == loop["id"]:
                bad.append(x)
        if x["k"] == "CallExpr" and x.get("callee") in ("exit", "std::exit", "abort", "std::abort", "quick_exit", "_exit", "std::terminate"):
            bad.append(x)
    chk.check(not bad, "R3", A.loc(mainf, loop), "nothing leaves the loop body early (break/continue/goto/return/throw/exit: %s)" % [(b["k"], b["line"]) for b in bad],
              "loop:early-exit:%s" % [b["k"] for b in bad])
    top = body.get("c", []) if body["k"] == "CompoundStmt" else [body]
    incs = [x for x in top if A.strip(x, casts=False).get("k") == "UnaryOperator" and A.strip(x, casts=False)["op"] == "++" and
            (A.declref(A.strip(x, casts=False)["c"][0]) or {}).get("name") == "simulationstep"]
    allw = [x for x in A.walk(body) if (x["k"] == "UnaryOperator" and x["op"] in ("++", "--") or
                                        x["k"] in ("BinaryOperator", "CompoundAssignOperator") and x.get("op", "").endswith("=") and x["op"] not in ("==", "!=", "<=", ">="))
            and (A.declref(x["c"][0]) or {}).get("name") == "simulationstep"]
    chk.check(len(incs) == 1 and len(allw) == 1, "R3", A.loc(mainf, loop), "the step counter is incremented exactly once per iteration, unconditionally (%d top-level, %d writes)" % (len(incs), len(allw)),
              "loop:step-increment:%d:%d" % (len(incs), len(allw)))
    cond_calls = [y for y in A.walk(loop["cond"]) if y["k"] in ("CallExpr", "CXXMemberCallExpr")]
    chk.check(not cond_calls, "R3", A.loc(mainf, loop), "evaluating the loop condition has no side effects", "loop:condition-calls")
    # ---- R4 -------------------------------------------------------------------------------------
    after_loop = [x for x in A.walk(mainf["body"]) if x["line"] > loop["eline"]]
    rets = [x for x in after_loop if x["k"] == "ReturnStmt"]
    exits = [x for x in after_loop if x["k"] == "CallExpr" and x.get("callee") in ("exit", "std::exit", "abort", "std::abort", "quick_exit", "_exit")]
    ok = len(rets) == 1 and not exits and A.strip(rets[0]["c"][0]).get("value", A.strip(rets[0]["c"][0]).get("const")) == 0 and \
        not A.enclosing(idx, rets[0], {"IfStmt", "WhileStmt", "ForStmt"})
    chk.check(ok, "R4", A.loc(mainf, rets[0]) if rets else mainf.where, "after the loop the only way out is the unconditional `return EXIT_SUCCESS` at the end (%d returns, %d exits)" % (len(rets), len(exits)),
              "after-loop:returns:%d:exits:%d" % (len(rets), len(exits)))
    loop_ids = {y["id"] for y in A.walk(loop)}
    fb, fconj = M.MainModel(prog).final_block()
    # "write one final record": the block runs whenever a results file is open - its condition is that test and nothing else (an extra
    # conjunct such as `outstep > 0` drops the final record for some configuration)
    extra_c = [c_ for c_ in fconj if M.MainModel.null_test(c_) != ("hdf_file", True)]
    chk.check(len(fconj) >= 1 and not extra_c, "R4", A.loc(mainf, fb), "the final record is written whenever the results file is open (condition: %s)"
              % " && ".join(A.show(c_)[:40] for c_ in fconj), "final:condition:%s" % [A.show(c_)[:30] for c_ in extra_c])
    chk.check(not A.enclosing(idx, fb, {"IfStmt", "WhileStmt", "ForStmt", "SwitchStmt", "CXXTryStmt"}), "R4", A.loc(mainf, fb),
              "the final-record block is reached on every path from the loop exit whenever the results file is open", "final:guard")
    throws = [x for x in after_loop if x["k"] == "CXXThrowExpr"]
    chk.check(not throws, "R4", A.loc(mainf, fb), "main throws nothing after the loop", "after-loop:throws")
    st = [x for x in after_loop if x["k"] == "CallExpr" and x.get("callee") == "vfps::status_string"]
    chk.check(len(st) == 1 and st[0]["line"] > fb["eline"], "R4", A.loc(mainf, st[0]) if st else mainf.where, "the last status line is printed after the final record", "after-loop:status")
    # ---- R5 -------------------------------------------------------------------------------------
    outs = [M.MainModel(prog).output_block()]

    def appends(node):
        out = []
        for y in A.walk(node):
            if y.get("k") == "CXXMemberCallExpr" and (y.get("callee") or "").startswith("vfps::HDF5File::append"):
                t = (y["args"][0].get("ctype") or "") if y.get("args") else ""
                cls = "PhaseSpace" if "PhaseSpace" in t else "ElectricField" if "ElectricField" in t else "KickMap" if "KickMap" in t else ""
                out.append((y["callee"].split("::")[-1], cls))
        return out
    la, fa = appends(outs[0]["then"]), appends(fb["then"])
    missing = [a for a in la if a not in fa]
    chk.check(not missing, "R5", A.loc(mainf, fb), "the final block appends to everything the loop block appends to (loop %s; final %s)" % (la, fa), "final:missing-appends:%s" % missing)
    fargs = [A.show(y["args"][2]) for y in A.walk(fb["then"]) if y.get("k") == "CXXMemberCallExpr" and (y.get("callee") or "") == "vfps::HDF5File::append" and len(y.get("args", [])) == 3]
    chk.check(fargs and all("All" in t for t in fargs), "R5", A.loc(mainf, fb), "the final record includes the phase space (AppendType::All)", "final:append-type:%s" % fargs)
    # "one final record for the state reached": the final block is the loop's output block applied to the state at the interrupt --
    # same refresh sequence, and the time written is the step actually reached (decided under C10 R2/R4; re-evaluated here; the staleness
    # of a record written right after a renormalising step is the known finding F6 of C10 and is not repeated under this property)
    from .common import reeval
    reeval(chk, prog, "C10", lambda i: i["rule"] in ("R2", "R4"), "R5", "R5-final-record", 4)
    # ---- R6 -------------------------------------------------------------------------------------
    if sigs:
        sline = sigs[0][1]["line"]
        early = [x for f, x in rd_main if sline <= x["line"] < loop["line"]]
        chk.check(not early, "R6", A.loc(mainf, sigs[0][1]), "the flag is not read between installing the handler and the loop: a signal during set-up gives zero iterations and the final record",
                  "flag:read-during-setup:%d" % len(early))
    # ---- R7: writing the final record cannot end in an uncaught exception of the program's own making -----------------------------------------
    # after an interrupt the loop may have run zero times: the final block then writes a record for a state that has already been written (same
    # step, same time).  Whatever main calls in the final block (transitively, within the program) must not `throw`, unless main catches it.
    by_sig = prog.functions
    idx_main = A.index(mainf)

    def throws(sig, seen):
        """(function, throw node) of the first throw-expression reachable from the function `sig` through calls into the program"""
        if sig in seen or sig not in by_sig:
            return None
        seen.add(sig)
        f_ = by_sig[sig]
        roots_ = ([f_["body"]] if f_.get("body") else []) + [i_["expr"] for i_ in f_.get("inits", []) if isinstance(i_.get("expr"), dict)]
        for r_ in roots_:
            fidx_ = A.index(f_)
            for y in A.walk(r_):
                if y.get("k") == "CXXThrowExpr" and y.get("c"):
                    if not A.enclosing(fidx_, y, {"CXXTryStmt"}):
                        return f_, y
                if y.get("callee_sig") and y.get("callee_in_root"):
                    t_ = throws(y["callee_sig"], seen)
                    if t_ is not None and not A.enclosing(fidx_, y, {"CXXTryStmt"}):
                        return t_
        return None
    n7 = 0
    for y in A.walk(fb["then"]):
        if y.get("k") in ("CXXMemberCallExpr", "CallExpr") and y.get("callee_sig") and y.get("callee_in_root"):
            if A.enclosing(idx_main, y, {"CXXTryStmt"}):
                continue
            t_ = throws(y["callee_sig"], set())
            n7 += 1
            chk.check(t_ is None, "R7", A.loc(mainf, y), "final block: %s() cannot raise an exception of the program (%s)" % ((y.get("callee") or "").split("::")[-1],
                      "no throw-expression reachable" if t_ is None else "throw at %s" % A.loc(t_[0], t_[1])),
                      "final:may-throw:%s" % (y.get("callee") or "").split("::")[-1])
    chk.floor("R7-final-block-calls", n7, 6)
    chk.notes.append("C14: handler effect, writers/readers of the abort flag over the whole program, loop-body exits, paths after the loop, append agreement. "
                     "A static non-interference argument over all interrupt points; no instrumentation needed. NOT decided: HDF5 library internals.")
