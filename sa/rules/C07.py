"""C07 — CSR power equals the energy the wake takes from the beam and is never negative.

The Parseval equality between the two separately coded sums relates run-time arrays through
DFT algebra and is NOT decided.  Decided (sign clauses, for a passive impedance Re Z >= 0):
 R1  the spectrum value stored for (bunch n, frequency i) is a product of factors each of which
     is >= 0: the form-factor renormalisation (a square), the optional cutoff factor
     1-exp(-(f/fc)^2) in [0,1), Re Z[i], |F[i]|^2; the intensity is a sum of delta_f * spectrum
     with delta_f > 0, started from 0;
 R2  with a cutoff the extra factor lies in [0,1): the power is smaller and still non-negative;
 R4  the spectrum stored for bunch n is computed from bunch n's own profile (row n of the X projection);
 R3  spectrum and wake use the same impedance sample for the same form-factor sample ([i] with [i]),
     and the impedance object used for the spectrum is the one handed to the field.
"""
import sympy as sp
from .. import ast as A
from .. import indexmap as I
from .. import signs as Sg
from ..compdb import AnalysisBroken
from . import efield as E, gridmodel as G

LEVEL = "other"


def run(chk, prog):
    chk.assume("passive impedance: Re Z[i] >= 0 (precondition of the statement)", "exact real arithmetic for the sign argument",
               "grid spacing delta > 0 (Ruler requires max > min)")
    m = E.Model(prog)
    fn = m.fns["updateCSR"]
    chk.used(fn)
    c8 = [c for c in m.setup if c["kind"] == "ctor" and len(c["params"]) == 8][0]
    chk.used(c8)
    sc = I.scan(c8, hooks=[G.make_hook()])
    ini = {a.base: a.value for a in sc.accesses if a.kind == "store" and a.idx is None}
    ffr = ini.get("_formfactorrenorm")
    d0 = G.AX(0, "delta")
    chk.check(ffr is not None and sp.expand(ffr - d0 ** 2) == 0, "R1", c8.where, "_formfactorrenorm = delta0^2 (a square): %s" % ffr, "ctor:_formfactorrenorm:%s" % ffr)
    s = I.scan(fn)
    # definitions of the local renormalisation factor
    ren_defs = [a for a in s.accesses if a.kind == "store" and a.base == "renorm" and a.idx is None]
    A.require(len(ren_defs) >= 1, "updateCSR: renormalisation factor not found")

    def table(e):
        if e.is_Symbol:
            n = str(e)
            if n == "_formfactorrenorm":
                return Sg.NNEG
            if n == "cutoff_frequency":
                return None
            if n == "renorm":
                return "REN"
        if isinstance(e, sp.Indexed):
            return None
        f = str(e.func) if hasattr(e, "func") else ""
        if f in ("std_norm",):
            return Sg.NNEG
        if f == "real":
            return Sg.NNEG        # passive impedance (assumption of the statement)
        if f == "delta" and "_axis_freq" in str(e.args[0]):
            return Sg.POS
        if f == "scale" and "_axis_freq" in str(e.args[0]):
            return Sg.POS
        if f == "imag":
            return Sg.TOP
        return None

    def table2(e):
        t = table(e)
        if t == "REN":
            return Sg.NNEG if ren_ok else Sg.TOP
        return t
    # renorm: initial definition and conditional update
    ren_ok = True
    for a in ren_defs:
        site = A.loc(fn, {"line": a.line})
        if a.op == "=":
            v = a.value
            if v is None:
                # direct-initialisation through a constructor: frequency_t renorm(_formfactorrenorm)
                v = s._try(a.value_node)
            sg = Sg.sign(v, table) if v is not None else Sg.TOP
            ok = sg in (Sg.NNEG, Sg.POS, Sg.ZERO)
            chk.check(ok, "R1", site, "renormalisation starts from a non-negative value (%s: sign %s)" % (v, sg), "updateCSR:renorm-init:%s" % sg)
            ren_ok = ren_ok and ok
        elif a.op == "*=":
            sg = Sg.sign(a.value, table) if a.value is not None else Sg.TOP
            guarded = any("cutoff_frequency > 0" in A.show(g).replace("(", "").replace(")", "") or "cutoff_frequency>0" in A.show(g).replace(" ", "")
                          for g, pol in a.guards if pol and isinstance(g, dict) and g.get("k") not in ("SwitchCase", "Catch"))
            ok = sg in (Sg.NNEG, Sg.POS) and a.value is not None
            chk.check(ok, "R2", site, "cutoff factor %s has sign %s (in [0,1): 1-exp(-t), t>=0)" % (a.value, sg), "updateCSR:cutoff-factor:%s" % sg)
            chk.check(guarded, "R2", site, "the cutoff factor is applied only for a positive cutoff frequency", "updateCSR:cutoff-guard")
            # the factor is < 1: it is 1 - exp(-x)
            v = a.value
            lt1 = v is not None and v.is_Add and sp.simplify(1 - v).func == sp.exp
            chk.check(lt1, "R2", site, "the cutoff factor is 1 - exp(.) < 1: the power with a cutoff is not larger", "updateCSR:cutoff-lt1")
            ren_ok = ren_ok and ok
        else:
            chk.fail("R1", site, "renormalisation factor updated by '%s'" % a.op, "updateCSR:renorm-op:%s" % a.op)
            ren_ok = False
    # Parseval clause: the equality with the wake's energy loss is stated for the unfiltered spectrum, so without a cut-off
    # (cutoff_frequency <= 0) the factor in front of Re Z |F|^2 is _formfactorrenorm itself, not a limit of the high-pass formula
    named_conds = {}
    for st_ in A.walk(fn["body"]):
        if st_.get("k") == "DeclStmt":
            for d_ in st_.get("decls", []):
                if d_.get("k") == "VarDecl" and d_.get("is_const") and (d_.get("ctype") or "").replace("const ", "").strip() == "bool" and isinstance(d_.get("init"), dict):
                    named_conds[d_["name"]] = A.show(A.strip(d_["init"])).replace(" ", "").strip("()")

    def no_cutoff(e):
        if e is None:
            return None
        for t in list(e.atoms(sp.Function)):
            ct_ = str(t.args[0]).replace(" ", "").strip("()") if str(t.func) == "ite" else ""
            ct_ = named_conds.get(ct_, ct_)
            if str(t.func) == "ite" and "cutoff_frequency" in ct_:
                c_ = ct_
                if c_ in ("cutoff_frequency>0", "0<cutoff_frequency", "cutoff_frequency>0.0"):
                    e = e.subs(t, t.args[2])
                elif c_ in ("cutoff_frequency<=0", "0>=cutoff_frequency", "!(cutoff_frequency>0)"):
                    e = e.subs(t, t.args[1])
                else:
                    raise AnalysisBroken("updateCSR: condition `%s` on the cut-off frequency not understood" % t.args[0])
        return e
    vnc = None
    for a in ren_defs:
        pos_guard = any(("cutoff_frequency>0" in A.show(g).replace(" ", "").replace("(", "").replace(")", "")) for g, pol in a.guards
                        if pol and isinstance(g, dict) and g.get("k") not in ("SwitchCase", "Catch"))
        neg_guard = any(("cutoff_frequency>0" in A.show(g).replace(" ", "").replace("(", "").replace(")", "")) for g, pol in a.guards
                        if (not pol) and isinstance(g, dict) and g.get("k") not in ("SwitchCase", "Catch"))
        if pos_guard:
            continue                    # runs only with a cut-off
        v_ = a.value if a.value is not None else s._try(a.value_node)
        v_ = no_cutoff(v_)
        if a.op == "=":
            vnc = v_
        elif a.op == "*=" and vnc is not None and v_ is not None:
            vnc = vnc * v_
        else:
            vnc = None
            break
    ok_nc = vnc is not None and sp.simplify(vnc - sp.Symbol("_formfactorrenorm", real=True)) == 0
    chk.check(ok_nc, "R2", A.loc(fn, {"line": ren_defs[0].line}), "without a cut-off (cutoff_frequency <= 0) the spectrum factor is _formfactorrenorm itself (got %s)"
              % (sp.simplify(vnc) if vnc is not None else None), "updateCSR:no-cutoff-factor:%s" % (sp.simplify(vnc) if vnc is not None else None))
    sp_st = [a for a in s.accesses if a.kind == "store" and a.base == "_csrspectrum" and a.idx is not None]
    A.require(len(sp_st) == 1, "updateCSR: store to the spectrum not found")
    a = sp_st[0]
    site = A.loc(fn, {"line": a.line})
    A.require(a.value is not None, "updateCSR: spectrum expression not translatable")
    sg = Sg.sign(a.value, table2)
    chk.check(sg in (Sg.NNEG, Sg.POS, Sg.ZERO) and a.op == "=", "R1", site, "spectrum[n][i] = %s has sign %s under Re Z >= 0" % (a.value, sg),
              "updateCSR:spectrum-sign:%s" % sg)
    fac = [str(x.func) for x in a.value.atoms(sp.Function)]
    chk.check("real" in fac and "std_norm" in fac and "imag" not in fac, "R1", site, "the spectrum uses Re Z and |F|^2 (functions: %s)" % sorted(set(fac)),
              "updateCSR:spectrum-factors:%s" % sorted(set(fac)))
    # R3: same index
    loops = {L.name: L for L in a.loops}
    inner = a.loops[-1].sym
    args = []
    for x in a.value.atoms(sp.Function):
        if str(x.func) in ("real", "std_norm"):
            args.append((str(x.func), str(x.args[0])))
    ok = all(("[%s]" % inner) in t for _, t in args) and len(args) == 2 and a.idx == (a.loops[0].sym, inner)
    chk.check(ok, "R3", site, "spectrum[n][i] pairs Z[i] with F[i] (arguments %s)" % args, "updateCSR:index-pairing:%s" % args)
    chk.check(any("_impedance" in t for f_, t in args if f_ == "real") and any("_formfactor" in t for f_, t in args if f_ == "std_norm"), "R3", site,
              "Re is taken of the impedance, |.|^2 of the form factor", "updateCSR:operands:%s" % args)
    chk.check(str(ini.get("_impedance")) == "impedance", "R3", c8.where, "the field's impedance is the one handed to the constructor", "ctor:_impedance")
    # intensity
    it = [x for x in s.accesses if x.kind == "store" and x.base == "_csrintensity" and x.idx is not None]
    A.require(len(it) >= 1, "updateCSR: no store to the intensity")
    spec_sign = lambda e: (Sg.NNEG if isinstance(e, sp.Indexed) and str(e.base) == "_csrspectrum" else table2(e))
    if len(it) == 2 and {x.op for x in it} == {"=", "+="}:
        z, acc = (it[0], it[1]) if it[0].op == "=" else (it[1], it[0])
        chk.check(z.op == "=" and z.value == 0 and acc.op == "+=" and z.idx == acc.idx and len(z.loops) >= 1 and z.loops[0].sym == a.loops[0].sym, "R1", A.loc(fn, {"line": z.line}),
                  "intensity[n] starts at 0 for every bunch and is accumulated with +=", "updateCSR:intensity-reset")
        terms = [acc]
        scale_ = sp.Integer(1)
    elif len(it) == 1 and it[0].op == "=" and it[0].value is not None and [t for t in it[0].value.atoms(sp.Function) if type(t).__name__ == "SUM"]:
        # stored once per bunch from a sum the scanner could read as SUM(term, lo, hi): that normal form is only produced when the
        # accumulator starts afresh in the same iteration of every enclosing loop, i.e. per bunch
        fin = it[0]
        sums = [t for t in fin.value.atoms(sp.Function) if type(t).__name__ == "SUM"]
        chk.check(len(sums) == 1 and fin.idx == (a.loops[0].sym,), "R1", A.loc(fn, {"line": fin.line}), "intensity[n] = (factor) * one sum over the frequencies (%s)" % fin.value,
                  "updateCSR:intensity-shape:sum")
        terms = []
        if len(sums) == 1:
            sm_ = sums[0]
            fac_ = sp.simplify(fin.value / sm_)
            chk.check(not fac_.has(sm_) and Sg.sign(fac_, table2) in (Sg.NNEG, Sg.POS), "R1", A.loc(fn, {"line": fin.line}), "intensity[n] = (non-negative factor) * sum (%s)" % fac_,
                      "updateCSR:intensity-scale")
            term_ = sm_.args[0]
            sg = Sg.sign(term_, spec_sign)
            chk.check(sg in (Sg.NNEG, Sg.POS), "R1", A.loc(fn, {"line": fin.line}), "each term %s of the sum is >= 0 (%s)" % (term_, sg), "updateCSR:intensity-term:%s" % sg)
            ix = [x for x in term_.atoms(sp.Indexed) if str(x.base) == "_csrspectrum"]
            okix = len(ix) == 1 and len(ix[0].indices) == 2 and ix[0].indices[0] == a.loops[0].sym and sm_.args[1] == 0 and E.norm(sm_.args[2]) == E.NMAX
            if not ix and a.value is not None:
                # the summand is not read back from the spectrum but is the very value stored into spectrum[n][i] in that iteration (held in
                # a local), times a factor that does not depend on i
                same = a.value.subs(a.loops[-1].sym, I.K_)
                ratio = sp.simplify(term_ / same) if same != 0 else None
                okix = ratio is not None and I.K_ not in ratio.free_symbols and Sg.sign(ratio, table2) in (Sg.NNEG, Sg.POS) and \
                    sm_.args[1] == 0 and E.norm(sm_.args[2]) == E.NMAX
                ix = ["the value stored to spectrum[n][i], times %s" % ratio]
            chk.check(okix, "R1", A.loc(fn, {"line": fin.line}), "the intensity of bunch n sums the spectrum of bunch n over all i (%s over [%s,%s))" % (ix, sm_.args[1], sm_.args[2]),
                      "updateCSR:intensity-index")
        terms = [None]
    else:
        # accumulated in a local and stored once per bunch: intensity[n] = factor * local
        fin = [x for x in it if x.op == "="]
        locs_ = sorted({str(t) for x in fin for t in (x.value.free_symbols if x.value is not None else []) if any(y.kind == "store" and y.idx is None and y.base == str(t) for y in s.accesses)})
        ok_shape = len(it) == 1 and len(fin) == 1 and len(locs_) == 1 and fin[0].idx == (a.loops[0].sym,)
        chk.check(ok_shape, "R1", A.loc(fn, {"line": it[0].line}), "intensity[n] is either accumulated in place or stored once per bunch from one local accumulator (%s)" % [str(x)[:70] for x in it],
                  "updateCSR:intensity-shape:%s" % sorted(x.op for x in it))
        terms, scale_ = [], sp.Integer(1)
        if ok_shape:
            L_ = locs_[0]
            ls = [y for y in s.accesses if y.kind == "store" and y.idx is None and y.base == L_]
            resets = [y for y in ls if y.op == "=" and y.value == 0]
            terms = [y for y in ls if y.op == "+="]
            # the accumulator must start at 0 inside the bunch loop, before the terms of that bunch are added
            per_bunch = [y for y in resets if y.loops and y.loops[0].sym == a.loops[0].sym and all(y.seq < t_.seq for t_ in terms)]
            chk.check(bool(per_bunch) and len(resets) == len(per_bunch), "R1", A.loc(fn, {"line": (resets[0].line if resets else fin[0].line)}),
                      "the accumulator %s starts at 0 for every bunch (reset inside the bunch loop, before the sum): the intensity of bunch n holds nothing of bunches < n" % L_,
                      "updateCSR:intensity-reset")
            scale_ = sp.simplify(fin[0].value / sp.Symbol(L_, real=True)) if fin[0].value is not None else None
            chk.check(scale_ is not None and not scale_.has(sp.Symbol(L_, real=True)) and Sg.sign(scale_, table2) in (Sg.NNEG, Sg.POS), "R1", A.loc(fn, {"line": fin[0].line}),
                      "intensity[n] = (non-negative factor) * accumulator (%s)" % scale_, "updateCSR:intensity-scale")
    for acc in [t_ for t_ in terms if t_ is not None]:
        sg = Sg.sign(acc.value, spec_sign) if acc.value is not None else Sg.TOP
        chk.check(sg in (Sg.NNEG, Sg.POS), "R1", A.loc(fn, {"line": acc.line}), "each term %s added to the intensity is >= 0 (%s)" % (acc.value, sg),
                  "updateCSR:intensity-term:%s" % sg)
        ix = [x for x in acc.value.atoms(sp.Indexed) if str(x.base) == "_csrspectrum"] if acc.value is not None else []
        chk.check(len(ix) == 1 and tuple(ix[0].indices) == a.idx, "R1", A.loc(fn, {"line": acc.line}),
                  "the intensity of bunch n sums the spectrum of bunch n over all i", "updateCSR:intensity-index")
    chk.check(len(terms) == 1, "R1", A.loc(fn, {"line": it[0].line}), "the intensity is one sum over the spectrum (%d accumulation statements)" % len(terms), "updateCSR:intensity-terms:%d" % len(terms))
    fL = a.loops[-1]
    chk.check(fL.lo == 0 and E.norm(fL.hi) == E.NMAX, "R1", site, "the spectrum is computed for all _nmax frequencies", "updateCSR:freq-range")
    # frequency axis delta > 0: Ruler(_nmax, 0, 1/delta0)
    af = [i for i in c8["inits"] if i.get("target") == "_axis_freq"]
    A.require(len(af) == 1, "ElectricField: _axis_freq initialiser not found")
    rc = [x for x in A.walk(af[0]["expr"]) if x["k"] in ("CXXConstructExpr", "CXXTemporaryObjectExpr") and "Ruler" in (x.get("callee_class") or "")]
    ok = False
    rc = [x for x in rc if len(x.get("args", [])) >= 3]
    if not rc:
        raise AnalysisBroken("ElectricField: the frequency axis is not built by Ruler(n, min, max, ...) in the initialiser (helper?): its range is not judged")
    if rc:
        rr = rc[-1]
        mn, mx = sc._try(rr["args"][1]), sc._try(rr["args"][2])
        ok = mn == 0 and mx is not None and sp.simplify(mx - 1 / d0) == 0
    chk.check(ok, "R1", A.loc(c8, {"line": af[0]["line"]}), "frequency axis runs from 0 to 1/delta0 > 0, so delta_f > 0", "ctor:_axis_freq")
    # ---- R4: the spectrum of bunch n is computed from bunch n's own profile ---------------------------------
    ev = m.flat("updateCSR")
    cps = [e for e in ev if e.kind == "read-src"]
    A.require(len(cps) == 1 and len(cps[0].loops) >= 1, "updateCSR: profile copy not found")
    cp = cps[0]
    row = E.profile_row(cp.value)
    nsym = cp.loops[0].sym
    wr = [e for e in ev if e.kind == "write" and e.nid == cp.nid]
    ok = row is not None and sp.simplify(row - sp.Symbol(str(nsym), integer=True)) == 0 and wr and wr[0].buf == "_bp_padded" and wr[0].lo == 0 and \
        sp.expand(wr[0].length - E.NX) == 0 and a.idx[0] == nsym
    chk.check(ok, "R4", A.loc(fn, {"line": cp.line}),
              "the profile transformed for spectrum[n] is row n of the X projection, N values placed at the start of the padded buffer (source %s -> row %s)" % (cp.value, row),
              "updateCSR:profile-source:%s" % (cp.value,))
    # ---- R5: "one and the same bunch profile": the transform inputs hold the current profile only (no content left by an earlier
    # operation on the same object) -- the must-rewrite analysis decided under C18 R1; re-evaluated here
    from .common import reeval
    reeval(chk, prog, "C18", lambda i: i["rule"] == "R1", "R5", "R5-current-profile-only", 6)
    # ---- R6: spectrum and wake are computed from one and the same profile: what is placed in the padded train is the projection itself
    # (C06 R1; re-evaluated here)
    reeval(chk, prog, "C06", lambda i: i["rule"] == "R1", "R6", "R6-same-profile", 4)
    # ---- RD: dimensional consistency of the quantities this property depends on (sa/dims.py) ----------------------------------------
    from . import dimrules
    nrd = dimrules.run(chk, prog, "RD")
    chk.floor("RD-requirements", nrd or 0, 0)
    chk.notes.append("C07: non-negativity of spectrum and intensity by a sign lattice over the extracted expressions (assuming Re Z >= 0), "
                     "cutoff factor in [0,1), index pairing. NOT decided: the Parseval equality with the wake-loss sum.")
