"""Helpers over the JSON syntax trees exported by isa-extract."""
import os
from .compdb import REPO, AnalysisBroken

TRANSPARENT = {"ImplicitCastExpr", "ParenExpr", "ExprWithCleanups", "MaterializeTemporaryExpr",
               "CXXBindTemporaryExpr", "ConstantExpr", "SubstNonTypeTemplateParmExpr",
               "CXXDefaultArgExpr"}
EXPLICIT_CASTS = {"CXXStaticCastExpr", "CStyleCastExpr", "CXXFunctionalCastExpr",
                  "CXXReinterpretCastExpr", "CXXConstCastExpr"}

CHILD_KEYS = ("c", "args", "fn", "init", "cond", "inc", "body", "then", "else", "lhs", "sub",
              "handlers", "inits", "array_size", "placement", "range", "expr")


def children(n):
    """direct child nodes (dicts with 'k') in source order"""
    out = []
    if not isinstance(n, dict):
        return out
    for key in CHILD_KEYS:
        v = n.get(key)
        if isinstance(v, dict) and "k" in v:
            out.append(v)
        elif isinstance(v, list):
            out.extend(x for x in v if isinstance(x, dict) and "k" in x)
    if n.get("k") == "DeclStmt":
        for d in n.get("decls", []):
            if isinstance(d, dict) and isinstance(d.get("init"), dict):
                out.append(d["init"])
    if n.get("k") == "CXXForRangeStmt":
        lv = n.get("loopvar")
        if isinstance(lv, dict) and isinstance(lv.get("init"), dict):
            out.append(lv["init"])
    return out


def walk(n):
    """pre-order traversal of all nodes below (and including) n"""
    if not isinstance(n, dict):
        return
    stack = [n]
    while stack:
        x = stack.pop()
        yield x
        ch = children(x)
        stack.extend(reversed(ch))


def index(fn):
    """id -> node and id -> parent for a function (body + ctor initialisers)"""
    byid, parent = {}, {}
    roots = []
    if fn.get("body"):
        roots.append(fn["body"])
    for i in fn.get("inits", []):
        if isinstance(i.get("expr"), dict):
            roots.append(i["expr"])
    for r in roots:
        stack = [(r, None)]
        while stack:
            x, p = stack.pop()
            byid[x["id"]] = x
            parent[x["id"]] = p
            if x.get("k") == "DeclStmt":
                for d in x.get("decls", []):
                    if isinstance(d, dict) and "decl" in d:
                        d["_stmt"] = x["id"]
            for c in children(x):
                stack.append((c, x))
    return byid, parent


def strip(n, casts=True):
    """skip implicit wrappers (and, by default, explicit arithmetic casts)"""
    while isinstance(n, dict):
        k = n.get("k")
        if k in TRANSPARENT:
            ch = n.get("c") or []
            if len(ch) != 1:
                return n
            n = ch[0]
        elif casts and k in EXPLICIT_CASTS:
            ch = n.get("c") or []
            if len(ch) != 1:
                return n
            n = ch[0]
        elif k == "CXXConstructExpr" and len(n.get("args", [])) == 1 and (
                n.get("elidable") or "callee" in n and n["callee"].split("::")[-1] ==
                n.get("callee_class", "").split("::")[-1] and
                n["callee_params"] in ([""], ["__x"], ["r"], ["__r"], ["__str"], ["other"])):
            # copy / move construction of a value: look through
            n = n["args"][0]
        else:
            return n
    return n


def is_this(n):
    n = strip(n)
    return isinstance(n, dict) and n.get("k") == "CXXThisExpr"


def member_name(n):
    """name of a field accessed (this->x, obj.x, ptr->x), else None"""
    n = strip(n)
    if isinstance(n, dict) and n.get("k") == "MemberExpr":
        return n["member"]["name"]
    return None


def this_field(n):
    """field name if n is this->field (implicit or explicit), else None"""
    n = strip(n)
    if isinstance(n, dict) and n.get("k") == "MemberExpr" and n["member"]["dkind"] == "Field":
        if is_this(n["c"][0]):
            return n["member"]["name"]
    return None


def declref(n):
    n = strip(n)
    if isinstance(n, dict) and n.get("k") == "DeclRefExpr":
        return n
    return None


def call_object(n):
    """object expression of a member call (node) or None"""
    if n.get("k") == "CXXMemberCallExpr":
        fn = strip(n.get("fn"))
        if fn and fn.get("k") == "MemberExpr":
            return fn["c"][0]
    if n.get("k") == "CXXOperatorCallExpr" and n.get("args"):
        return n["args"][0]
    return None


BINOP_PREC = {"*": 5, "/": 5, "%": 5, "+": 4, "-": 4, "<<": 3, ">>": 3, "<": 2, ">": 2, "<=": 2,
              ">=": 2, "==": 2, "!=": 2, "&&": 1, "||": 1, "&": 1, "|": 1, "^": 1}


def show(n, depth=0):
    """compact source-like rendering of an expression (for reports)"""
    if n is None:
        return "<null>"
    if not isinstance(n, dict):
        return str(n)
    if depth > 40:
        return "..."
    k = n.get("k")
    s = lambda x: show(x, depth + 1)
    if k in TRANSPARENT and len(n.get("c", [])) == 1:
        if k == "ParenExpr":
            if ("param" in n or "named" in n):
                # parentheses put in by the canonicaliser around a substituted expression: only shown where they matter
                inner = strip(n["c"][0])
                if inner.get("k") in ("DeclRefExpr", "IntegerLiteral", "FloatingLiteral", "MemberExpr", "CallExpr", "CXXMemberCallExpr", "CXXBoolLiteralExpr",
                                      "CXXThisExpr", "ArraySubscriptExpr", "StringLiteral") or inner.get("k") in EXPLICIT_CASTS:
                    return s(n["c"][0])
            return "(" + s(n["c"][0]) + ")"
        return s(n["c"][0])
    if k in EXPLICIT_CASTS:
        return "%s(%s)" % (n.get("written", "cast"), s(n["c"][0]) if n.get("c") else "")
    if k in ("IntegerLiteral", "FloatingLiteral"):
        return n.get("text") or str(n.get("value"))
    if k == "CXXBoolLiteralExpr":
        return "true" if n["value"] else "false"
    if k == "StringLiteral":
        return '"%s"' % n.get("value", "")
    if k == "CXXNullPtrLiteralExpr":
        return "nullptr"
    if k == "CXXThisExpr":
        return "this"
    if k == "DeclRefExpr":
        return n["qname"] if n.get("dkind") in ("EnumConstant",) or n.get("static_member") else n["name"]
    if k == "MemberExpr":
        base = n["c"][0] if n.get("c") else None
        if base is not None and is_this(base):
            return n["member"]["name"]
        return s(base) + ("->" if n.get("arrow") else ".") + n["member"]["name"]
    if k in ("BinaryOperator", "CompoundAssignOperator"):
        return "%s %s %s" % (s(n["c"][0]), n["op"], s(n["c"][1]))
    if k == "UnaryOperator":
        return (s(n["c"][0]) + n["op"]) if n.get("postfix") else (n["op"] + s(n["c"][0]))
    if k == "ArraySubscriptExpr":
        return "%s[%s]" % (s(n["c"][0]), s(n["c"][1]))
    if k == "ConditionalOperator":
        return "%s ? %s : %s" % (s(n["cond"]), s(n["then"]), s(n["else"]))
    if k == "CXXOperatorCallExpr":
        a = n.get("args", [])
        op = n.get("op", "?")
        if op == "[]" and len(a) == 2:
            return "%s[%s]" % (s(a[0]), s(a[1]))
        if op == "()":
            return "%s(%s)" % (s(a[0]), ", ".join(s(x) for x in a[1:]))
        if op in ("*", "->") and len(a) == 1:
            return ("*" + s(a[0])) if op == "*" else s(a[0])
        if len(a) == 2:
            return "%s %s %s" % (s(a[0]), op, s(a[1]))
        if len(a) == 1:
            return op + s(a[0])
    if k == "CXXMemberCallExpr":
        return "%s(%s)" % (s(n.get("fn")), ", ".join(s(x) for x in n.get("args", [])))
    if k == "CallExpr":
        return "%s(%s)" % (n.get("callee") or s(n.get("fn")), ", ".join(s(x) for x in n.get("args", [])))
    if k in ("CXXConstructExpr", "CXXTemporaryObjectExpr"):
        a = n.get("args", [])
        if len(a) == 1 and (n.get("elidable") or True) and n.get("callee_class", "").startswith("std::"):
            pass
        return "%s(%s)" % (n.get("callee_class", n.get("type", "T")).split("::")[-1],
                           ", ".join(s(x) for x in a))
    if k == "CXXNewExpr":
        if n.get("is_array"):
            return "new %s[%s]" % (n.get("alloc_type"), s(n.get("array_size")))
        return "new " + s(n.get("init")) if n.get("init") else "new " + n.get("alloc_type", "")
    if k == "InitListExpr":
        return "{" + ", ".join(s(x) for x in n.get("inits", [])) + "}"
    if k == "UnaryExprOrTypeTraitExpr":
        return "sizeof(%s)" % (n.get("argtype") or (s(n["c"][0]) if n.get("c") else ""))
    if k == "LambdaExpr":
        return "[lambda]"
    if k == "CXXStdInitializerListExpr" and n.get("c"):
        return s(n["c"][0])
    ch = children(n)
    if len(ch) == 1:
        return s(ch[0])
    return "%s(%s)" % (k, ", ".join(s(x) for x in ch))


def loc(fn, n):
    """file:line of node n inside function fn (nodes carry presumed line numbers)"""
    return "%s:%d" % (os.path.relpath(fn["file"], REPO), n.get("line", fn["line"]))


def calls_in(n, qname=None):
    """all call-like nodes below n (optionally to a given callee qualified name)"""
    for x in walk(n):
        if x.get("k") in ("CallExpr", "CXXMemberCallExpr", "CXXOperatorCallExpr", "CXXConstructExpr",
                          "CXXTemporaryObjectExpr"):
            if qname is None or x.get("callee") == qname:
                yield x


def assignments_in(n):
    """(node, lhs, op, rhs) for all builtin assignments / compound assignments below n"""
    for x in walk(n):
        if x.get("k") in ("BinaryOperator", "CompoundAssignOperator") and x["op"].endswith("=") \
                and x["op"] not in ("==", "!=", "<=", ">="):
            yield x, x["c"][0], x["op"], x["c"][1]


def for_header(loop):
    """canonical for loop -> dict(var_decl, var, lo, cmp, hi, step) or None.
    Recognises `for (T v = lo; v <cmp> hi; v++ / ++v / v += c)`."""
    if loop.get("k") != "ForStmt":
        return None
    init, cond, inc = loop.get("init"), loop.get("cond"), loop.get("inc")
    if not init or not cond or not inc:
        return None
    var = lo = None
    if init.get("k") == "DeclStmt" and len(init["decls"]) == 1 and "init" in init["decls"][0]:
        var = init["decls"][0]
        lo = var["init"]
        vdecl, vname = var["decl"], var["name"]
    else:
        i = strip(init)
        if i.get("k") == "BinaryOperator" and i["op"] == "=" and declref(i["c"][0]):
            vdecl, vname = declref(i["c"][0])["decl"], declref(i["c"][0])["name"]
            lo = i["c"][1]
        else:
            return None
    c = strip(cond)
    if c.get("k") != "BinaryOperator" or c["op"] not in ("<", "<=", "!=", ">", ">="):
        return None
    l = declref(c["c"][0])
    if not l or l["decl"] != vdecl:
        return None
    hi = c["c"][1]
    s = strip(inc)
    step = None
    if s.get("k") == "UnaryOperator" and s["op"] in ("++", "--") and declref(s["c"][0]) and \
            declref(s["c"][0])["decl"] == vdecl:
        step = 1 if s["op"] == "++" else -1
    elif s.get("k") == "CompoundAssignOperator" and s["op"] in ("+=", "-=") and declref(s["c"][0]) and \
            declref(s["c"][0])["decl"] == vdecl and strip(s["c"][1]).get("k") == "IntegerLiteral":
        step = strip(s["c"][1])["value"] * (1 if s["op"] == "+=" else -1)
    if step is None:
        return None
    return {"decl": vdecl, "name": vname, "lo": lo, "cmp": c["op"], "hi": hi, "step": step, "node": loop}


def enclosing(fn_index, node, kinds):
    """list of ancestors of node (innermost first) whose kind is in kinds"""
    byid, parent = fn_index
    out = []
    p = parent.get(node["id"])
    while p is not None:
        if p["k"] in kinds:
            out.append(p)
        p = parent.get(p["id"])
    return out


def require(cond, msg):
    if not cond:
        raise AnalysisBroken(msg)
