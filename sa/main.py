"""./check Cxx [--tier quick|thorough] [--replay path]"""
import argparse, importlib, json, os, sys, traceback
from . import facts, report
from .compdb import AnalysisBroken

def thorough(chk, prop):
    """thorough tier = the quick rules (already run on /repo) + (a) the same rules under the DEBUG=1 preprocessor
    configuration, (b) every positive control of the property: hand-written mutants, behaviour-preserving edits that must
    stay silent, and the seeded changes of independent sub-agents, each applied to a scratch copy under /tmp that is
    removed immediately.  A control that is not detected makes the run ANALYSIS-BROKEN (exit 2): the checker lost power."""
    import importlib, json, glob
    from . import selftest
    broken = []
    # (a) second preprocessor configuration
    try:
        prog2 = facts.load_program(defines=("DEBUG=1",), tag="debug")
        sub = report.Check(prop, "thorough", chk.level)
        importlib.import_module("sa.rules." + prop).run(sub, prog2)
        bad = [i for i in sub.instances if not i["ok"]]
        known = json.load(open(report.KNOWN)).get("findings", []) if os.path.exists(report.KNOWN) else []
        kk = {k_["key"] for k_ in known}
        new = [i for i in bad if i["key"] not in kk]
        chk.controls.append({"kind": "config", "config": "DEBUG=1", "instances": len(sub.instances), "violations_not_known": len(new)})
        for i in new:
            chk.fail(i["rule"], i["site"], "[DEBUG=1 configuration] " + i["what"], i["key"].split(":", 2)[2] + ":DEBUG")
    except AnalysisBroken as e:
        chk.controls.append({"kind": "config", "config": "DEBUG=1", "error": str(e)})
        broken.append("config DEBUG=1: %s" % e)
    # (b) mutants and benign edits
    for r in selftest.run_for(prop):
        chk.controls.append({"kind": "benign-edit" if r["name"].startswith("benign") else "mutant", "name": r["name"], "outcome": r["outcome"]})
        if r["outcome"] not in ("detected", "mutant-broken"):
            broken.append(r["name"])
    # (c) seeded changes from independent sub-agents
    for meta in sorted(glob.glob(os.path.join(selftest.VERIF, "seeded", "*", "meta.json"))):
        m = json.load(open(meta))
        # which checks must report this change: the list recorded when it was evaluated (a change that its own property's check
        # cannot see -- documented as a limit -- is a control of the neighbours that do), else the property it was written for
        must = m.get("detected_by_properties") or [m.get("property")]
        if prop not in must:
            continue
        d = os.path.dirname(meta)
        r = selftest.run_mutant({"name": "seed:" + os.path.basename(d), "property": prop, "patch": os.path.relpath(os.path.join(d, "patch.diff"), selftest.VERIF), "expect": ""})
        chk.controls.append({"kind": "seeded-change", "name": os.path.basename(d), "outcome": r["outcome"]})
        if r["outcome"] not in ("detected", "mutant-broken"):
            broken.append("seed:" + os.path.basename(d))
    return broken


def check_anchors(prop, prog):
    """the member variables / member functions this check refers to by name must all exist (sa/anchors.json, written by
    tool/gen_anchors.py from the rule sources): a renamed or removed one means the rules would mis-read the code -> exit 2"""
    path = os.path.join(os.path.dirname(os.path.abspath(__file__)), "anchors.json")
    if not os.path.exists(path):
        return
    want = json.load(open(path)).get(prop)
    if not want:
        return
    fields, methods = set(), set()
    for q, r in prog.records.items():
        if q.startswith("vfps::"):
            fields |= {f["name"] for f in r.get("fields", [])}
    for f in prog.functions.values():
        if (f.get("qname") or "").startswith("vfps::") and f.get("class"):
            methods.add(f["name"])
    gone = ["member " + w for w in want["fields"] if w not in fields] + ["member function " + w for w in want["methods"] if w not in methods]
    if gone:
        raise AnalysisBroken("anchors vanished (renamed or removed): %s" % ", ".join(gone))


def main():
    ap = argparse.ArgumentParser()
    ap.add_argument("prop")
    ap.add_argument("--tier", default=os.environ.get("VERIF_TIER") or "quick")
    ap.add_argument("--replay", default=None)
    a = ap.parse_args()
    if a.prop == "selftest":
        from . import selftest
        sys.exit(selftest.main(a.tier))
    tier = a.tier if a.tier in ("quick", "thorough") else "quick"
    try:
        mod = importlib.import_module("sa.rules." + a.prop)
        chk = report.Check(a.prop, tier, getattr(mod, "LEVEL", "other"))
        prog = facts.load_program()
        chk.units = list(prog.units)
        check_anchors(a.prop, prog)
        mod.run(chk, prog)
        # interface rule shared by all checks, over the functions defined in the files the property is anchored in
        from .rules import common
        common.decl_def_params(chk, prog, "RI", common.anchor_files(a.prop))
        mr = getattr(prog, "main_roles", None)
        if mr and (mr.get("renamed") or mr.get("spliced") or mr.get("named_steps") or mr.get("unresolved")):
            chk.notes.append("main() was read through its role model: renamed %s; helpers spliced %s; named steps expanded %s; roles not resolved %s"
                             % (mr.get("renamed"), mr.get("spliced"), mr.get("named_steps"), mr.get("unresolved")))
        broken = []
        if tier == "thorough":
            broken = thorough(chk, a.prop)
        rc = chk.finish()
        if rc == 0 and broken:
            print("ANALYSIS-BROKEN property=%s positive controls not detected: %s" % (a.prop, broken))
            sys.exit(2)
    except AnalysisBroken as e:
        print("ANALYSIS-BROKEN property=%s %s" % (a.prop, e))
        sys.exit(2)
    except Exception:
        traceback.print_exc()
        print("ANALYSIS-BROKEN property=%s internal error" % a.prop)
        sys.exit(2)
    sys.exit(rc)

if __name__ == "__main__":
    main()
