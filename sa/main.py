"""./check Cxx [--tier quick|thorough] [--replay path]"""
import argparse, importlib, os, sys, traceback
from . import facts, report
from .compdb import AnalysisBroken

def main():
    ap = argparse.ArgumentParser()
    ap.add_argument("prop")
    ap.add_argument("--tier", default=os.environ.get("VERIF_TIER") or "quick")
    ap.add_argument("--replay", default=None)
    a = ap.parse_args()
    if a.prop == "selftest":
        from . import selftest
        sys.exit(selftest.main(a.tier))
    tier = a.tier if a.tier in ("quick", "thorough") else "quick"
    try:
        mod = importlib.import_module("sa.rules." + a.prop)
        chk = report.Check(a.prop, tier, getattr(mod, "LEVEL", "other"))
        prog = facts.load_program()
        chk.units = list(prog.units)
        mod.run(chk, prog)
        if tier == "thorough" and hasattr(mod, "thorough"):
            mod.thorough(chk, prog)
        rc = chk.finish()
    except AnalysisBroken as e:
        print("ANALYSIS-BROKEN property=%s %s" % (a.prop, e))
        sys.exit(2)
    except Exception:
        traceback.print_exc()
        print("ANALYSIS-BROKEN property=%s internal error" % a.prop)
        sys.exit(2)
    sys.exit(rc)

if __name__ == "__main__":
    main()
