"""A small sign lattice over sympy expressions: '+', '0+' (>= 0), '-', '0-', '0', '?' (unknown).
Transfer functions for products, sums, even powers, exp, 1-exp(-t) with t >= 0, and a table of
symbols/functions whose sign is given by the caller."""
import sympy as sp

POS, NNEG, NEG, NPOS, ZERO, TOP = "+", "0+", "-", "0-", "0", "?"


def neg(s):
    return {POS: NEG, NNEG: NPOS, NEG: POS, NPOS: NNEG, ZERO: ZERO, TOP: TOP}[s]


def mul(a, b):
    if ZERO in (a, b):
        return ZERO
    if TOP in (a, b):
        return TOP
    sa, sb = a in (POS, NNEG), b in (POS, NNEG)
    strict = a in (POS, NEG) and b in (POS, NEG)
    positive = sa == sb
    if positive:
        return POS if strict else NNEG
    return NEG if strict else NPOS


def add(a, b):
    if a == ZERO:
        return b
    if b == ZERO:
        return a
    if TOP in (a, b):
        return TOP
    if a in (POS, NNEG) and b in (POS, NNEG):
        return POS if POS in (a, b) else NNEG
    if a in (NEG, NPOS) and b in (NEG, NPOS):
        return NEG if NEG in (a, b) else NPOS
    return TOP


def join(a, b):
    """least upper bound: the sign of a value that is either of sign a or of sign b"""
    if a == b:
        return a
    s = {a, b}
    if s <= {POS, NNEG, ZERO}:
        return NNEG
    if s <= {NEG, NPOS, ZERO}:
        return NPOS
    return TOP


def sign(e, table):
    """table: callable(expr) -> sign or None for atoms/functions it knows"""
    e = sp.sympify(e)
    t = table(e)
    if t is not None:
        return t
    if e.is_Function and e.func.__name__ == "ite" and len(e.args) == 3:
        return join(sign(e.args[1], table), sign(e.args[2], table))
    if e.is_Number:
        return ZERO if e == 0 else (POS if e > 0 else NEG)
    if e.is_Mul:
        s = POS
        for a in e.args:
            s = mul(s, sign(a, table))
        return s
    if e.is_Add:
        # a*(...) written out as a sum: look at the factored form first
        ft = sp.factor_terms(e)
        if ft.is_Mul and ft != e:
            s_ = sign(ft, table)
            if s_ != TOP:
                return s_
        # 1 - exp(-t), t >= 0  in [0,1)
        if len(e.args) == 2:
            c = [a for a in e.args if a.is_Number]
            o = [a for a in e.args if not a.is_Number]
            if len(c) == 1 and c[0] == 1 and len(o) == 1:
                m = -o[0]
                if m.func == sp.exp and sign(-m.args[0], table) in (NNEG, POS, ZERO):
                    return NNEG
        s = ZERO
        for a in e.args:
            s = add(s, sign(a, table))
        return s
    if e.is_Pow:
        b, x = e.args
        if x.is_Integer and x % 2 == 0:
            sb = sign(b, table)
            if x > 0:
                return POS if sb in (POS, NEG) else NNEG
            return POS        # 1/b^(2k): positive wherever it is defined
        sb = sign(b, table)
        if sb == POS:
            return POS
        if x.is_Integer and x > 0:
            return sb if x % 2 == 1 else NNEG
        if x.is_Integer and x < 0 and sb in (POS, NEG):
            return sb if (-x) % 2 == 1 else POS
        if sb == NNEG and x.is_positive:
            return NNEG
        return TOP
    if e.func == sp.exp:
        return POS
    if e.func in (sp.Abs,):
        return NNEG
    if e.func == sp.sqrt:
        return NNEG
    return TOP
