"""E5: argument/parameter role agreement for calls, constructor calls and
base/delegating constructor initialisers.

A forwarded argument that is a plain reference to a variable (a parameter of
the caller, or a local of `main`) must land on a callee parameter of the same
role.  Roles are names: the caller's parameter name must equal the callee's
parameter name, or the pair must be in the alias table (each alias entry was
confirmed by reading and carries a reason).  Arguments that are expressions,
literals or temporaries are not judged.
"""
from . import ast as A


def plain_var(arg):
    """the variable a forwarded argument denotes, looking through copies/moves/casts; None if not a plain variable"""
    n = A.strip(arg)
    seen = 0
    while n is not None and seen < 8:
        seen += 1
        k = n.get("k")
        if k == "DeclRefExpr" and n.get("dkind") in ("ParmVar", "Var"):
            return n
        if k in ("CXXConstructExpr", "CXXTemporaryObjectExpr") and len(n.get("args", [])) == 1:
            n = A.strip(n["args"][0]); continue
        if k == "CallExpr" and n.get("callee") in ("std::move", "std::forward") and n.get("args"):
            n = A.strip(n["args"][0]); continue
        return None
    return None


def pairs(call):
    """(position, callee param name, argument node) for a call-like node"""
    params = call.get("callee_params") or []
    args = call.get("args") or []
    if call.get("k") == "CXXOperatorCallExpr":
        return []
    return [(i, params[i] if i < len(params) else None, a) for i, a in enumerate(args)]


def judge(call, alias=None, same_type_only=True):
    """-> list of dict(pos, param, var, ok, reason) for every plain-variable argument"""
    alias = alias or {}
    out = []
    for i, pname, a in pairs(call):
        if a.get("k") == "CXXDefaultArgExpr":
            continue
        v = plain_var(a)
        if v is None or pname is None:
            continue
        vn = v["name"]
        norm_ = lambda x: x.lstrip("_").rstrip("s")      # header/definition spellings: bucketnumber(s)
        ok = vn == pname or pname in alias.get(vn, ()) or norm_(vn) == norm_(pname)
        out.append(dict(pos=i, param=pname, var=vn, ok=ok, line=a.get("line")))
    return out
