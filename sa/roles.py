"""Role inference for the local variables of main().

The rules talk about main's objects by the names they have in the pinned tree (grid_t1, wkm, laststep, ...).
A rename of a local is behaviour-preserving, so the names must not decide anything: before any rule runs,
every role is re-discovered from what the variable *is* (type, the option getter it is initialised from, the
shape of its initialiser) and what it is *used for* (which constructor parameter it is handed to, which
class is assigned to it, its place in the loop condition), by majority vote over several independent
signatures, and the facts of main are rewritten to the role names.  Because it is a vote, a change of one
aspect (say, the wrong variable handed to one constructor) does not move the role: the rules still see the
variable under its role name and report the changed aspect.  A role that cannot be resolved uniquely is
left alone; the rules that need it then fail as analysis-broken (exit 2), never as a violation.
"""
import math
import re
from . import ast as A

# signature kinds:
#  ("T", regex)            declared type matches
#  ("G", {getters})        the ProgramOptions getters called in the initialiser are exactly these
#  ("I", regex)            initialiser text matches (operators / functions, not variable names)
#  ("A", callee_rx, param) handed (possibly as shared_ptr(v), &v, *v) to parameter `param` of a call/constructor whose name matches
#  ("N", class_rx)         an object of that class is assigned to it (new, reset(new), make_unique/make_shared, direct construction)
#  ("U", (roles...))       its initialiser mentions the variables of all these roles
#  ("M", role)             it is mentioned in the initialiser of that role's variable
#  ("AF", role)            it is assigned from that role's variable
#  ("LC",) / ("LB",)       loop counter / loop bound of the simulation loop `while (a < b && ...)`
#  ("INC",)                incremented with ++ somewhere
ROLES = {
    "opts": [("T", r"^(vfps::)?ProgramOptions$")],
    "display": [("T", r"unique_ptr<.*Display>")],
    "oclh": [("T", r"oclhptr_t")],
    "ofname": [("G", {"getOutFile"}), ("A", r"HDF5File::HDF5File", "filename"), ("A", r"make_display", "ofname")],
    "derivationtype": [("G", {"getDerivationType"}), ("A", r"FokkerPlanckMap::FokkerPlanckMap", "dt")],
    "fptype": [("G", {"getFPType"}), ("A", r"FokkerPlanckMap::FokkerPlanckMap", "fptype")],
    "fptrack": [("G", {"getFPTrack"}), ("A", r"FokkerPlanckMap::FokkerPlanckMap", "fptrack")],
    "interpolationtype": [("G", {"getInterpolationPoints"}), ("A", r"RFKickMap::RFKickMap", "it"), ("A", r"WakePotentialMap::WakePotentialMap", "it")],
    "interpol_clamp": [("G", {"getInterpolationClamped"}), ("A", r"RFKickMap::RFKickMap", "interpol_clamp"), ("A", r"WakePotentialMap::WakePotentialMap", "interpol_clamp")],
    "verbose": [("G", {"getVerbosity"})],
    "renormalize": [("G", {"getRenormalizeCharge"})],
    "ps_bins": [("G", {"getGridSize"}), ("A", r"PhaseSpace::setSize", "x"), ("A", r"FokkerPlanckMap::FokkerPlanckMap", "xsize")],
    "pqsize": [("G", {"getPhaseSpaceSize"})],
    "qmin": [("A", r"PhaseSpace::PhaseSpace", "qmin"), ("A", r"makePSFromHDF5", "qmin"), ("A", r"makePSFromTXT", "qmin")],
    "qmax": [("A", r"PhaseSpace::PhaseSpace", "qmax"), ("A", r"makePSFromHDF5", "qmax"), ("A", r"makePSFromTXT", "qmax")],
    "pmin": [("A", r"PhaseSpace::PhaseSpace", "pmin"), ("A", r"makePSFromHDF5", "pmin"), ("A", r"makePSFromTXT", "pmin")],
    "pmax": [("A", r"PhaseSpace::PhaseSpace", "pmax"), ("A", r"makePSFromHDF5", "pmax"), ("A", r"makePSFromTXT", "pmax")],
    "sE": [("G", {"getEnergySpread"}), ("A", r"ElectricField::ElectricField", "sigma_delta")],
    "E0": [("G", {"getBeamEnergy"}), ("A", r"ElectricField::ElectricField", "E0"), ("A", r"DriftMap::DriftMap", "E0")],
    "dE": [("U", ("sE", "E0")), ("A", r"PhaseSpace::PhaseSpace", "pscale"), ("A", r"makePSFromHDF5", "yscale")],
    "f_rev": [("G", {"getRevolutionFrequency"}), ("A", r"ElectricField::ElectricField", "f_rev"), ("A", r"makeImpedance", "frev")],
    "R_bend": [("G", {"getBendingRadius"}), ("A", r"makeImpedance", "R_bend")],
    "f_RF": [("A", r"^vfps::RFKickMap::RFKickMap", "f_RF"), ("A", r"DynamicRFKickMap::DynamicRFKickMap", "f_RF"), ("U", ("f_rev",))],
    "gap": [("G", {"getVacuumChamberGap"}), ("A", r"makeImpedance", "gap")],
    "V_RF": [("G", {"getRFVoltage"})],
    "linearRF": [("G", {"getLinearRF"})],
    "V0": [("A", r"^vfps::RFKickMap::RFKickMap", "V0"), ("A", r"DynamicRFKickMap::DynamicRFKickMap", "V0"), ("I", r"pow\(.*4\)"), ("M", "V_eff")],
    "V_eff": [("I", r"^(std::)?sqrt\("), ("U", ("V_RF", "V0")), ("A", r"^vfps::RFKickMap::RFKickMap", "V_RF"), ("A", r"DynamicRFKickMap::DynamicRFKickMap", "V_RF"), ("M", "bl")],
    "fs": [("G", {"getSyncFreq"}), ("M", "dt")],
    "bl": [("A", r"PhaseSpace::PhaseSpace", "qscale"), ("A", r"makePSFromHDF5", "xscale"), ("A", r"makePSFromTXT", "xscale")],
    "filling": [("G", {"getBunchCurrents"})],
    "nbuckets": [("U", ("filling",)), ("I", r"\.size\(\)"), ("T", r"uint32_t")],
    "bucketnumbers": [("T", r"vector<uint32_t>"), ("A", r"ElectricField::ElectricField", "bucketnumbers"), ("A", r"ElectricField::ElectricField", "bucketnumber")],
    "bunches": [("T", r"vector<(vfps::)?integral_t>"), ("A", r"PhaseSpace::PhaseSpace", "filling"), ("M", "Ib")],
    "Ib": [("I", r"accumulate"), ("A", r"ElectricField::ElectricField", "Ib"), ("A", r"PhaseSpace::PhaseSpace", "beam_current")],
    "Qb": [("U", ("Ib", "f_rev")), ("A", r"PhaseSpace::PhaseSpace", "beam_charge"), ("A", r"makePSFromHDF5", "beam_charge")],
    "zoom": [("G", {"getStartDistZoom"}), ("A", r"PhaseSpace::PhaseSpace", "zoom")],
    "steps": [("G", {"getStepsPerTrev", "getStepsPerTsync"}), ("M", "dt"), ("M", "angle"), ("M", "laststep")],
    "outstep": [("G", {"getOutSteps"})],
    "t_damp": [("M", "e1"), ("I", r"<\s*0\)?\s*\?"), ("T", r"^const double")],
    "dt": [("U", ("fs", "steps")), ("A", r"ElectricField::ElectricField", "dt"), ("M", "revolutionpart"), ("M", "rf_mod_step")],
    "revolutionpart": [("U", ("f_rev", "dt")), ("A", r"ElectricField::ElectricField", "revolutionpart"), ("A", r"^vfps::RFKickMap::RFKickMap", "revolutionpart")],
    "spacing_ps": [("M", "spacing_bins"), ("M", "spaced_bins")],
    "spacing_bins": [("A", r"ElectricField::ElectricField", "spacing_bins"), ("I", r"round\(")],
    "fmax": [("A", r"makeImpedance", "fmax"), ("U", ("ps_bins", "pqsize", "bl"))],
    "padding": [("G", {"getPadding"}), ("M", "padded_bins")],
    "padded_bins": [("U", ("ps_bins", "padding")), ("I", r"ceil\("), ("A", r"makeImpedance", "nfreqs")],
    "spaced_bins": [("U", ("ps_bins", "nbuckets", "spacing_ps")), ("I", r"ceil\(")],
    "rf_phase_noise": [("G", {"getRFPhaseSpread"}), ("A", r"DynamicRFKickMap::DynamicRFKickMap", "phasespread")],
    "rf_ampl_noise": [("G", {"getRFAmplitudeSpread"}), ("A", r"DynamicRFKickMap::DynamicRFKickMap", "amplspread"), ("A", r"DynamicRFKickMap::DynamicRFKickMap", "mulnoise")],
    "rf_mod_ampl": [("G", {"getRFPhaseModAmplitude"}), ("A", r"DynamicRFKickMap::DynamicRFKickMap", "modampl")],
    "rf_mod_step": [("G", {"getRFPhaseModFrequency"}), ("A", r"DynamicRFKickMap::DynamicRFKickMap", "modtimeincrement"), ("U", ("dt",))],
    "angle": [("A", r"^vfps::RFKickMap::RFKickMap", "angle"), ("A", r"DynamicRFKickMap::DynamicRFKickMap", "angle"), ("I", r"two_pi.*/"), ("U", ("steps",)), ("M", "slip")],
    "laststep": [("LB",), ("A", r"DynamicRFKickMap::DynamicRFKickMap", "steps"), ("U", ("steps",)), ("I", r"ceil\(")],
    "simulationstep": [("LC",), ("INC",), ("T", r"uint32_t")],
    "grid_t1": [("T", r"shared_ptr<(vfps::)?PhaseSpace>"), ("A", r"ElectricField::ElectricField", "ps"), ("A", r"DriftMap::DriftMap", "in"), ("A", r"FokkerPlanckMap::FokkerPlanckMap", "out"),
                ("A", r"WakePotentialMap::WakePotentialMap", "in"), ("A", r"^vfps::RFKickMap::RFKickMap", "out")],
    "grid_t2": [("N", r"PhaseSpace$"), ("A", r"WakePotentialMap::WakePotentialMap", "out"), ("A", r"^vfps::RFKickMap::RFKickMap", "in"), ("A", r"DynamicRFKickMap::DynamicRFKickMap", "in")],
    "grid_t3": [("N", r"PhaseSpace$"), ("A", r"DriftMap::DriftMap", "out"), ("A", r"FokkerPlanckMap::FokkerPlanckMap", "in")],
    "drfm": [("T", r"shared_ptr<(vfps::)?DynamicRFKickMap>"), ("N", r"DynamicRFKickMap$")],
    "rfm": [("T", r"shared_ptr<(vfps::)?SourceMap>"), ("N", r"^(vfps::)?RFKickMap$"), ("AF", "drfm")],
    "slip": [("A", r"DriftMap::DriftMap", "slip"), ("T", r"vector<(vfps::)?meshaxis_t>"), ("U", ("angle",))],
    "drm": [("N", r"DriftMap$"), ("T", r"DriftMap")],
    "e1": [("A", r"FokkerPlanckMap::FokkerPlanckMap", "e1"), ("U", ("t_damp", "fs", "steps"))],
    "fpm": [("N", r"FokkerPlanckMap$"), ("T", r"SourceMap \*$")],
    "wake_impedance": [("T", r"shared_ptr<(vfps::)?Impedance>"), ("I", r"makeImpedance\("), ("U", ("spaced_bins", "gap")), ("I", r"\?")],
    "rdtn_impedance": [("T", r"shared_ptr<(vfps::)?Impedance>"), ("I", r"makeImpedance\("), ("I", r"CXXDefaultArgExpr"), ("U", ("padded_bins",))],
    "rdtn_field": [("T", r"^(vfps::)?ElectricField$")],
    "wake_field": [("T", r"ElectricField \*$"), ("N", r"ElectricField$")],
    "wkm": [("T", r"WakeKickMap \*$"), ("N", r"WakePotentialMap$")],
    "wm": [("T", r"SourceMap \*$"), ("AF", "wkm"), ("N", r"Identity$")],
    "trackme": [("T", r"vector<(vfps::)?PhaseSpace::Position>"), ("A", r"applyToAll", "particles"), ("A", r"appendTracks", "p")],
    "hdf_file": [("T", r"HDF5File \*$"), ("N", r"HDF5File$")],
    "h5save": [("G", {"getSavePhaseSpace"})],
    "outstepnr": [("T", r"uint32_t"), ("INC",), ("I", r"^0$"), ("M", "at")],
    "at": [("T", r"AppendType")],
    "updatetime": [("T", r"^const float$"), ("I", r"^2\.0f?$")],
}
# fpm and wm are both `SourceMap *` and both may receive an Identity: the class-specific assignment decides
TIE_BREAK_EXCLUDE = {"fpm": {"AF"}, "wm": set()}


def _core_name(a):
    a = A.strip(a)
    while a.get("k") in ("CXXConstructExpr", "CXXBindTemporaryExpr", "MaterializeTemporaryExpr", "CXXFunctionalCastExpr") and len(a.get("args", a.get("c", []))) == 1:
        a = A.strip((a.get("args") or a.get("c"))[0])
    while a.get("k") == "UnaryOperator" and a.get("op") in ("&", "*"):
        a = A.strip(a["c"][0])
    if a.get("k") == "CXXOperatorCallExpr" and a.get("op") == "*" and a.get("args"):
        a = A.strip(a["args"][0])
    d = A.declref(a)
    return d


class MainVars:
    def __init__(self, prog):
        self.prog = prog
        self.fn = fn = prog.fn("main")
        self.vars = {}      # decl id -> feature dict
        order = 0
        for x in A.walk(fn["body"]):
            if x["k"] == "DeclStmt":
                for d in x["decls"]:
                    if d.get("k") == "VarDecl":
                        self.vars[d["decl"]] = dict(node=d, name=d["name"], order=order, type=(d.get("type") or "") + " | " + (d.get("ctype") or ""),
                                                    types=[d.get("type") or "", d.get("ctype") or ""], getters=set(), init_text="", init_refs=set(), args=set(),
                                                    news=set(), assigned_from=set(), lc=False, lb=False, inc=False)
                        order += 1
        for v in self.vars.values():
            d = v["node"]
            if "init" in d:
                init = d["init"]
                v["init_text"] = A.show(A.strip(init)).replace("\n", " ")
                for y in A.walk(init):
                    if y.get("k") == "CXXMemberCallExpr" and (y.get("callee_class") or "") == "vfps::ProgramOptions":
                        v["getters"].add((y.get("callee") or "").split("::")[-1])
                    if y.get("k") == "DeclRefExpr" and y.get("decl") in self.vars:
                        v["init_refs"].add(y["decl"])
                self._news_from(init, v)
                ce = A.strip(init, casts=False)
                if ce.get("k") == "CXXConstructExpr" and (ce.get("callee_class") or "").startswith("vfps::"):
                    v["news"].add(ce["callee_class"])
        for x in A.walk(fn["body"]):
            k = x.get("k")
            if k in ("CXXConstructExpr", "CallExpr", "CXXMemberCallExpr", "CXXTemporaryObjectExpr") and x.get("callee_params"):
                nm = x.get("callee") or ((x.get("callee_class") or "") + "::" + (x.get("callee_class") or "").split("::")[-1])
                self._args(nm, x.get("callee_params"), x.get("args", []))
            if k == "CallExpr" and re.search(r"make_(unique|shared)", x.get("callee") or ""):
                cls = self._made_class(x)
                if cls:
                    cands = [f for f in self.prog.fns(cls + "::" + cls.split("::")[-1])] if hasattr(self.prog, "fns") else []
                    cands = [f for f in cands if len(f.get("params", [])) >= len(x.get("args", []))]
                    if cands:
                        f = sorted(cands, key=lambda f_: len(f_["params"]))[0]
                        self._args(cls + "::" + cls.split("::")[-1], [p["name"] for p in f["params"]], x.get("args", []))
        for y, lhs, op, rhs in A.assignments_in(fn["body"]):
            d = A.declref(lhs)
            if d is None or d["decl"] not in self.vars or op != "=":
                continue
            v = self.vars[d["decl"]]
            self._news_from(rhs, v)
            r = A.declref(rhs)
            if r is not None and r.get("decl") in self.vars:
                v["assigned_from"].add(r["decl"])
        for x in A.walk(fn["body"]):
            if x.get("k") == "CXXMemberCallExpr" and (x.get("callee") or "").split("::")[-1] == "reset":
                o = A.declref(A.call_object(x)) if A.call_object(x) is not None else None
                if o is not None and o.get("decl") in self.vars and x.get("args"):
                    self._news_from(x["args"][0], self.vars[o["decl"]])
            if x.get("k") == "CXXOperatorCallExpr" and x.get("op") == "=" and len(x.get("args", [])) == 2:
                o = A.declref(x["args"][0])
                if o is not None and o.get("decl") in self.vars:
                    self._news_from(x["args"][1], self.vars[o["decl"]])
                    r = A.declref(x["args"][1])
                    if r is not None and r.get("decl") in self.vars:
                        self.vars[o["decl"]]["assigned_from"].add(r["decl"])
            if x.get("k") == "UnaryOperator" and x.get("op") in ("++",):
                o = A.declref(x["c"][0])
                if o is not None and o.get("decl") in self.vars:
                    self.vars[o["decl"]]["inc"] = True
            if x.get("k") == "WhileStmt":
                for c in A.walk(x["cond"]):
                    if c.get("k") == "BinaryOperator" and c.get("op") == "<":
                        l, r = A.declref(c["c"][0]), A.declref(c["c"][1])
                        if l is not None and r is not None and l.get("decl") in self.vars and r.get("decl") in self.vars:
                            if "abort" in A.show(x["cond"]):
                                self.vars[l["decl"]]["lc"] = True
                                self.vars[r["decl"]]["lb"] = True

    def _made_class(self, x):
        m = re.search(r"make_(?:unique|shared)<([\w:]+)", x.get("callee_sig") or "") or re.search(r"(?:unique_ptr|shared_ptr)<([\w:]+)>", x.get("ctype") or "")
        if not m:
            m = re.search(r"_NonArray<([\w:]+)>", x.get("ctype") or "") or re.search(r"__unique_ptr_t<([\w:]+)>", x.get("ctype") or "")
        if not m:
            return None
        c = m.group(1)
        return c if c.startswith("vfps::") else "vfps::" + c

    def _news_from(self, e, v):
        for y in A.walk(e):
            if y.get("k") == "CXXNewExpr" and y.get("alloc_type"):
                t = y["alloc_type"]
                v["news"].add(t if t.startswith("vfps::") else "vfps::" + t)
            if y.get("k") == "CallExpr" and re.search(r"make_(unique|shared)", y.get("callee") or ""):
                c = self._made_class(y)
                if c:
                    v["news"].add(c)

    def _args(self, nm, params, args):
        for p, a in zip(params, args):
            d = _core_name(a)
            if d is not None and d.get("decl") in self.vars and p:
                self.vars[d["decl"]]["args"].add((nm, p))


def _match(sig, v, mv, resolved):
    """-> True / False / None (depends on a role not resolved yet)"""
    k = sig[0]
    if k == "T":
        return any(re.search(sig[1], t) for t in v["types"])
    if k == "G":
        return v["getters"] == set(sig[1])
    if k == "I":
        return bool(re.search(sig[1], v["init_text"]))
    if k == "A":
        return any(re.search(sig[1], nm) and p == sig[2] for nm, p in v["args"])
    if k == "N":
        return any(re.search(sig[1], c) for c in v["news"])
    if k == "U":
        if any(r not in resolved for r in sig[1]):
            return None
        return all(resolved[r] in v["init_refs"] for r in sig[1])
    if k == "M":
        if sig[1] not in resolved:
            return None
        return v["node"]["decl"] in mv.vars[resolved[sig[1]]]["init_refs"]
    if k == "AF":
        if sig[1] not in resolved:
            return None
        return resolved[sig[1]] in v["assigned_from"]
    if k == "LC":
        return v["lc"]
    if k == "LB":
        return v["lb"]
    if k == "INC":
        return v["inc"]
    return False


def infer(prog):
    """-> (role -> decl id, report list)"""
    mv = MainVars(prog)
    resolved = {}
    taken = set()
    report = []
    for _ in range(6):
        progress = False
        for role, sigs in ROLES.items():
            if role in resolved:
                continue
            need = max(1, int(math.ceil(len(sigs) / 2.0)))
            scores = []
            pending = False
            for decl, v in mv.vars.items():
                if decl in taken:
                    continue
                sc = 0
                for s in sigs:
                    r = _match(s, v, mv, resolved)
                    if r is None:
                        pending = True
                    elif r:
                        sc += 1
                if sc:
                    scores.append((sc, -v["order"], decl))
            scores.sort(reverse=True)
            if not scores:
                continue
            best = scores[0]
            second = scores[1][0] if len(scores) > 1 else 0
            # resolve when the best candidate has a majority of the signatures and no rival can catch up
            remaining = sum(1 for s in sigs if s[0] in ("U", "M", "AF") and any(r_ not in resolved for r_ in (s[1] if isinstance(s[1], tuple) else (s[1],))))
            if best[0] >= need and best[0] > second + (remaining if pending else 0):
                resolved[role] = best[2]
                taken.add(best[2])
                progress = True
        if not progress:
            break
    # last pass: accept a unique best with a majority even if dependent signatures are still open
    for role, sigs in ROLES.items():
        if role in resolved:
            continue
        need = max(1, int(math.ceil(len(sigs) / 2.0)))
        scores = []
        for decl, v in mv.vars.items():
            if decl in taken:
                continue
            sc = sum(1 for s in sigs if _match(s, v, mv, resolved))
            if sc:
                scores.append((sc, -v["order"], decl))
        scores.sort(reverse=True)
        if scores and scores[0][0] >= need and (len(scores) == 1 or scores[0][0] > scores[1][0]):
            resolved[role] = scores[0][2]
            taken.add(scores[0][2])
        else:
            report.append("role %s not resolved (%s)" % (role, [(s_, mv.vars[d_]["name"]) for s_, _, d_ in scores[:3]]))
    return mv, resolved, report


def canonicalise_main(prog):
    """Rewrite main's facts so that every resolved role carries its role name. -> dict(actual name -> role name)"""
    try:
        mv, resolved, report = infer(prog)
    except Exception as e:    # role inference must never take a check down by itself
        prog.main_roles = dict(renamed={}, unresolved=["role inference failed: %r" % (e,)], resolved={})
        return {}
    rename = {}       # decl id -> new name
    for role, decl in resolved.items():
        if mv.vars[decl]["name"] != role:
            rename[decl] = role
    # a different variable that happens to carry a role name must get out of the way
    role_decl = set(resolved.values())
    for decl, v in mv.vars.items():
        if v["name"] in ROLES and decl not in role_decl and (v["name"] in resolved) and resolved[v["name"]] != decl:
            rename[decl] = v["name"] + "__other"
    renamed = {}
    if rename:
        for x in A.walk(mv.fn["body"]):
            if x.get("k") == "DeclRefExpr" and x.get("decl") in rename:
                x["name"] = rename[x["decl"]]
                if "qname" in x:
                    x["qname"] = rename[x["decl"]]
            if x.get("k") == "DeclStmt":
                for d in x["decls"]:
                    if d.get("decl") in rename:
                        renamed[d["name"]] = rename[d["decl"]]
                        d["name"] = rename[d["decl"]]
            if x.get("k") == "VarDecl" and x.get("decl") in rename:
                x["name"] = rename[x["decl"]]
            if x.get("k") == "LambdaExpr":
                for c in x.get("captures", []) or []:
                    if isinstance(c, dict) and c.get("decl") in rename:
                        c["name"] = rename[c["decl"]]
    prog.main_roles = dict(renamed=renamed, unresolved=report, resolved={r: mv.vars[d]["name"] for r, d in resolved.items()})
    return renamed
