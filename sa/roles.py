"""Role inference for the local variables of main().

The rules talk about main's objects by the names they have in the pinned tree (grid_t1, wkm, laststep, ...).
A rename of a local is behaviour-preserving, so the names must not decide anything: before any rule runs,
every role is re-discovered from what the variable *is* (type, the option getter it is initialised from, the
shape of its initialiser) and what it is *used for* (which constructor parameter it is handed to, which
class is assigned to it, its place in the loop condition), by majority vote over several independent
signatures, and the facts of main are rewritten to the role names.  Because it is a vote, a change of one
aspect (say, the wrong variable handed to one constructor) does not move the role: the rules still see the
variable under its role name and report the changed aspect.  A role that cannot be resolved uniquely is
left alone; the rules that need it then fail as analysis-broken (exit 2), never as a violation.
"""
import math
import re
from . import ast as A

# signature kinds:
#  ("T", regex)            declared type matches
#  ("G", {getters})        the ProgramOptions getters called in the initialiser are exactly these
#  ("I", regex)            initialiser text matches (operators / functions, not variable names)
#  ("A", callee_rx, param) handed (possibly as shared_ptr(v), &v, *v) to parameter `param` of a call/constructor whose name matches
#  ("N", class_rx)         an object of that class is assigned to it (new, reset(new), make_unique/make_shared, direct construction)
#  ("U", (roles...))       its initialiser mentions the variables of all these roles
#  ("M", role)             it is mentioned in the initialiser of that role's variable
#  ("AF", role)            it is assigned from that role's variable
#  ("LC",) / ("LB",)       loop counter / loop bound of the simulation loop `while (a < b && ...)`
#  ("INC",)                incremented with ++ somewhere
ROLES = {
    "opts": [("T", r"^(vfps::)?ProgramOptions$")],
    "display": [("T", r"unique_ptr<.*Display>")],
    "oclh": [("T", r"oclhptr_t")],
    "ofname": [("G", {"getOutFile"}), ("A", r"HDF5File::HDF5File", "filename"), ("A", r"make_display", "ofname")],
    "derivationtype": [("G", {"getDerivationType"}), ("A", r"FokkerPlanckMap::FokkerPlanckMap", "dt")],
    "fptype": [("G", {"getFPType"}), ("A", r"FokkerPlanckMap::FokkerPlanckMap", "fptype")],
    "fptrack": [("G", {"getFPTrack"}), ("A", r"FokkerPlanckMap::FokkerPlanckMap", "fptrack")],
    "interpolationtype": [("G", {"getInterpolationPoints"}), ("A", r"RFKickMap::RFKickMap", "it"), ("A", r"WakePotentialMap::WakePotentialMap", "it")],
    "interpol_clamp": [("G", {"getInterpolationClamped"}), ("A", r"RFKickMap::RFKickMap", "interpol_clamp"), ("A", r"WakePotentialMap::WakePotentialMap", "interpol_clamp")],
    "verbose": [("G", {"getVerbosity"})],
    "renormalize": [("G", {"getRenormalizeCharge"})],
    "ps_bins": [("G", {"getGridSize"}), ("A", r"PhaseSpace::setSize", "x"), ("A", r"FokkerPlanckMap::FokkerPlanckMap", "xsize")],
    "pqsize": [("G", {"getPhaseSpaceSize"})],
    "qmin": [("A", r"PhaseSpace::PhaseSpace", "qmin"), ("A", r"makePSFromHDF5", "qmin"), ("A", r"makePSFromTXT", "qmin")],
    "qmax": [("A", r"PhaseSpace::PhaseSpace", "qmax"), ("A", r"makePSFromHDF5", "qmax"), ("A", r"makePSFromTXT", "qmax")],
    "pmin": [("A", r"PhaseSpace::PhaseSpace", "pmin"), ("A", r"makePSFromHDF5", "pmin"), ("A", r"makePSFromTXT", "pmin")],
    "pmax": [("A", r"PhaseSpace::PhaseSpace", "pmax"), ("A", r"makePSFromHDF5", "pmax"), ("A", r"makePSFromTXT", "pmax")],
    "sE": [("G", {"getEnergySpread"}), ("A", r"ElectricField::ElectricField", "sigma_delta")],
    "E0": [("G", {"getBeamEnergy"}), ("A", r"ElectricField::ElectricField", "E0"), ("A", r"DriftMap::DriftMap", "E0")],
    "dE": [("U", ("sE", "E0")), ("A", r"PhaseSpace::PhaseSpace", "pscale"), ("A", r"makePSFromHDF5", "yscale")],
    "f_rev": [("G", {"getRevolutionFrequency"}), ("A", r"ElectricField::ElectricField", "f_rev"), ("A", r"makeImpedance", "frev")],
    "R_bend": [("G", {"getBendingRadius"}), ("A", r"makeImpedance", "R_bend")],
    "f_RF": [("A", r"^vfps::RFKickMap::RFKickMap", "f_RF"), ("A", r"DynamicRFKickMap::DynamicRFKickMap", "f_RF"), ("U", ("f_rev",))],
    "gap": [("G", {"getVacuumChamberGap"}), ("A", r"makeImpedance", "gap")],
    "V_RF": [("G", {"getRFVoltage"})],
    "linearRF": [("G", {"getLinearRF"})],
    "V0": [("A", r"^vfps::RFKickMap::RFKickMap", "V0"), ("A", r"DynamicRFKickMap::DynamicRFKickMap", "V0"), ("I", r"pow\(.*4\)"), ("M", "V_eff")],
    "V_eff": [("I", r"^(std::)?sqrt\("), ("U", ("V_RF", "V0")), ("A", r"^vfps::RFKickMap::RFKickMap", "V_RF"), ("A", r"DynamicRFKickMap::DynamicRFKickMap", "V_RF"), ("M", "bl")],
    "fs": [("G", {"getSyncFreq"}), ("M", "dt")],
    "bl": [("A", r"PhaseSpace::PhaseSpace", "qscale"), ("A", r"makePSFromHDF5", "xscale"), ("A", r"makePSFromTXT", "xscale")],
    "filling": [("G", {"getBunchCurrents"})],
    "nbuckets": [("U", ("filling",)), ("I", r"\.size\(\)"), ("T", r"uint32_t")],
    "bucketnumbers": [("T", r"vector<uint32_t>"), ("A", r"ElectricField::ElectricField", "bucketnumbers"), ("A", r"ElectricField::ElectricField", "bucketnumber")],
    "bunches": [("T", r"vector<(vfps::)?integral_t>"), ("A", r"PhaseSpace::PhaseSpace", "filling"), ("M", "Ib")],
    "Ib": [("I", r"accumulate"), ("A", r"ElectricField::ElectricField", "Ib"), ("A", r"PhaseSpace::PhaseSpace", "beam_current")],
    "Qb": [("U", ("Ib", "f_rev")), ("A", r"PhaseSpace::PhaseSpace", "beam_charge"), ("A", r"makePSFromHDF5", "beam_charge")],
    "zoom": [("G", {"getStartDistZoom"}), ("A", r"PhaseSpace::PhaseSpace", "zoom")],
    "steps": [("G", {"getStepsPerTrev", "getStepsPerTsync"}), ("M", "dt"), ("M", "angle"), ("M", "laststep")],
    "outstep": [("G", {"getOutSteps"})],
    "t_damp": [("M", "e1"), ("I", r"<\s*0\)?\s*\?"), ("T", r"^const double")],
    "dt": [("U", ("fs", "steps")), ("A", r"ElectricField::ElectricField", "dt"), ("M", "revolutionpart"), ("M", "rf_mod_step")],
    "revolutionpart": [("U", ("f_rev", "dt")), ("A", r"ElectricField::ElectricField", "revolutionpart"), ("A", r"^vfps::RFKickMap::RFKickMap", "revolutionpart")],
    "spacing_ps": [("M", "spacing_bins"), ("M", "spaced_bins")],
    "spacing_bins": [("A", r"ElectricField::ElectricField", "spacing_bins"), ("I", r"round\(")],
    "fmax": [("A", r"makeImpedance", "fmax"), ("U", ("ps_bins", "pqsize", "bl"))],
    "padding": [("G", {"getPadding"}), ("M", "padded_bins")],
    "padded_bins": [("U", ("ps_bins", "padding")), ("I", r"ceil\("), ("A", r"makeImpedance", "nfreqs")],
    "spaced_bins": [("U", ("ps_bins", "nbuckets", "spacing_ps")), ("I", r"ceil\(")],
    "rf_phase_noise": [("G", {"getRFPhaseSpread"}), ("A", r"DynamicRFKickMap::DynamicRFKickMap", "phasespread")],
    "rf_ampl_noise": [("G", {"getRFAmplitudeSpread"}), ("A", r"DynamicRFKickMap::DynamicRFKickMap", "amplspread"), ("A", r"DynamicRFKickMap::DynamicRFKickMap", "mulnoise")],
    "rf_mod_ampl": [("G", {"getRFPhaseModAmplitude"}), ("A", r"DynamicRFKickMap::DynamicRFKickMap", "modampl")],
    "rf_mod_step": [("G", {"getRFPhaseModFrequency"}), ("A", r"DynamicRFKickMap::DynamicRFKickMap", "modtimeincrement"), ("U", ("dt",))],
    "angle": [("A", r"^vfps::RFKickMap::RFKickMap", "angle"), ("A", r"DynamicRFKickMap::DynamicRFKickMap", "angle"), ("I", r"two_pi.*/"), ("U", ("steps",)), ("M", "slip")],
    "laststep": [("LB",), ("A", r"DynamicRFKickMap::DynamicRFKickMap", "steps"), ("U", ("steps",)), ("I", r"ceil\(")],
    "simulationstep": [("LC",), ("INC",), ("T", r"uint32_t")],
    "grid_t1": [("T", r"shared_ptr<(vfps::)?PhaseSpace>"), ("A", r"ElectricField::ElectricField", "ps"), ("A", r"DriftMap::DriftMap", "in"), ("A", r"FokkerPlanckMap::FokkerPlanckMap", "out"),
                ("A", r"WakePotentialMap::WakePotentialMap", "in"), ("A", r"^vfps::RFKickMap::RFKickMap", "out")],
    "grid_t2": [("N", r"PhaseSpace$"), ("A", r"WakePotentialMap::WakePotentialMap", "out"), ("A", r"^vfps::RFKickMap::RFKickMap", "in"), ("A", r"DynamicRFKickMap::DynamicRFKickMap", "in")],
    "grid_t3": [("N", r"PhaseSpace$"), ("A", r"DriftMap::DriftMap", "out"), ("A", r"FokkerPlanckMap::FokkerPlanckMap", "in")],
    "drfm": [("T", r"shared_ptr<(vfps::)?DynamicRFKickMap>"), ("N", r"DynamicRFKickMap$")],
    "rfm": [("T", r"shared_ptr<(vfps::)?SourceMap>"), ("N", r"^(vfps::)?RFKickMap$"), ("AF", "drfm")],
    "slip": [("A", r"DriftMap::DriftMap", "slip"), ("T", r"vector<(vfps::)?meshaxis_t>"), ("U", ("angle",))],
    "drm": [("N", r"DriftMap$"), ("T", r"DriftMap"), ("RCV", "apply")],
    "e1": [("A", r"FokkerPlanckMap::FokkerPlanckMap", "e1"), ("U", ("t_damp", "fs", "steps"))],
    "fpm": [("N", r"FokkerPlanckMap$"), ("T", r"SourceMap \*"), ("RCV", "apply"), ("RCV", "applyToAll")],
    "wake_impedance": [("T", r"shared_ptr<(vfps::)?Impedance>"), ("I", r"makeImpedance\("), ("U", ("spaced_bins", "gap")), ("I", r"\?"), ("NT",), ("I", r"use_csr|collimator|impedance_file"),
                       ("NI", r"CXXDefaultArgExpr")],
    "rdtn_impedance": [("T", r"shared_ptr<(vfps::)?Impedance>"), ("I", r"makeImpedance\("), ("I", r"CXXDefaultArgExpr"), ("U", ("padded_bins",)), ("NNT",)],
    "rdtn_field": [("T", r"^(vfps::)?ElectricField$")],
    "wake_field": [("T", r"ElectricField \*$"), ("N", r"ElectricField$")],
    "wkm": [("T", r"WakeKickMap \*$"), ("N", r"WakePotentialMap$")],
    "wm": [("T", r"SourceMap \*"), ("AF", "wkm"), ("N", r"Identity$"), ("RCV", "apply")],
    "trackme": [("T", r"vector<(vfps::)?PhaseSpace::Position>"), ("A", r"applyToAll", "particles"), ("A", r"appendTracks", "p")],
    "hdf_file": [("T", r"HDF5File \*$"), ("N", r"HDF5File$")],
    "h5save": [("G", {"getSavePhaseSpace"})],
    "outstepnr": [("T", r"uint32_t"), ("INC",), ("I", r"^0$"), ("M", "at")],
    "at": [("T", r"AppendType")],
    "updatetime": [("T", r"^const float$"), ("I", r"^2\.0f?$")],
}
# fpm and wm are both `SourceMap *` and both may receive an Identity: the class-specific assignment decides
TIE_BREAK_EXCLUDE = {"fpm": {"AF"}, "wm": set()}


def _core_name(a):
    a = A.strip(a)
    while a.get("k") in ("CXXConstructExpr", "CXXBindTemporaryExpr", "MaterializeTemporaryExpr", "CXXFunctionalCastExpr") and len(a.get("args", a.get("c", []))) == 1:
        a = A.strip((a.get("args") or a.get("c"))[0])
    while a.get("k") == "UnaryOperator" and a.get("op") in ("&", "*"):
        a = A.strip(a["c"][0])
    if a.get("k") == "CXXOperatorCallExpr" and a.get("op") == "*" and a.get("args"):
        a = A.strip(a["args"][0])
    d = A.declref(a)
    return d


class MainVars:
    def __init__(self, prog):
        self.prog = prog
        self.fn = fn = prog.fn("main")
        self.vars = {}      # decl id -> feature dict
        order = 0
        for x in A.walk(fn["body"]):
            if x["k"] == "DeclStmt":
                for d in x["decls"]:
                    if d.get("k") == "VarDecl":
                        if d.get("helper_local"):
                            self.helper_locals = getattr(self, "helper_locals", {})
                            self.helper_locals[d["decl"]] = d
                            continue
                        self.vars[d["decl"]] = dict(node=d, name=d["name"], order=order, type=(d.get("type") or "") + " | " + (d.get("ctype") or ""),
                                                    types=[d.get("type") or "", d.get("ctype") or ""], getters=set(), init_text="", init_refs=set(), args=set(),
                                                    news=set(), assigned_from=set(), lc=False, lb=False, inc=False)
                        order += 1
        for v in self.vars.values():
            d = v["node"]
            if "init" in d:
                init = d["init"]
                v["init_text"] = A.show(A.strip(init)).replace("\n", " ")
                for y in A.walk(init):
                    if y.get("k") == "CXXMemberCallExpr" and (y.get("callee_class") or "") == "vfps::ProgramOptions":
                        v["getters"].add((y.get("callee") or "").split("::")[-1])
                    if y.get("k") == "DeclRefExpr" and y.get("decl") in self.vars:
                        v["init_refs"].add(y["decl"])
                self._news_from(init, v)
                ce = A.strip(init, casts=False)
                if ce.get("k") == "CXXConstructExpr" and (ce.get("callee_class") or "").startswith("vfps::"):
                    v["news"].add(ce["callee_class"])
        for x in A.walk(fn["body"]):
            k = x.get("k")
            if k in ("CXXConstructExpr", "CallExpr", "CXXMemberCallExpr", "CXXTemporaryObjectExpr") and x.get("callee_params"):
                nm = x.get("callee") or ((x.get("callee_class") or "") + "::" + (x.get("callee_class") or "").split("::")[-1])
                self._args(nm, x.get("callee_params"), x.get("args", []))
            if k == "CallExpr" and re.search(r"make_(unique|shared)", x.get("callee") or ""):
                cls = self._made_class(x)
                if cls:
                    cands = [f for f in self.prog.fns(cls + "::" + cls.split("::")[-1])] if hasattr(self.prog, "fns") else []
                    cands = [f for f in cands if len(f.get("params", [])) >= len(x.get("args", []))]
                    if cands:
                        f = sorted(cands, key=lambda f_: len(f_["params"]))[0]
                        self._args(cls + "::" + cls.split("::")[-1], [p["name"] for p in f["params"]], x.get("args", []))
        hl = getattr(self, "helper_locals", {})
        # what a helper's local was built from (its initialiser and every assignment to it), to be credited to the variable that
        # receives the helper's result
        hl_src = {}
        for dd, dn in hl.items():
            if isinstance(dn.get("init"), dict):
                hl_src.setdefault(dd, []).append(dn["init"])
        for y, lhs, op, rhs in A.assignments_in(fn["body"]):
            d0 = A.declref(lhs)
            if d0 is not None and d0.get("decl") in hl:
                hl_src.setdefault(d0["decl"], []).append(rhs)
        for y, lhs, op, rhs in A.assignments_in(fn["body"]):
            d = A.declref(lhs)
            if d is None or d["decl"] not in self.vars or op != "=":
                continue
            v = self.vars[d["decl"]]
            if y.get("from_return"):
                # `v = helper(...)` after splicing: v is initialised with what the helper returns
                srcs, seen_ = [rhs], set()
                texts = []
                while srcs:
                    e_ = srcs.pop()
                    texts.append(A.show(A.strip(e_)).replace("\n", " "))
                    for z in A.walk(e_):
                        if z.get("k") == "CXXMemberCallExpr" and (z.get("callee_class") or "") == "vfps::ProgramOptions":
                            v["getters"].add((z.get("callee") or "").split("::")[-1])
                        if z.get("k") == "DeclRefExpr" and z.get("decl") in self.vars:
                            v["init_refs"].add(z["decl"])
                        if z.get("k") == "DeclRefExpr" and z.get("decl") in hl and z["decl"] not in seen_:
                            seen_.add(z["decl"])
                            srcs += hl_src.get(z["decl"], [])
                v["init_text"] = (v["init_text"] + " " + " ".join(texts)).strip()
            self._news_from(rhs, v)
            r = A.declref(rhs)
            if r is not None and r.get("decl") in self.vars:
                v["assigned_from"].add(r["decl"])
        for x in A.walk(fn["body"]):
            if x.get("k") == "CXXMemberCallExpr" and (x.get("callee") or "").split("::")[-1] == "reset":
                o = A.declref(A.call_object(x)) if A.call_object(x) is not None else None
                if o is not None and o.get("decl") in self.vars and x.get("args"):
                    self._news_from(x["args"][0], self.vars[o["decl"]])
            if x.get("k") == "CXXOperatorCallExpr" and x.get("op") == "=" and len(x.get("args", [])) == 2:
                o = A.declref(x["args"][0])
                if o is not None and o.get("decl") in self.vars:
                    self._news_from(x["args"][1], self.vars[o["decl"]])
                    r = A.declref(x["args"][1])
                    if r is not None and r.get("decl") in self.vars:
                        self.vars[o["decl"]]["assigned_from"].add(r["decl"])
            if x.get("k") == "CXXMemberCallExpr" and A.call_object(x) is not None:
                o_ = A.strip(A.call_object(x))
                while o_ is not None and ((o_.get("k") == "CXXOperatorCallExpr" and o_.get("op") in ("->", "*") and o_.get("args")) or
                                          (o_.get("k") == "UnaryOperator" and o_.get("op") in ("*", "&") and o_.get("c"))):
                    o_ = A.strip(o_["args"][0] if o_.get("k") == "CXXOperatorCallExpr" else o_["c"][0])
                d_ = A.declref(o_) if o_ is not None else None
                if d_ is not None and d_.get("decl") in self.vars:
                    self.vars[d_["decl"]].setdefault("receives", set()).add((x.get("callee") or "").split("::")[-1])
            if x.get("k") == "UnaryOperator" and x.get("op") in ("++",):
                o = A.declref(x["c"][0])
                if o is not None and o.get("decl") in self.vars:
                    self.vars[o["decl"]]["inc"] = True
            if x.get("k") == "BinaryOperator" and x.get("op") in ("==", "!=") and len(x.get("c", [])) == 2:
                for a_, b_ in ((x["c"][0], x["c"][1]), (x["c"][1], x["c"][0])):
                    if A.strip(b_).get("k") in ("CXXNullPtrLiteralExpr", "GNUNullExpr"):
                        d_ = A.declref(a_)
                        if d_ is None:
                            for y in A.walk(a_):
                                if y.get("k") == "DeclRefExpr" and y.get("decl") in self.vars:
                                    d_ = y
                        if d_ is not None and d_.get("decl") in self.vars:
                            self.vars[d_["decl"]]["nulltest"] = True
            if x.get("k") == "WhileStmt":
                for c in A.walk(x["cond"]):
                    if c.get("k") == "BinaryOperator" and c.get("op") == "<":
                        l, r = A.declref(c["c"][0]), A.declref(c["c"][1])
                        if l is not None and r is not None and l.get("decl") in self.vars and r.get("decl") in self.vars:
                            if "abort" in A.show(x["cond"]):
                                self.vars[l["decl"]]["lc"] = True
                                self.vars[r["decl"]]["lb"] = True

    def _made_class(self, x):
        m = re.search(r"make_(?:unique|shared)<([\w:]+)", x.get("callee_sig") or "") or re.search(r"(?:unique_ptr|shared_ptr)<([\w:]+)>", x.get("ctype") or "")
        if not m:
            m = re.search(r"_NonArray<([\w:]+)>", x.get("ctype") or "") or re.search(r"__unique_ptr_t<([\w:]+)>", x.get("ctype") or "")
        if not m:
            return None
        c = m.group(1)
        return c if c.startswith("vfps::") else "vfps::" + c

    def _news_from(self, e, v):
        for y in A.walk(e):
            if y.get("k") == "CXXNewExpr" and y.get("alloc_type"):
                t = y["alloc_type"]
                v["news"].add(t if t.startswith("vfps::") else "vfps::" + t)
            if y.get("k") == "CallExpr" and re.search(r"make_(unique|shared)", y.get("callee") or ""):
                c = self._made_class(y)
                if c:
                    v["news"].add(c)

    def _args(self, nm, params, args):
        for p, a in zip(params, args):
            d = _core_name(a)
            if d is not None and d.get("decl") in self.vars and p:
                self.vars[d["decl"]]["args"].add((nm, p))


def _propagate_news(mv):
    for _ in range(2):
        for decl, v in mv.vars.items():
            for src in list(v["assigned_from"]):
                v["news"] |= mv.vars[src]["news"]


def _match(sig, v, mv, resolved):
    """-> True / False / None (depends on a role not resolved yet)"""
    k = sig[0]
    if k == "T":
        return any(re.search(sig[1], t) for t in v["types"])
    if k == "G":
        return v["getters"] == set(sig[1])
    if k == "I":
        return bool(re.search(sig[1], v["init_text"]))
    if k == "A":
        return any(re.search(sig[1], nm) and p == sig[2] for nm, p in v["args"])
    if k == "N":
        return any(re.search(sig[1], c) for c in v["news"])
    if k == "U":
        if any(r not in resolved for r in sig[1]):
            return None
        return all(resolved[r] in v["init_refs"] for r in sig[1])
    if k == "M":
        if sig[1] not in resolved:
            return None
        return v["node"]["decl"] in mv.vars[resolved[sig[1]]]["init_refs"]
    if k == "AF":
        if sig[1] not in resolved:
            return None
        return resolved[sig[1]] in v["assigned_from"]
    if k == "RCV":
        return sig[1] in v.get("receives", set())
    if k == "NT":
        return v.get("nulltest", False)
    if k == "NNT":
        return not v.get("nulltest", False)
    if k == "NI":
        return not re.search(sig[1], v["init_text"])
    if k == "LC":
        return v["lc"]
    if k == "LB":
        return v["lb"]
    if k == "INC":
        return v["inc"]
    return False


def infer(prog):
    """-> (role -> decl id, report list)"""
    mv = MainVars(prog)
    _propagate_news(mv)
    resolved = {}
    taken = set()
    report = []
    for _ in range(6):
        progress = False
        for role, sigs in ROLES.items():
            if role in resolved:
                continue
            need = max(1, int(math.ceil(len(sigs) / 2.0)))
            scores = []
            pending = False
            for decl, v in mv.vars.items():
                if decl in taken:
                    continue
                sc = 0
                for s in sigs:
                    r = _match(s, v, mv, resolved)
                    if r is None:
                        pending = True
                    elif r:
                        sc += 1
                if sc:
                    scores.append((sc, -v["order"], decl))
            scores.sort(reverse=True)
            if not scores:
                continue
            best = scores[0]
            second = scores[1][0] if len(scores) > 1 else 0
            # resolve when the best candidate has a majority of the signatures and no rival can catch up
            remaining = sum(1 for s in sigs if s[0] in ("U", "M", "AF") and any(r_ not in resolved for r_ in (s[1] if isinstance(s[1], tuple) else (s[1],))))
            if best[0] >= need and best[0] > second + (remaining if pending else 0):
                resolved[role] = best[2]
                taken.add(best[2])
                progress = True
        if not progress:
            break
    # last pass: accept a unique best with a majority even if dependent signatures are still open
    for role, sigs in ROLES.items():
        if role in resolved:
            continue
        need = max(1, int(math.ceil(len(sigs) / 2.0)))
        scores = []
        for decl, v in mv.vars.items():
            if decl in taken:
                continue
            sc = sum(1 for s in sigs if _match(s, v, mv, resolved))
            if sc:
                scores.append((sc, -v["order"], decl))
        scores.sort(reverse=True)
        if scores and scores[0][0] >= need and (len(scores) == 1 or scores[0][0] > scores[1][0]):
            resolved[role] = scores[0][2]
            taken.add(scores[0][2])
        else:
            report.append("role %s not resolved (%s)" % (role, [(s_, mv.vars[d_]["name"]) for s_, _, d_ in scores[:3]]))
    return mv, resolved, report


def _normalise_increments(fn):
    """`v = v + 1;` and `v += 1;` on an integer local as statements are `v++;` (one spelling for the counters the rules follow)"""
    for x in A.walk(fn["body"]):
        for key in ("c",):
            lst = x.get(key)
            if not isinstance(lst, list) or x.get("k") != "CompoundStmt":
                continue
            for i_, st in enumerate(lst):
                n = A.strip(st, casts=False) if isinstance(st, dict) else None
                if not isinstance(n, dict):
                    continue
                tgt = None
                if n.get("k") == "CompoundAssignOperator" and n.get("op") == "+=" and A.strip(n["c"][1]).get("value") == 1 and A.strip(n["c"][1]).get("k") == "IntegerLiteral":
                    tgt = n["c"][0]
                elif n.get("k") == "BinaryOperator" and n.get("op") == "=":
                    r = A.strip(n["c"][1])
                    l = A.declref(n["c"][0])
                    if l is not None and r.get("k") == "BinaryOperator" and r.get("op") == "+":
                        a, b = A.strip(r["c"][0]), A.strip(r["c"][1])
                        for p_, q_ in ((a, b), (b, a)):
                            if (A.declref(p_) or {}).get("decl") == l.get("decl") and q_.get("k") == "IntegerLiteral" and q_.get("value") == 1:
                                tgt = n["c"][0]
                d = A.declref(tgt) if tgt is not None else None
                if d is None or not any(t_ in (d.get("dtype") or d.get("ctype") or "") for t_ in ("int", "uint", "long", "size_t", "short")):
                    continue
                lst[i_] = {"k": "UnaryOperator", "op": "++", "prefix": False, "id": n["id"], "line": n.get("line"), "col": n.get("col", 0), "eline": n.get("eline", n.get("line")),
                           "type": n.get("type"), "ctype": n.get("ctype"), "c": [tgt], "was": A.show(n)}


def _normalise_ifassign(fn):
    """`T v; if (c) v = a; else v = b;` (v declared just before, both branches only assign it) is `T v = c ? a : b;`"""
    def only_assign(branch, decl):
        st = branch
        if st is None:
            return None
        if st.get("k") == "CompoundStmt":
            if len(st.get("c", [])) != 1:
                return None
            st = st["c"][0]
        n = A.strip(st, casts=False)
        if n.get("k") == "BinaryOperator" and n.get("op") == "=" and (A.declref(n["c"][0]) or {}).get("decl") == decl:
            return n["c"][1]
        if n.get("k") == "CXXOperatorCallExpr" and n.get("op") == "=" and len(n.get("args", [])) == 2 and (A.declref(n["args"][0]) or {}).get("decl") == decl:
            return n["args"][1]
        return None
    for x in A.walk(fn["body"]):
        if x.get("k") != "CompoundStmt":
            continue
        lst = x.get("c", [])
        i = 0
        while i + 1 < len(lst):
            d, f = lst[i], lst[i + 1]
            if d.get("k") == "DeclStmt" and len(d.get("decls", [])) == 1 and d["decls"][0].get("k") == "VarDecl" and "init" not in d["decls"][0] and \
                    f.get("k") == "IfStmt" and f.get("else") is not None and not f.get("init"):
                v = d["decls"][0]
                a, b = only_assign(f.get("then"), v["decl"]), only_assign(f.get("else"), v["decl"])
                if a is not None and b is not None:
                    v["init"] = {"k": "ConditionalOperator", "id": f["id"], "line": f["line"], "col": f.get("col", 0), "eline": f.get("eline", f["line"]),
                                 "type": v.get("type"), "ctype": v.get("ctype"), "cond": f["cond"], "then": a, "else": b, "c": [f["cond"], a, b], "from_if": True}
                    del lst[i + 1]
            i += 1


def _normalise_loops(fn):
    """`for (; cond; step) body` with an abort test in its condition is the simulation loop written as a for: give it the shape the
    rules know, `while (cond) { body; step; }` (same statements, same ids; the CFG is untouched)"""
    for x in A.walk(fn["body"]):
        if x.get("k") == "ForStmt" and not x.get("init") and x.get("cond") is not None and x.get("inc") is not None and "abort" in A.show(x["cond"]):
            body = x.get("body") or {"k": "CompoundStmt", "c": [], "id": -x["id"], "line": x["line"]}
            stmts = list(body.get("c", [])) if body.get("k") == "CompoundStmt" else [body]
            cont = any(y.get("k") == "ContinueStmt" for y in A.walk(body))
            if cont:
                continue        # a continue would skip the step in the while form
            new_body = dict(body) if body.get("k") == "CompoundStmt" else {"k": "CompoundStmt", "id": -x["id"], "line": x["line"], "col": x.get("col", 0), "eline": x.get("eline", x["line"])}
            new_body["c"] = stmts + [x["inc"]]
            x["k"] = "WhileStmt"
            x["body"] = new_body
            x["was_for"] = True
            x.pop("inc", None)


_ID_OFFSET = 10000000


def _splice_helpers(prog):
    """Calls in main to its own helpers - lambdas defined in main and functions defined in main's file - are replaced, in the AST
    and in the control-flow graph, by the helper's body with the arguments put in for the parameters.  The rules then see the
    statements where they are executed, as if they had been written in place.  Only calls that are statements of their own are
    spliced; helpers the rules know by name, recursive helpers and helpers without a CFG are left alone."""
    import copy
    from .indexmap import _rule_vocabulary
    fn = prog.fn("main")
    g = fn.get("cfg")
    if not g:
        return []
    done = []
    # value helpers: a function of main's own file whose whole body is `return <call-free expression>;` stands for that expression
    import copy as _copy
    from .indexmap import _rule_vocabulary as _vocab
    for x in list(A.walk(fn["body"])):
        if x.get("k") == "CallExpr" and x.get("callee_in_root") and x.get("callee_sig"):
            f = prog.copies.get((x["callee_sig"], fn.get("unit"))) or prog.functions.get(x["callee_sig"])
            short = (x.get("callee") or "").split("::")[-1].split("<")[0]
            if f is None or f is fn or not f.get("body") or f.get("file") != fn.get("file") or short in _vocab() or len(f["params"]) != len(x.get("args", [])):
                continue
            body = f["body"]
            if len(body.get("c", [])) != 1 or body["c"][0].get("k") != "ReturnStmt" or not body["c"][0].get("c"):
                continue
            rexpr = body["c"][0]["c"][0]
            if any(y.get("k") in ("CallExpr", "CXXMemberCallExpr", "CXXOperatorCallExpr", "CXXConstructExpr", "CXXNewExpr", "LambdaExpr") for y in A.walk(rexpr)):
                continue
            pmap0 = {p_["decl"]: a_ for p_, a_ in zip(f["params"], x["args"])}
            k0 = len(done) + 1

            def sub(n):
                if isinstance(n, list):
                    return [sub(c) for c in n]
                if not isinstance(n, dict):
                    return n
                if n.get("k") == "DeclRefExpr" and n.get("decl") in pmap0:
                    inner = _copy.deepcopy(pmap0[n["decl"]])
                    return {"k": "ParenExpr", "id": -(abs(n["id"]) * 100 + k0), "line": x.get("line"), "col": 0, "eline": x.get("line"), "type": n.get("type"), "ctype": n.get("ctype"),
                            "c": [inner], "param": n.get("name")}
                o = {}
                for kk, v in n.items():
                    if kk == "id" and isinstance(v, int):
                        o[kk] = -(abs(v) * 100 + k0)
                    elif kk in ("line", "eline"):
                        o[kk] = x.get("line")
                    elif isinstance(v, (dict, list)):
                        o[kk] = sub(v)
                    else:
                        o[kk] = v
                return o
            rep = sub(rexpr)
            keep = {"id": x["id"], "line": x.get("line"), "col": x.get("col", 0), "eline": x.get("eline", x.get("line")), "type": x.get("type"), "ctype": x.get("ctype")}
            x.clear()
            x.update(keep)
            x.update({"k": "ParenExpr", "c": [rep], "named": short})
            done.append("value helper " + short)
    spliced_lambda_ids = set()
    lam_cfg = {e["lambda"]: e.get("cfg") for e in fn.get("lambda_cfgs", []) if e.get("cfg")}
    for round_ in range(6):
        byid, parent = A.index(fn)
        # local lambdas: decl -> LambdaExpr node
        lambdas = {}
        for x in A.walk(fn["body"]):
            if x.get("k") == "DeclStmt":
                for d in x["decls"]:
                    if d.get("k") == "VarDecl" and "init" in d:
                        lm = [y for y in A.walk(d["init"]) if y.get("k") == "LambdaExpr" and y.get("body") is not None and y.get("params") is not None]
                        if lm and lm[0]["id"] in lam_cfg:
                            lambdas[d["decl"]] = lm[0]
        lam_body_ids = set()
        for lm in lambdas.values():
            lam_body_ids |= {y["id"] for y in A.walk(lm["body"])}
        target = None
        for x in A.walk(fn["body"]):
            if x["id"] in lam_body_ids:
                continue
            inplace_lambda = None
            params = body = cfg = args = name = None
            if x.get("k") == "CXXOperatorCallExpr" and x.get("op") == "()" and x.get("args"):
                l0 = A.strip(x["args"][0], casts=False)
                while l0.get("k") in ("MaterializeTemporaryExpr", "CXXBindTemporaryExpr", "ImplicitCastExpr", "CXXConstructExpr", "CXXFunctionalCastExpr", "ParenExpr") and \
                        len(l0.get("args", l0.get("c", []))) == 1:
                    l0 = A.strip((l0.get("args") or l0.get("c"))[0], casts=False)
                if l0.get("k") == "LambdaExpr" and l0.get("id") in lam_cfg and l0.get("body") is not None and l0.get("params") is not None and l0["id"] not in spliced_lambda_ids:
                    params, body, cfg, args, name = l0["params"], l0["body"], lam_cfg[l0["id"]], x["args"][1:], "lambda called in place"
                    inplace_lambda = l0
                d = A.declref(x["args"][0])
                if d is not None and d.get("decl") in lambdas:
                    lm = lambdas[d["decl"]]
                    params, body, cfg, args, name = lm["params"], lm["body"], lam_cfg[lm["id"]], x["args"][1:], "lambda " + d["name"]
            elif x.get("k") == "CallExpr" and x.get("callee_in_root") and x.get("callee_sig"):
                f = prog.copies.get((x["callee_sig"], fn.get("unit")))
                short = (x.get("callee") or "").split("::")[-1]
                if f is not None and f is not fn and f.get("body") and f.get("cfg") and f.get("file") == fn.get("file") and short not in _rule_vocabulary() and \
                        len(f["params"]) == len(x.get("args", [])):
                    params, body, cfg, args, name = f["params"], f["body"], f["cfg"], x["args"], x["callee"]
            if body is None:
                continue
            # must be a statement of its own, or the whole right-hand side of a declaration / assignment statement
            top = x
            p_ = parent.get(top["id"])
            while p_ is not None and p_.get("k") in ("ExprWithCleanups", "ImplicitCastExpr", "ParenExpr", "CXXBindTemporaryExpr", "MaterializeTemporaryExpr",
                                                      "CXXConstructExpr", "CXXFunctionalCastExpr") and len(p_.get("args", p_.get("c", []))) == 1:
                top, p_ = p_, parent.get(p_["id"])
            ret_to = None
            has_value = any(y.get("k") == "ReturnStmt" and y.get("c") for y in A.walk(body))
            if p_ is not None and p_.get("k") == "CompoundStmt" and any(c is top for c in p_.get("c", [])):
                if has_value:
                    continue            # value of a statement-level call is dropped only for void helpers
            elif p_ is not None and has_value and p_.get("k") in ("BinaryOperator", "CXXOperatorCallExpr") and p_.get("op") == "=":
                ops_ = p_.get("c") if p_.get("k") == "BinaryOperator" else p_.get("args")
                if not ops_ or len(ops_) != 2 or ops_[1] is not top or A.declref(ops_[0]) is None:
                    continue
                ret_to = ("assign", ops_[0])
                top2, pp = p_, parent.get(p_["id"])
                while pp is not None and pp.get("k") in ("ExprWithCleanups", "ImplicitCastExpr", "ParenExpr"):
                    top2, pp = pp, parent.get(pp["id"])
                if pp is None or pp.get("k") != "CompoundStmt" or not any(c is top2 for c in pp.get("c", [])):
                    continue
                top, p_ = top2, pp
            else:
                # T v = call();
                vd = None
                for st_ in A.walk(fn["body"]):
                    if st_.get("k") == "DeclStmt" and len(st_.get("decls", [])) == 1 and st_["decls"][0].get("init") is top:
                        vd = st_
                if vd is None or not has_value:
                    continue
                pp = parent.get(vd["id"])
                if pp is None or pp.get("k") != "CompoundStmt" or not any(c is vd for c in pp.get("c", [])):
                    continue
                ret_to = ("decl", vd)
                top, p_ = vd, pp
            if has_value:
                # every return must carry a value and be the last thing on its path (tail position): checked structurally
                rets_ = [y for y in A.walk(body) if y.get("k") == "ReturnStmt"]
                if any(not y.get("c") for y in rets_) or any(y.get("k") in ("ForStmt", "WhileStmt", "DoStmt", "CXXForRangeStmt") and
                                                              any(z.get("k") == "ReturnStmt" for z in A.walk(y)) for y in A.walk(body)):
                    continue
            target = (x, top, p_, params, body, cfg, args, name, ret_to, inplace_lambda)
            break
        if target is None:
            break
        x, top, par, params, body, cfg, args, name, ret_to, inplace_lambda = target
        if inplace_lambda is not None:
            spliced_lambda_ids.add(inplace_lambda["id"])
        k = len(done) + 1
        off = _ID_OFFSET * k
        pmap = {p_["decl"]: a_ for p_, a_ in zip(params, args)}
        # locals declared inside the helper: every splice gets its own copy (fresh declaration id, marked as the helper's own)
        own_locals = set()
        for y_ in A.walk(body):
            if y_.get("k") == "DeclStmt":
                for d_ in y_.get("decls", []):
                    if d_.get("k") == "VarDecl" and isinstance(d_.get("decl"), int):
                        own_locals.add(d_["decl"])
            if y_.get("k") == "CXXForRangeStmt" and isinstance(y_.get("loopvar"), dict) and isinstance(y_["loopvar"].get("decl"), int):
                own_locals.add(y_["loopvar"]["decl"])

        def clone(n, aoff):
            if isinstance(n, list):
                return [clone(c, aoff) for c in n]
            if not isinstance(n, dict):
                return n
            if n.get("k") in ("VarDecl", "DeclRefExpr") and n.get("decl") in own_locals:
                o_ = {}
                for kk, v in n.items():
                    if kk == "decl":
                        o_[kk] = v + off
                    elif kk == "id" and isinstance(v, int):
                        o_[kk] = v + off
                    elif kk in ("line", "eline") and isinstance(v, int):
                        o_["src_" + kk] = v
                        o_[kk] = x.get(kk, x.get("line"))
                    elif isinstance(v, (dict, list)):
                        o_[kk] = clone(v, aoff)
                    else:
                        o_[kk] = v
                o_["helper_local"] = name
                return o_
            if n.get("k") == "DeclRefExpr" and n.get("decl") in pmap and "id" in n:
                inner = clone_arg(pmap[n["decl"]], n["id"])
                return {"k": "ParenExpr", "id": n["id"] + off, "line": n.get("line"), "col": n.get("col", 0), "eline": n.get("eline", n.get("line")),
                        "type": n.get("type"), "ctype": n.get("ctype"), "c": [inner], "param": n.get("name")}
            out = {}
            for kk, v in n.items():
                if kk == "id" and isinstance(v, int):
                    out[kk] = v + off
                elif kk in ("line", "eline") and isinstance(v, int):
                    out["src_" + kk] = v
                    out[kk] = x.get(kk, x.get("line"))      # positioned where it is executed: at the call
                elif isinstance(v, (dict, list)):
                    out[kk] = clone(v, aoff)
                else:
                    out[kk] = v
            return out

        def clone_arg(n, use_id):
            # a private copy of the argument expression for this use of the parameter (ids unique per use)
            def c2(m):
                if isinstance(m, list):
                    return [c2(c) for c in m]
                if not isinstance(m, dict):
                    return m
                o = {}
                for kk, v in m.items():
                    if kk == "id" and isinstance(v, int):
                        o[kk] = -(abs(v) * 1000 + (use_id % 1000) + off)
                    elif isinstance(v, (dict, list)):
                        o[kk] = c2(v)
                    else:
                        o[kk] = v
                return o
            return c2(n)
        new_body = clone(body, 0)
        new_body["spliced_from"] = name
        lst = par["c"]
        pos_ = [i for i, c in enumerate(lst) if c is top][0]
        if ret_to is None:
            lst[pos_] = new_body
        else:
            if ret_to[0] == "decl":
                vdecl = ret_to[1]["decls"][0]
                lhs_proto = {"k": "DeclRefExpr", "name": vdecl["name"], "qname": vdecl["name"], "decl": vdecl["decl"], "dkind": "Var", "dtype": vdecl.get("type"),
                             "type": vdecl.get("type"), "ctype": vdecl.get("ctype"), "local": True, "static_member": False, "c": [], "line": x.get("line"), "col": 0, "eline": x.get("line")}
            else:
                lhs_proto = A.strip(ret_to[1])
            cnt = [0]

            def ret2asg(n):
                if isinstance(n, list):
                    return [ret2asg(c) for c in n]
                if not isinstance(n, dict):
                    return n
                if n.get("k") == "ReturnStmt" and n.get("c"):
                    cnt[0] += 1
                    lhs = dict(lhs_proto)
                    lhs["id"] = -(abs(n["id"]) * 10 + 7)
                    return {"k": "BinaryOperator", "op": "=", "id": n["id"], "line": n.get("line"), "col": n.get("col", 0), "eline": n.get("eline", n.get("line")),
                            "type": lhs_proto.get("type"), "ctype": lhs_proto.get("ctype"), "c": [lhs, ret2asg(n["c"][0])], "from_return": True}
                return {kk: (ret2asg(v) if isinstance(v, (dict, list)) else v) for kk, v in n.items()}
            new_body = ret2asg(new_body)
            if ret_to[0] == "decl":
                vdecl = ret_to[1]["decls"][0]
                vdecl["init_spliced"] = vdecl.pop("init")
                lst[pos_:pos_ + 1] = [ret_to[1], new_body]
            else:
                lst[pos_] = new_body
        # control-flow graph
        blocks = g["blocks"]
        hit = None
        for b in blocks:
            for i, e in enumerate(b["elems"]):
                if e == x["id"]:
                    hit = (b, i)
        if hit is None:
            done.append(name + " (AST only: call not in CFG)")
            continue
        b, i = hit
        base = max(bb["id"] for bb in blocks) + 1
        b2_id = base + max(cb["id"] for cb in cfg["blocks"]) + 1
        b2 = {"id": b2_id, "noreturn": b.get("noreturn"), "elems": b["elems"][i + 1:], "succs": b["succs"]}
        for kk in ("term", "term_kind", "term_cond", "label", "label_kind"):
            if kk in b:
                b2[kk] = b.pop(kk)
        b["elems"] = b["elems"][:i]
        b["succs"] = [base + cfg["entry"]]
        for cb in cfg["blocks"]:
            if cb["id"] == cfg["exit"]:
                continue
            nb = {"id": base + cb["id"], "noreturn": cb.get("noreturn"),
                  "elems": [(e + off) if isinstance(e, int) else e for e in cb["elems"]],
                  "succs": [(b2_id if s_ == cfg["exit"] else base + s_) if isinstance(s_, int) else s_ for s_ in cb["succs"]]}
            for kk in ("term", "term_cond", "label"):
                if kk in cb:
                    nb[kk] = cb[kk] + off if isinstance(cb[kk], int) else cb[kk]
            for kk in ("term_kind", "label_kind"):
                if kk in cb:
                    nb[kk] = cb[kk]
            blocks.append(nb)
        blocks.append(b2)
        if g["exit"] == b["id"]:
            pass
        done.append(name)
    # the bodies of the lambdas that were spliced at every call are no longer statements of main on their own
    if done:
        for x in A.walk(fn["body"]):
            if x.get("k") == "LambdaExpr" and x.get("id") in lam_cfg and isinstance(x.get("body"), dict):
                still_called = False
                for y in A.walk(fn["body"]):
                    if y.get("k") == "CXXOperatorCallExpr" and y.get("op") == "()" and y.get("args"):
                        d = A.declref(y["args"][0])
                        if d is not None:
                            for z in A.walk(fn["body"]):
                                if z.get("k") == "DeclStmt":
                                    for dd in z["decls"]:
                                        if dd.get("decl") == d.get("decl") and "init" in dd and any(w is x for w in A.walk(dd["init"])):
                                            still_called = True
                if not still_called:
                    x["body_spliced"] = x["body"]
                    x["body"] = {"k": "CompoundStmt", "id": x["body"]["id"], "line": x["body"]["line"], "col": 0, "eline": x["body"]["line"], "c": []}
    return done


def canonicalise_main(prog):
    """Rewrite main's facts so that every resolved role carries its role name. -> dict(actual name -> role name)"""
    spliced = []
    try:
        spliced = _splice_helpers(prog)
    except Exception as e:
        spliced = ["failed: %r" % (e,)]
    try:
        _normalise_loops(prog.fn("main"))
        _normalise_increments(prog.fn("main"))
        _normalise_ifassign(prog.fn("main"))
    except Exception:
        pass
    try:
        mv, resolved, report = infer(prog)
    except Exception as e:    # role inference must never take a check down by itself
        prog.main_roles = dict(renamed={}, unresolved=["role inference failed: %r" % (e,)], resolved={})
        return {}
    rename = {}       # decl id -> new name
    for role, decl in resolved.items():
        if mv.vars[decl]["name"] != role:
            rename[decl] = role
    # a different variable that happens to carry a role name must get out of the way
    role_decl = set(resolved.values())
    for decl, v in mv.vars.items():
        if v["name"] in ROLES and decl not in role_decl and (v["name"] in resolved) and resolved[v["name"]] != decl:
            rename[decl] = v["name"] + "__other"
    renamed = {}
    if rename:
        for x in A.walk(mv.fn["body"]):
            if x.get("k") == "DeclRefExpr" and x.get("decl") in rename:
                x["name"] = rename[x["decl"]]
                if "qname" in x:
                    x["qname"] = rename[x["decl"]]
            if x.get("k") == "DeclStmt":
                for d in x["decls"]:
                    if d.get("decl") in rename:
                        renamed[d["name"]] = rename[d["decl"]]
                        d["name"] = rename[d["decl"]]
            if x.get("k") == "VarDecl" and x.get("decl") in rename:
                x["name"] = rename[x["decl"]]
            if x.get("k") == "LambdaExpr":
                for c in x.get("captures", []) or []:
                    if isinstance(c, dict) and c.get("decl") in rename:
                        c["name"] = rename[c["decl"]]
    prog.main_roles = dict(renamed=renamed, unresolved=report, resolved={r: mv.vars[d]["name"] for r, d in resolved.items()})
    prog.main_roles["spliced"] = spliced
    try:
        prog.main_roles["named_steps"] = _inline_named_steps(mv, set(resolved.values()))
    except Exception as e:
        prog.main_roles["named_steps"] = ["failed: %r" % (e,)]
    return renamed


_SCALAR = ("bool", "int", "unsigned int", "long", "unsigned long", "float", "double", "unsigned char", "short", "unsigned short")


def _inline_named_steps(mv, role_decls):
    """A const scalar local of main that is no role, is initialised with a call-free expression and never written again is just a
    name for that expression (const bool is_outstep = outstep > 0 && step % outstep == 0;): its uses are replaced by the expression,
    so that conditions and arguments read the same with and without the name."""
    import copy
    fn = mv.fn
    from .indexmap import _count_assignments
    asg = _count_assignments(fn)
    cand = {}
    for decl, v in mv.vars.items():
        d = v["node"]
        if decl in role_decls or "init" not in d or asg.get(decl, 0) != 0:
            continue
        ty = (d.get("ctype") or "")
        init = d["init"]
        if d["name"] in ROLES:
            continue
        is_scalar = ty.replace("const ", "").strip() in _SCALAR
        is_objref = ty.rstrip().endswith("&") and not ty.rstrip().endswith("&&") and "vfps::" in ty
        if is_objref:
            # PhaseSpace& grid = *grid_t1;  -  another name for the object: only dereference / get() / address-of over one variable
            okp = True
            for y in A.walk(init):
                k_ = y.get("k")
                if k_ in ("DeclRefExpr", "ParenExpr", "ImplicitCastExpr", "MaterializeTemporaryExpr", "ExprWithCleanups", "MemberExpr"):
                    continue
                if k_ == "UnaryOperator" and y.get("op") in ("*", "&"):
                    continue
                if k_ == "CXXOperatorCallExpr" and y.get("op") in ("*", "->"):
                    continue
                if k_ == "CXXMemberCallExpr" and (y.get("callee") or "").endswith("::get"):
                    continue
                okp = False
            if not okp:
                continue
        elif not is_scalar:
            continue
        elif any(y.get("k") in ("CallExpr", "CXXMemberCallExpr", "CXXOperatorCallExpr", "CXXConstructExpr", "CXXNewExpr", "LambdaExpr") and
                 not (y.get("k") == "CXXMemberCallExpr" and (y.get("callee") or "").startswith("std::") and y.get("callee_const")) for y in A.walk(init)):
            continue            # (const queries of std containers, v.size(), are allowed: they have no effect and no object of main behind them)
        # only names introduced inside the simulation part (the loop and what follows); set-up locals keep their names
        cand[decl] = d
    if not cand:
        return []
    loop_line = None
    for x in A.walk(fn["body"]):
        if x.get("k") == "WhileStmt" and "abort" in A.show(x.get("cond") or {}):
            loop_line = x["line"]
    if loop_line is None:
        return []
    from .indexmap import _rule_vocabulary
    voc = _rule_vocabulary()
    # names from the simulation part always; set-up names only when no rule refers to them
    cand = {k_: d for k_, d in cand.items() if d.get("line", 0) >= loop_line or d["name"] not in voc}
    done = []
    for _ in range(3):
        changed = False
        for x in A.walk(fn["body"]):
            for key in ("c", "args", "inits"):
                lst = x.get(key)
                if isinstance(lst, list):
                    for i_, ch in enumerate(lst):
                        if isinstance(ch, dict) and ch.get("k") == "DeclRefExpr" and ch.get("decl") in cand:
                            rep = copy.deepcopy(A.strip(cand[ch["decl"]]["init"]))
                            lst[i_] = {"k": "ParenExpr", "id": ch["id"], "line": ch["line"], "col": ch.get("col", 0), "eline": ch.get("eline", ch["line"]),
                                       "type": ch.get("type"), "ctype": ch.get("ctype"), "c": [rep], "named": cand[ch["decl"]]["name"]}
                            changed = True
                            if cand[ch["decl"]]["name"] not in done:
                                done.append(cand[ch["decl"]]["name"])
            for key in ("cond", "then", "else", "init", "body", "inc", "lhs", "rhs", "sub"):
                ch = x.get(key)
                if isinstance(ch, dict) and ch.get("k") == "DeclRefExpr" and ch.get("decl") in cand:
                    rep = copy.deepcopy(A.strip(cand[ch["decl"]]["init"]))
                    x[key] = {"k": "ParenExpr", "id": ch["id"], "line": ch["line"], "col": ch.get("col", 0), "eline": ch.get("eline", ch["line"]),
                              "type": ch.get("type"), "ctype": ch.get("ctype"), "c": [rep], "named": cand[ch["decl"]]["name"]}
                    changed = True
                    if cand[ch["decl"]]["name"] not in done:
                        done.append(cand[ch["decl"]]["name"])
        if not changed:
            break
    return done
