"""E4: per-method read/write sets over abstract locations, composed through repo-internal calls.

A location is (object path, field, selector):
  object path  'this' | 'this.<member>' (object reached through a member pointer / shared_ptr) |
               'param:<name>' (object passed as a parameter)
  selector     None (whole field) | int (constant first subscript, e.g. _projection[0]) |
               ('param', name) (first subscript is a parameter, resolved at the call site)
Library calls are summarised by their pointer/iterator arguments: std::copy/copy_n/fill_n write
their destination and read their source; everything else only reads the fields it mentions.
"""
import re
from . import ast as A
from .compdb import AnalysisBroken

NONCONST_CONTAINER = {"resize", "push_back", "emplace_back", "clear", "swap", "pop", "pop_back", "emplace", "assign", "reset", "erase", "insert"}


def class_fields(prog, cls, seen=None):
    """fields of cls and its bases: name -> declaring class"""
    out = {}
    seen = seen or set()
    if cls in seen or cls not in prog.records:
        return out
    seen.add(cls)
    r = prog.records[cls]
    for b in r["bases"]:
        bq = b if b in prog.records else ("vfps::" + b if ("vfps::" + b) in prog.records else None)
        if bq:
            out.update(class_fields(prog, bq, seen))
    for f in r["fields"]:
        out[f["name"]] = cls
    for f in r.get("static_members", []):
        out.setdefault(f["name"], cls)
    return out


def bases_of(prog, cls):
    out = []
    r = prog.records.get(cls)
    if not r:
        return out
    for b in r["bases"]:
        bq = b if b in prog.records else ("vfps::" + b if ("vfps::" + b) in prog.records else None)
        if bq:
            out.append(bq)
            out += bases_of(prog, bq)
    return out


class Summary:
    def __init__(self):
        self.reads, self.writes = set(), set()
        self.guarded = []        # (kind 'r'/'w', loc, [(cond node, polarity)]) for accesses under branch conditions
        self.calls = []          # (objpath, callee sig, callee qname, {param: sel/arg info}, node)
        self.unknown = []        # things we could not classify

    def __repr__(self):
        return "R%s W%s" % (sorted(map(str, self.reads)), sorted(map(str, self.writes)))


def _first_sel(node, params):
    """selector from the first subscript of an access chain rooted at a field"""
    n = A.strip(node)
    if n.get("k") == "IntegerLiteral":
        return n["value"]
    if "const" in n and isinstance(n["const"], int):
        return n["const"]
    d = A.declref(n)
    if d is not None and d.get("dkind") == "ParmVar" and d["name"] in params:
        return ("param", d["name"])
    return None


class Effects:
    def __init__(self, prog):
        self.prog = prog
        self.memo = {}
        self.own = {}

    # -- the object a member call is made on ----------------------------------------------------
    def objpath(self, obj, fn, fields):
        """'this' / 'this.<m>' / 'param:<p>' / None"""
        if obj is None:
            return "this"
        o = A.strip(obj)
        # shared_ptr / unique_ptr operator-> and operator*
        while o.get("k") == "CXXOperatorCallExpr" and o.get("op") in ("->", "*") and o.get("args"):
            o = A.strip(o["args"][0])
        if o.get("k") == "UnaryOperator" and o.get("op") in ("*", "&"):
            o = A.strip(o["c"][0])
        if o.get("k") == "CXXThisExpr":
            return "this"
        f = A.this_field(o)
        if f is not None:
            return "this." + f
        d = A.declref(o)
        if d is not None and d.get("dkind") == "ParmVar":
            return "param:" + d["name"]
        if o.get("k") == "CXXMemberCallExpr" and o.get("callee", "").endswith("::get") :
            return self.objpath(A.call_object(o), fn, fields)
        return None

    def _field_access(self, n, fields):
        """if expression n is rooted at a this-field (possibly subscripted / member-called), return
        (field, first subscript node or None)"""
        cur = A.strip(n, casts=False)
        subs = []
        while True:
            k = cur.get("k")
            if k == "ArraySubscriptExpr":
                subs.append(cur["c"][1]); cur = A.strip(cur["c"][0], casts=False)
            elif k == "CXXOperatorCallExpr" and cur.get("op") == "[]":
                subs.append(cur["args"][1]); cur = A.strip(cur["args"][0], casts=False)
            elif k == "CXXMemberCallExpr":
                o = A.call_object(cur)
                if o is None:
                    return None
                if cur.get("callee_in_root"):
                    # accessor that hands out storage of another object: obj->getData()[i]
                    tgt = self.accessor_field(cur.get("callee_sig"))
                    op = self.objpath(o, None, fields)
                    if tgt and op and op != "this":
                        self._last_root = cur["id"]
                        self._last_obj = op
                        return tgt, None
                cur = A.strip(o, casts=False)
            elif k == "CXXOperatorCallExpr" and cur.get("op") in ("->", "*") and cur.get("args"):
                cur = A.strip(cur["args"][0], casts=False)
            elif k == "UnaryOperator" and cur.get("op") in ("*", "&"):
                cur = A.strip(cur["c"][0], casts=False)
            elif k == "BinaryOperator" and cur.get("op") in ("+", "-"):
                cur = A.strip(cur["c"][0], casts=False)
            elif k == "MemberExpr" and not A.is_this(cur["c"][0]) and cur["member"]["dkind"] == "Field":
                cur = A.strip(cur["c"][0], casts=False)      # x.index of a struct element
            else:
                break
        f = A.this_field(cur)
        d = A.declref(cur)
        if f is None and d is not None and d.get("static_member") and d["name"] in fields:
            f = d["name"]
        if f is None or f not in fields:
            # a local pointer that aliases storage of an object (T* p = obj->getData())
            if d is not None and d["decl"] in getattr(self, "_ptr_alias", {}):
                al = self._ptr_alias[d["decl"]]
                op, fld = al[0], al[1]
                self._last_root = cur["id"]
                self._last_obj = op
                return fld, (al[2] if len(al) > 2 else None)
            return None
        self._last_root = cur["id"]
        self._last_obj = "this"
        return f, (subs[-1] if subs else None)

    def accessor_field(self, sig):
        """if the method `sig` just returns a pointer into / reference to one of its object's fields
        (`return _data.data();`), the name of that field"""
        f = self.prog.functions.get(sig)
        if f is None or not f.get("body") or len(f["body"].get("c", [])) != 1:
            return None
        r = f["body"]["c"][0]
        if r["k"] != "ReturnStmt" or not r.get("c"):
            return None
        e = A.strip(r["c"][0])
        if e.get("k") == "CXXMemberCallExpr" and (e.get("callee") or "").split("::")[-1] in ("data", "origin", "begin"):
            return A.this_field(A.call_object(e))
        return A.this_field(e)

    def own_summary(self, fn, known=None):
        """known: {parameter name: int} for arguments that are compile-time constants at the call site; accesses
        under a branch condition that evaluates to false for these values are not part of the summary"""
        known = dict(known or {})
        okey = (fn["sig"], tuple(sorted(known.items())))
        if okey in self.own:
            return self.own[okey]
        s = Summary()
        self.own[okey] = s
        cls = fn.get("class")
        fields = class_fields(self.prog, cls) if cls else {}
        params = {p["name"] for p in fn["params"]}
        written_nodes = set()
        roots = []
        if fn.get("body"):
            roots.append(fn["body"])
        for i in fn.get("inits", []):
            if isinstance(i.get("expr"), dict):
                roots.append(i["expr"])
                if i.get("ikind") == "member":
                    s.writes.add(("this", i["target"], None))

        # local pointers aliasing object storage: T* p = <obj>->accessor() where accessor returns field.data()
        self._ptr_alias = {}
        for root in roots:
            for x in A.walk(root):
                if x["k"] == "DeclStmt":
                    for d in x["decls"]:
                        if d.get("k") == "VarDecl" and "init" in d and "*" in (d.get("ctype") or ""):
                            c = A.strip(d["init"])
                            if c.get("k") == "CXXMemberCallExpr" and c.get("callee_in_root"):
                                tgt = self.accessor_field(c.get("callee_sig"))
                                op = self.objpath(A.call_object(c), fn, fields)
                                if tgt and op:
                                    self._ptr_alias[d["decl"]] = (op, tgt)
                                    continue
                        if d.get("k") == "VarDecl" and "init" in d and ("*" in (d.get("ctype") or "") or (d.get("type") or "").rstrip().endswith("&") or
                                                                        "multi_array::sub_array" in (d.get("ctype") or "") or "multi_array::multi_array_view" in (d.get("ctype") or "")) \
                                and not (d.get("type") or "").rstrip().endswith("&&"):
                            # a local reference / pointer to (an element of) one of the object's own fields: T& r = _f[i][j];  T* p = &_f[i];
                            fa = self._field_access(d["init"], fields)
                            if fa is not None:
                                self._ptr_alias[d["decl"]] = (self._last_obj, fa[0], fa[1])

        fidx = A.index(fn)

        def exits(st):
            if st is None:
                return False
            k_ = st.get("k")
            if k_ in ("ReturnStmt", "ContinueStmt", "BreakStmt", "CXXThrowExpr"):
                return True
            if k_ == "ExprWithCleanups" and st.get("c"):
                return exits(st["c"][0])
            if k_ == "CompoundStmt":
                return bool(st.get("c")) and exits(st["c"][-1])
            if k_ == "IfStmt":
                return bool(st.get("else")) and exits(st.get("then")) and exits(st.get("else"))
            return False
        # `if (c) { ...; return; }` (no else): everything after it in the same block runs under !c
        after_exit = {}
        for root_ in roots:
            for blk in A.walk(root_):
                if blk.get("k") != "CompoundStmt":
                    continue
                pending = []
                for st_ in blk.get("c", []):
                    if pending:
                        for y in A.walk(st_):
                            after_exit.setdefault(y["id"], []).extend(pending)
                    if st_.get("k") == "IfStmt":
                        if not st_.get("else") and exits(st_.get("then")):
                            pending = pending + [(st_["cond"], False)]
                        elif st_.get("else") and exits(st_.get("then")) and not exits(st_.get("else")):
                            pending = pending + [(st_["cond"], False)]
                        elif st_.get("else") and exits(st_.get("else")) and not exits(st_.get("then")):
                            pending = pending + [(st_["cond"], True)]

        def guards_of(node):
            out = []
            for e_ in A.enclosing(fidx, node, {"IfStmt"}):
                th = e_.get("then")
                el = e_.get("else")
                if th is not None and node["id"] in {y["id"] for y in A.walk(th)}:
                    out.append((e_["cond"], True))
                elif el is not None and node["id"] in {y["id"] for y in A.walk(el)}:
                    out.append((e_["cond"], False))
            out.extend(after_exit.get(node["id"], []))
            return out
        self._guards_of = guards_of

        const_bools = {}
        for root_ in roots:
            for st_ in A.walk(root_):
                if st_.get("k") == "DeclStmt":
                    for d_ in st_.get("decls", []):
                        if d_.get("k") == "VarDecl" and d_.get("is_const") and (d_.get("ctype") or "").replace("const ", "").strip() == "bool" and isinstance(d_.get("init"), dict):
                            const_bools[d_["decl"]] = d_["init"]

        def ev(n_):
            n_ = A.strip(n_)
            k_ = n_.get("k")
            if k_ == "DeclRefExpr" and n_.get("decl") in const_bools:
                return ev(const_bools[n_["decl"]])          # a named condition (const bool) stands for its initialiser
            if k_ == "BinaryOperator" and n_["op"] in ("&&", "||"):
                a_, b_ = ev(n_["c"][0]), ev(n_["c"][1])
                if n_["op"] == "&&":
                    return False if (a_ is False or b_ is False) else (True if (a_ is True and b_ is True) else None)
                return True if (a_ is True or b_ is True) else (False if (a_ is False and b_ is False) else None)
            if k_ == "UnaryOperator" and n_["op"] == "!":
                a_ = ev(n_["c"][0])
                return None if a_ is None else (not a_)
            if k_ == "BinaryOperator" and n_["op"] in ("==", "!=", "<", ">", "<=", ">="):
                def val(m_):
                    m_ = A.strip(m_)
                    if m_.get("k") == "DeclRefExpr" and m_.get("dkind") == "EnumConstant":
                        return m_["enumval"]
                    if m_.get("k") == "IntegerLiteral":
                        return m_["value"]
                    if m_.get("k") == "DeclRefExpr" and m_.get("dkind") == "ParmVar" and m_["name"] in known:
                        return known[m_["name"]]
                    return None
                a_, b_ = val(n_["c"][0]), val(n_["c"][1])
                if a_ is None or b_ is None:
                    return None
                return {"==": a_ == b_, "!=": a_ != b_, "<": a_ < b_, ">": a_ > b_, "<=": a_ <= b_, ">=": a_ >= b_}[n_["op"]]
            return None

        def live(node):
            if not known:
                return True
            for c_, pol in guards_of(node):
                v_ = ev(c_)
                if v_ is not None and v_ != pol:
                    return False
            return True

        def add(kind, expr):
            if not live(expr):
                return False
            fa = self._field_access(expr, fields)
            if fa is None:
                return False
            f, sub = fa
            sel = _first_sel(sub, params) if sub is not None else None
            loc = (self._last_obj, f, sel)
            (s.writes if kind == "w" else s.reads).add(loc)
            g_ = guards_of(expr)
            s.guarded.append((kind, loc, g_))
            if kind == "w":
                written_nodes.add(self._last_root)
            return True
        for root in roots:
            for x in A.walk(root):
                k = x["k"]
                if k in ("BinaryOperator", "CompoundAssignOperator") and x.get("op", "").endswith("=") and x["op"] not in ("==", "!=", "<=", ">="):
                    if add("w", x["c"][0]):
                        written_nodes.add(A.strip(x["c"][0], casts=False)["id"])
                        if x["op"] != "=":
                            add("r", x["c"][0])
                elif k == "CXXOperatorCallExpr" and x.get("op") in ("=", "+=", "-=", "*=", "/=") and len(x.get("args", [])) == 2:
                    if add("w", x["args"][0]):
                        written_nodes.add(A.strip(x["args"][0], casts=False)["id"])
                        if x["op"] != "=":
                            add("r", x["args"][0])
                elif k == "UnaryOperator" and x.get("op") in ("++", "--"):
                    if add("w", x["c"][0]):
                        add("r", x["c"][0])
                elif k == "CallExpr" and x.get("callee") in ("std::copy_n", "std::copy", "std::fill_n", "std::fill", "std::swap", "std::transform"):
                    a = x.get("args", [])
                    cal = x["callee"]
                    dst = {"std::copy_n": [2], "std::copy": [2], "std::fill_n": [0], "std::fill": [0, 1], "std::swap": [0, 1], "std::transform": [2]}[cal]
                    for j in dst:
                        if j < len(a) and add("w", a[j]):
                            for y in A.walk(a[j]):
                                written_nodes.add(y["id"])
                elif k == "CXXMemberCallExpr":
                    if not live(x):
                        continue
                    o = A.call_object(x)
                    meth = (x.get("callee") or "").split("::")[-1]
                    if x.get("callee_in_root") and x.get("callee_class", "").startswith("vfps::") and "Ruler" not in x.get("callee_class", ""):
                        op = self.objpath(o, fn, fields)
                        argsel = {}
                        for pn, a_ in zip(x.get("callee_params", []), x.get("args", [])):
                            argsel[pn] = a_
                        if op is None:
                            s.unknown.append(("call on unresolved object", x))
                        else:
                            s.calls.append((op, x.get("callee_sig"), x.get("callee"), argsel, x))
                            x["_guards"] = guards_of(x)
                            if op.startswith("this.") and not x.get("callee_const"):
                                pass
                    elif o is not None:
                        # library container method on a field
                        fa = self._field_access(o, fields)
                        if fa is not None and not x.get("callee_const") and meth in NONCONST_CONTAINER:
                            f, sub = fa
                            s.writes.add(("this", f, _first_sel(sub, params) if sub is not None else None))
                            for y in A.walk(o):
                                written_nodes.add(y["id"])
                elif k == "CXXOperatorCallExpr" and x.get("op") == "()" and x.get("args") and not x.get("callee_const"):
                    for a_ in x["args"]:
                        if add("w", a_):
                            add("r", a_)
                elif k == "CallExpr" and x.get("callee") == "fft::fft_execute" and x.get("args"):
                    plan = A.this_field(x["args"][0])
                    b = self.plan_bindings(cls).get(plan) if plan else None
                    if b:
                        s.reads.add(("this", b[0], None))
                        s.writes.add(("this", b[1], None))
                        if b[2] == "c2r":
                            s.writes.add(("this", b[0], None))      # c2r may destroy its input
                    else:
                        s.unknown.append(("fft_execute on unknown plan", x))
            # reads: every this-field mention that is not (only) a write target
            for x in A.walk(root):
                if x["k"] == "MemberExpr" and x["member"]["dkind"] == "Field" and A.is_this(x["c"][0]) and x["member"]["name"] in fields:
                    if x["id"] in written_nodes or not live(x):
                        continue
                    # find selector: look at the parent subscript if any (approximation: whole field)
                    s.reads.add(("this", x["member"]["name"], "?"))
                elif x["k"] == "DeclRefExpr" and x.get("static_member") and x["name"] in fields and x["id"] not in written_nodes:
                    s.reads.add(("this", x["name"], "?"))
        # refine reads with selectors where the access chain gives one
        refined = set()
        for root in roots:
            for x in A.walk(root):
                if x["k"] in ("ArraySubscriptExpr",) or (x["k"] == "CXXOperatorCallExpr" and x.get("op") == "[]"):
                    fa = self._field_access(x, fields) if live(x) else None
                    if fa is not None and x["id"] not in written_nodes:
                        f, sub = fa
                        refined.add(("this", f, _first_sel(sub, params) if sub is not None else None))
        fields_with_sel = {f for (_, f, sel) in refined if sel is not None}
        out = set()
        for (o, f, sel) in s.reads:
            if sel == "?":
                if f in fields_with_sel and not any(f == f2 and sel2 is None for (_, f2, sel2) in refined):
                    continue
                out.add((o, f, None))
            else:
                out.add((o, f, sel))
        out |= {r for r in refined if r[2] is not None}
        s.reads = out
        return s

    def plan_bindings(self, cls):
        """plan field -> (input buffer field, output buffer field, kind) from the fft::prepareFFT call sites of the class"""
        if not hasattr(self, "_plans"):
            self._plans = {}
        if cls in self._plans:
            return self._plans[cls]
        out = {}
        for f in self.prog.functions.values():
            if f.get("class") != cls or not f.get("body"):
                continue
            for x, lhs, op, rhs in A.assignments_in(f["body"]):
                fld = A.this_field(lhs)
                for c in A.walk(rhs):
                    if c.get("k") == "CallExpr" and c.get("callee") == "fft::prepareFFT" and fld:
                        bufs = [A.this_field(y) for y in c["args"][1:3]]
                        sig = c.get("callee_sig", "")
                        second = sig.split("(")[1].split(",")[1].strip() if "," in sig else ""
                        kind = "r2c" if second.startswith(("float *", "double *")) else "c2r"
                        if all(bufs):
                            out[fld] = (bufs[0], bufs[1], kind)
        self._plans[cls] = out
        return out

    def resolve_callee(self, sig, qname, dyn_class=None):
        """function definition for a call; for virtual calls with a known dynamic class, the final overrider"""
        f = self.prog.functions.get(sig)
        if dyn_class is not None:
            name = qname.split("::")[-1]
            for c in [dyn_class] + bases_of(self.prog, dyn_class):
                cands = [g for g in self.prog.fns(c + "::" + name) if len(g["params"]) == (len(f["params"]) if f else len(g["params"]))]
                if cands:
                    return cands[0]
        return f

    def summary(self, fn, dyn_class=None, _stack=(), known=None):
        """transitive summary: own effects + effects of calls on `this` (same object), on member objects
        ('this.m' prefix) and on parameters; selectors that are parameters are substituted from call arguments"""
        known = dict(known or {})
        key = (fn["sig"], dyn_class, tuple(sorted(known.items())))
        if key in self.memo:
            return self.memo[key]
        if key in _stack:
            return Summary()
        own = self.own_summary(fn, known)
        res = Summary()
        res.reads |= own.reads
        res.writes |= own.writes
        res.unknown += own.unknown
        params = {p["name"] for p in fn["params"]}
        for (op, sig, qname, argsel, node) in own.calls:
            callee = self.resolve_callee(sig, qname, dyn_class if op == "this" else None)
            if callee is None or not callee.get("body"):
                # pure virtual or undefined here: record as opaque call
                res.calls.append((op, sig, qname, argsel, node))
                continue
            sub_known = {}
            for pn_, a_ in argsel.items():
                c_ = A.strip(a_)
                if c_.get("k") == "DeclRefExpr" and c_.get("dkind") == "EnumConstant":
                    sub_known[pn_] = c_["enumval"]
                elif c_.get("k") == "IntegerLiteral":
                    sub_known[pn_] = c_["value"]
                elif c_.get("k") == "CXXBoolLiteralExpr":
                    sub_known[pn_] = 1 if c_["value"] else 0
                elif c_.get("k") == "DeclRefExpr" and c_.get("dkind") == "ParmVar" and c_["name"] in known:
                    sub_known[pn_] = known[c_["name"]]
            # callee parameter names as written in the definition
            defn = [p_["name"] for p_ in callee["params"]]
            decl = node.get("callee_params", [])
            ren = {decl[j]: defn[j] for j in range(min(len(decl), len(defn)))}
            sub_known = {ren.get(k_, k_): v_ for k_, v_ in sub_known.items()}
            sub = self.summary(callee, dyn_class if op == "this" else None, _stack + (key,), sub_known)
            for kind, locs in (("r", sub.reads), ("w", sub.writes)):
                for (o, f, sel) in locs:
                    if isinstance(sel, tuple) and sel[0] == "param":
                        a_ = argsel.get(sel[1])
                        sel = _first_sel(a_, params) if a_ is not None else None
                    if o == "this":
                        no = op
                    elif o.startswith("this."):
                        no = (op + o[4:]) if op != "this" else o
                    elif o.startswith("param:"):
                        a_ = argsel.get(o[6:])
                        no = self.objpath(a_, fn, class_fields(self.prog, fn.get("class")) if fn.get("class") else {}) if a_ is not None else None
                        if no is None:
                            continue
                    else:
                        no = o
                    (res.reads if kind == "r" else res.writes).add((no, f, sel))
            res.calls += [(op if o2 == "this" else o2, s2, q2, a2, n2) for (o2, s2, q2, a2, n2) in sub.calls]
        self.memo[key] = res
        return res


def member_bindings(prog, ctor, _depth=0):
    """member name -> parameter name of `ctor` that initialises it (directly, or through base/delegating
    constructors).  Only plain forwarding (member(param) / Base(param,...)) is followed."""
    out = {}
    A.require(_depth < 6, "constructor chain too deep")
    pnames = {p["name"] for p in ctor["params"]}
    for i in ctor.get("inits", []):
        e = A.strip(i["expr"], casts=False)
        if i.get("ikind") == "member":
            v = None
            from .callargs import plain_var
            pv = plain_var(i["expr"])
            if pv is not None and pv["name"] in pnames:
                out[i["target"]] = pv["name"]
        elif i.get("ikind") in ("base", "delegating"):
            tgt = prog.functions.get(e.get("callee_sig"))
            if tgt is None:
                continue
            inner = member_bindings(prog, tgt, _depth + 1)
            from .callargs import plain_var
            argmap = {}
            for pn, a_ in zip(e.get("callee_params", []), e.get("args", [])):
                pv = plain_var(a_)
                if pv is not None and pv["name"] in pnames:
                    argmap[pn] = pv["name"]
            # callee_params are the declaration's names; map by position to the definition's names
            defnames = [p["name"] for p in tgt["params"]]
            decl = e.get("callee_params", [])
            pos = {decl[j]: defnames[j] for j in range(min(len(decl), len(defnames)))}
            argmap2 = {pos.get(k, k): v for k, v in argmap.items()}
            for m, p in inner.items():
                if p in argmap2:
                    out.setdefault(m, argmap2[p])
    return out
