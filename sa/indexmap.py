"""E2: structured extraction of array/field accesses with symbolic index
expressions, loop ranges and guards.

`scan(fn)` walks the statement tree of one function (no path enumeration: every
statement is visited once, with the stack of enclosing loops and branch
conditions) and returns Access / Call records whose index and value expressions
are sympy expressions over loop variables, parameters, fields and uninterpreted
function applications.
"""
import sympy as sp
from . import ast as A
from .algebra import Translator, Unconvertible, STD_FUNCS, literal
from .compdb import AnalysisBroken

PROGRAM = None          # set by facts.load_program: lets the scanner look into helper functions it meets
_RULE_VOCAB = None


def _rule_vocabulary():
    """identifiers the rule files mention: functions named there are modelled by the rules themselves and are not inlined"""
    global _RULE_VOCAB
    if _RULE_VOCAB is None:
        import glob
        import os
        import re
        here = os.path.dirname(os.path.abspath(__file__))
        words = set()
        for f in glob.glob(os.path.join(here, "*.py")) + glob.glob(os.path.join(here, "rules", "*.py")):
            src = "\n".join(l.split("#", 1)[0] if l.lstrip().startswith("#") else l for l in open(f).read().splitlines())
            words |= set(re.findall(r"[A-Za-z_]\w*", src))
        _RULE_VOCAB = words
    return _RULE_VOCAB


_ACTIVE = []


def active_scanner():
    """the scanner whose run() is in progress (translation hooks use it to look at the locals of the function being read)"""
    return _ACTIVE[-1] if _ACTIVE else None


SUM = sp.Function("SUM")            # SUM(term(k_), lo, hi): sum of term over k_ in [lo, hi)
K_ = sp.Symbol("k_", integer=True)
SIZE = sp.Function("size")
frac = sp.Function("frac")
ipart = sp.Function("ipart")


class Loop:
    def __init__(self, name, decl, sym, lo, hi, cmp, step, node):
        self.name, self.decl, self.sym, self.lo, self.hi, self.cmp, self.step, self.node = \
            name, decl, sym, lo, hi, cmp, step, node

    def __repr__(self):
        return "for %s in [%s %s %s) step %s" % (self.name, self.lo, self.cmp, self.hi, self.step)


_SEQ = [0]


def _next_seq():
    _SEQ[0] += 1
    return _SEQ[0]


class Access:
    def __init__(self, kind, base, idx, path, node, line, guards, loops, op=None, value=None,
                 value_node=None, base_node=None):
        self.seq = _next_seq()          # order in which the scanner met it (program order, also across helper bodies it looked into)
        self.kind, self.base, self.idx, self.path, self.node, self.line = kind, base, idx, path, node, line
        self.guards, self.loops, self.op, self.value, self.value_node = guards, loops, op, value, value_node
        self.base_node = base_node

    def __repr__(self):
        s = "%s %s%s%s" % (self.kind, self.base,
                           "[%s]" % ", ".join(str(i) for i in self.idx) if self.idx is not None else "", self.path)
        if self.kind == "store":
            s += " %s %s" % (self.op, self.value)
        return s + " @%d" % self.line


class Call:
    def __init__(self, callee, node, args, arg_nodes, obj, line, guards, loops, sig=None):
        self.seq = _next_seq()
        self.callee, self.node, self.args, self.arg_nodes, self.obj = callee, node, args, arg_nodes, obj
        self.line, self.guards, self.loops, self.sig = line, guards, loops, sig

    def __repr__(self):
        return "call %s(%s) @%d" % (self.callee, ", ".join(str(a) for a in self.args), self.line)


def _count_assignments(fn):
    """decl id -> number of writes (=, op=, ++, --, address taken by &) in the function"""
    cnt = {}
    for x in A.walk(fn["body"]):
        k = x["k"]
        tgt = None
        if k in ("BinaryOperator", "CompoundAssignOperator") and x["op"].endswith("=") and \
                x["op"] not in ("==", "!=", "<=", ">="):
            tgt = A.declref(x["c"][0])
        elif k == "UnaryOperator" and x["op"] in ("++", "--"):
            tgt = A.declref(x["c"][0])
        elif k == "CallExpr" and x.get("callee") in ("std::modf", "modf") and len(x.get("args", [])) == 2:
            # out-parameter of modf: handled precisely by the scanner (rebinding), not counted as opaque
            o = A.strip(x["args"][1])
            if o["k"] == "UnaryOperator" and o["op"] == "&":
                o["_modf_out"] = True
        elif k == "UnaryOperator" and x["op"] == "&" and not x.get("_modf_out"):
            tgt = A.declref(x["c"][0])
        if tgt is not None:
            cnt[tgt["decl"]] = cnt.get(tgt["decl"], 0) + 1
    return cnt


def _is_lref(t):
    t = (t or "").strip()
    return t.endswith("&") and not t.endswith("&&")


def _is_ptr(t):
    import re
    return bool(re.search(r"\*\s*(const)?\s*$", t or ""))


class Scanner:
    def __init__(self, fn, hooks=(), bind_params=None):
        self.fn = fn
        self.tr = Translator(hooks=list(hooks) + [self._hook])
        self.accesses = []
        self.calls = []
        self.loops = []
        self.guards = []
        self.assigned = _count_assignments(fn) if fn.get("body") else {}
        self.locals = {}      # decl -> VarDecl dict
        self.returns = []
        self.noncanonical_loops = []
        self.opaque = set()
        self.in_loop_decls = set()
        self._seen_calls = set()
        self.ptr_alias = {}        # local pointer decl -> (array text, offset): T* p = &a[e]
        self.ref_alias = {}        # local reference decl -> (base, idx, path): T& r = a[e] / obj.field
        self.track_all = False     # follow multiply-written scalar locals everywhere (always done inside inlined helpers)
        self.const_arrays = {}     # const local array / std::array with a brace initialiser -> list of element values
        self.struct_vals = {}      # (local struct decl, field) -> value last stored to it on the straight line (for whole-struct fills)
        self.iter_alias = {}       # iterator local walking a container in a counted loop -> (base, idx tuple): *it is base[idx]
        self.cur = {}              # scalar local written more than once -> (current value | None, guard depth, loop depth at its declaration)
        self.inline_value = {}     # call node id -> value of an inlined helper call
        self._inlined_decls = set()
        self.inlined = []          # (call node, callee name) of the helper calls that were looked into
        self._inline_depth = 0
        self.lambdas = {}          # local decl -> LambdaExpr node
        self.range_alias = {}      # reference loop variable of a range-for over a container -> container text
        # aggregate types whose brace-initialised assignment is split into per-field stores
        # (field order is asserted against the class facts by the rules that rely on it)
        self.agg_fields = {"vfps::SourceMap::hi": ["index", "weight"], "hi": ["index", "weight"]}
        if bind_params:
            for p in fn["params"]:
                if p["name"] in bind_params:
                    self.tr.bind(p["decl"], bind_params[p["name"]])

    # -- expression translation hook: arrays, calls ------------------------
    def _elem_of(self, obj, depth=0):
        """array an aggregate value was fetched from: a[e] itself, or a local copy / reference initialised with a[e]"""
        obj = A.strip(obj, casts=False)
        while obj.get("k") in ("CXXConstructExpr", "MaterializeTemporaryExpr", "ImplicitCastExpr") and len(obj.get("args", obj.get("c", []))) == 1:
            obj = A.strip((obj.get("args") or obj.get("c"))[0], casts=False)
        if obj["k"] == "ArraySubscriptExpr" or (obj["k"] == "CXXOperatorCallExpr" and obj.get("op") == "[]"):
            base, idx = self._subscript_chain(obj)
            return base
        d = A.declref(obj)
        if d is not None and depth < 3 and d["decl"] in self.locals and "init" in self.locals[d["decl"]] and self.assigned.get(d["decl"], 0) == 0:
            return self._elem_of(self.locals[d["decl"]]["init"], depth + 1)
        return None

    def _hook(self, n, tr):
        k = n["k"]
        if n.get("id") in self.inline_value:
            return self.inline_value[n["id"]]
        if k in ("CallExpr", "CXXMemberCallExpr", "CXXOperatorCallExpr") and n.get("id") not in self._seen_calls and self._inline_target(n) is not None:
            # a helper call met during translation before its statement was scanned
            self._call(n)
            if n["id"] in self.inline_value:
                return self.inline_value[n["id"]]
        if k == "MemberExpr" and n.get("c") and not A.is_this(n["c"][0]):
            oty = (A.strip(n["c"][0], casts=False).get("ctype") or "").replace("const ", "").strip()
            if oty in ("vfps::SourceMap::hi", "hi"):
                # a field of a stencil-table entry: named after the table, not after the local it was copied to
                if self._elem_of(n["c"][0]) == "_hinfo":
                    return tr.sym("h." + n["member"]["name"])
        if k == "ArraySubscriptExpr" or (k == "CXXOperatorCallExpr" and n.get("op") == "[]"):
            bnode = A.strip(n["c"][0] if k == "ArraySubscriptExpr" else n["args"][0])
            bd = A.declref(bnode)
            if bd is not None and bd.get("decl") in self.const_arrays:
                try:
                    iv = tr.conv(n["c"][1] if k == "ArraySubscriptExpr" else n["args"][1])
                except Unconvertible:
                    iv = None
                tab = self.const_arrays[bd["decl"]]
                if iv is not None and iv.is_Integer and 0 <= int(iv) < len(tab):
                    return tab[int(iv)]
        if k == "ArraySubscriptExpr":
            base, idx = self._subscript_chain(n)
            if base is None:
                return None
            return sp.Indexed(sp.IndexedBase(base), *idx)
        if k == "CXXOperatorCallExpr" and n.get("op") == "[]":
            base, idx = self._subscript_chain(n)
            if base is None:
                return None
            return sp.Indexed(sp.IndexedBase(base), *idx)
        if k in ("CXXConstructExpr", "CXXTemporaryObjectExpr") and "std::complex<" in (n.get("ctype") or "") and \
                len(n.get("args", [])) == 2 and not n.get("list_init_alloc"):
            try:
                return tr.conv(n["args"][0]) + sp.I * tr.conv(n["args"][1])
            except Unconvertible:
                return None
        if k == "InitListExpr" and len(n.get("inits", [])) == 1 and not any(t in (n.get("ctype") or "") for t in ("std::", "[", "struct ", "class ")):
            # scalar brace initialisation: T v{e}
            try:
                return tr.conv(n["inits"][0])
            except Unconvertible:
                return None
        if k == "InitListExpr" and "std::complex<" in (n.get("ctype") or "") and len(n.get("inits", [])) == 2:
            try:
                return tr.conv(n["inits"][0]) + sp.I * tr.conv(n["inits"][1])
            except Unconvertible:
                return None
        if k == "CXXOperatorCallExpr" and n.get("op") in ("+", "-", "*", "/") and len(n.get("args", [])) == 2 and \
                "complex" in (n.get("ctype") or ""):
            try:
                a, b = tr.conv(n["args"][0]), tr.conv(n["args"][1])
            except Unconvertible:
                return None
            return {"+": a + b, "-": a - b, "*": a * b, "/": a / b}[n["op"]]
        if k == "CXXOperatorCallExpr" and n.get("op") == "-" and len(n.get("args", [])) == 1 and "complex" in (n.get("ctype") or ""):
            try:
                return -tr.conv(n["args"][0])
            except Unconvertible:
                return None
        if k == "CXXOperatorCallExpr" and n.get("op") == "()" and n.get("args"):
            # functor call (e.g. a random distribution): an uninterpreted, fresh value per evaluation site
            return sp.Symbol("%s()@%d" % (A.show(n["args"][0]).replace(" ", ""), n["id"]), real=True)
        if k == "CXXOperatorCallExpr" and n.get("op") == "*" and len(n.get("args", [])) == 1:
            d_ = A.declref(n["args"][0])
            if d_ is not None and d_.get("decl") in self.iter_alias:
                b_, i_ = self.iter_alias[d_["decl"]]
                return sp.Indexed(sp.IndexedBase(b_), *i_)
            return sp.Symbol("*" + A.show(n["args"][0]), real=True)
        if k == "UnaryOperator" and n["op"] == "*":
            inner = A.strip(n["c"][0])
            d_ = A.declref(inner)
            if d_ is not None and d_.get("decl") in self.iter_alias:
                b_, i_ = self.iter_alias[d_["decl"]]
                return sp.Indexed(sp.IndexedBase(b_), *i_)
            return sp.Symbol("*" + A.show(inner), real=True)
        if k == "CallExpr" and n.get("callee") == "std::distance" and len(n.get("args", [])) == 2:
            pa, pb = self._iter_pos(n["args"][0]), self._iter_pos(n["args"][1])
            if pa is not None and pb is not None and pa[0] == pb[0]:
                return sp.expand(pb[1] - pa[1])
        if k == "CallExpr" and n.get("callee") in ("std::inner_product", "std::accumulate") and len(n.get("args", [])) in (3, 4):
            r = self._sum_of_algorithm(n)
            if r is not None:
                return r
        if k == "CallExpr" and n.get("callee") in ("std::modf", "modf") and len(n["args"]) == 2:
            x = tr.conv(n["args"][0])
            return frac(x)
        if k == "CallExpr" and n.get("callee") not in STD_FUNCS and n.get("callee"):
            try:
                args = [tr.conv(a) for a in n["args"]]
            except Unconvertible:
                return None
            realv = (n.get("ctype") or "").replace("const ", "") in ("float", "double", "long double", "int", "unsigned int",
                                                                     "long", "unsigned long")
            return sp.Function(n["callee"].replace("::", "_"), real=True if realv else None)(*args) if args else \
                sp.Symbol(n["callee"].replace("::", "_") + "()", real=True)
        if k == "CXXMemberCallExpr" and n.get("callee"):
            obj = A.call_object(n)
            oname = "this" if obj is None or A.is_this(obj) else A.show(obj).replace(" ", "")
            od = A.declref(obj) if obj is not None else None
            if od is not None and od["decl"] in tr.env and od["decl"] in self.locals:
                # a local object bound to an expression (auto bp = ps->getProjection(0)[n]) denotes that expression
                oname = str(tr.env[od["decl"]]).replace(" ", "")
                if n["callee"].split("::")[-1] == "size" and not n.get("args") and isinstance(tr.env[od["decl"]], sp.Indexed):
                    return SIZE(tr.env[od["decl"]])          # size of the row the local stands for: the same term a direct X[i].size() gives
            try:
                args = [tr.conv(a) for a in n["args"]]
            except Unconvertible:
                return None
            return sp.Function(n["callee"].split("::")[-1])(sp.Symbol(oname, real=True), *args)
        if k == "ConditionalOperator":
            try:
                a, b = tr.conv(n["then"]), tr.conv(n["else"])
            except Unconvertible:
                return None
            return sp.Function("ite")(sp.Symbol("(" + A.show(n["cond"]) + ")"), a, b)
        if k == "UnaryExprOrTypeTraitExpr":
            return sp.Function("sizeof")(sp.Symbol(n.get("argtype") or A.show(n)))
        if k == "BinaryOperator" and n["op"] == "%":
            try:
                return sp.Mod(tr.conv(n["c"][0]), tr.conv(n["c"][1]))
            except Unconvertible:
                return None
        return None

    def _subscript_chain(self, n):
        """a[i][j] -> ('a', [i, j]) (works for builtin subscripts and operator[])"""
        idx = []
        cur = n
        while True:
            c = A.strip(cur, casts=False)
            if c["k"] == "ArraySubscriptExpr":
                try:
                    idx.append(self.tr.conv(c["c"][1]))
                except Unconvertible:
                    return None, None
                cur = c["c"][0]
            elif c["k"] == "CXXOperatorCallExpr" and c.get("op") == "[]":
                try:
                    idx.append(self.tr.conv(c["args"][1]))
                except Unconvertible:
                    return None, None
                cur = c["args"][0]
            else:
                break
        idx.reverse()
        base = A.strip(cur)
        d0 = A.declref(base)
        if d0 is not None and d0["decl"] in self.ref_alias and idx:
            rb, ri, rp = self.ref_alias[d0["decl"]]
            if not rp:
                return rb, [sp.expand(i) for i in list(ri)] + [sp.expand(i) for i in idx]
        if d0 is not None and d0["decl"] in self.ptr_alias and idx:
            pbase, poff = self.ptr_alias[d0["decl"]]
            return pbase, [sp.expand(poff + idx[0])] + [sp.expand(i) for i in idx[1:]]
        # a local (reference) variable bound to an expression denotes that expression
        d = A.declref(base)
        if d is not None and d["decl"] in self.tr.env and d["decl"] in self.locals and \
                ("&" in (self.locals[d["decl"]].get("type") or "")):
            return str(self.tr.env[d["decl"]]).replace(" ", ""), [sp.expand(i) for i in idx]
        if base.get("k") in ("CXXMemberCallExpr", "CallExpr"):
            try:
                return str(self.tr.conv(base)).replace(" ", ""), [sp.expand(i) for i in idx]
            except Unconvertible:
                pass
        return A.show(base).replace(" ", ""), [sp.expand(i) for i in idx]

    def _containerlike_data(self, n):
        """n is `obj.data()` / `ptr->data()` of a class of the program whose data() returns F.data() and whose operator[](i) returns F[i] for
        the same member F: the pointer is the address of element 0 of what `obj[i]` / `(*ptr)[i]` subscripts -> the array name those
        subscripts get, else None"""
        if n.get("k") != "CXXMemberCallExpr" or PROGRAM is None or n.get("args"):
            return None
        cal = n.get("callee") or ""
        if cal.split("::")[-1] != "data" or cal.startswith("std::") or cal.startswith("boost::"):
            return None
        cls = cal.rsplit("::", 1)[0]

        def returned_member(fq, want):
            rets = [y for y in A.walk(fq["body"]) if y.get("k") == "ReturnStmt"] if fq.get("body") else []
            if len(rets) != 1 or not rets[0].get("c"):
                return None
            e = A.strip(rets[0]["c"][0])
            if want == "data" and e.get("k") == "CXXMemberCallExpr" and (e.get("callee") or "").split("::")[-1] == "data" and A.call_object(e) is not None:
                return A.this_field(A.strip(A.call_object(e)))
            if want == "elem":
                if e.get("k") == "CXXOperatorCallExpr" and e.get("op") == "[]" and len(e.get("args", [])) == 2:
                    ix = A.declref(e["args"][1])
                    if ix is not None and ix.get("dkind") == "ParmVar":
                        return A.this_field(A.strip(e["args"][0]))
                if e.get("k") == "ArraySubscriptExpr":
                    ix = A.declref(e["c"][1])
                    if ix is not None and ix.get("dkind") == "ParmVar":
                        return A.this_field(A.strip(e["c"][0]))
            return None
        fd = [returned_member(f_, "data") for f_ in PROGRAM.fns(cal)]
        fe = [returned_member(f_, "elem") for f_ in PROGRAM.fns(cls + "::operator[]")]
        if not fd or not fe or None in fd or None in fe or len(set(fd) | set(fe)) != 1:
            return None
        fnn = A.strip(n.get("fn")) if n.get("fn") else None
        obj = A.call_object(n)
        if obj is None or fnn is None:
            return None
        text = A.show(A.strip(obj)).replace(" ", "")
        return ("*" + text) if fnn.get("arrow") else text

    def _pointer_into(self, n):
        n = A.strip(n)
        cl_ = self._containerlike_data(n)
        if cl_ is not None:
            return cl_, sp.Integer(0)
        if n.get("k") == "UnaryOperator" and n.get("op") == "&":
            t = A.strip(n["c"][0], casts=False)
            if t["k"] == "ArraySubscriptExpr" or (t["k"] == "CXXOperatorCallExpr" and t.get("op") == "[]"):
                base, idx = self._subscript_chain(t)
                if base is not None and len(idx) == 1:
                    return base, idx[0]
        if n.get("k") == "BinaryOperator" and n.get("op") == "+":
            l, r = A.strip(n["c"][0]), n["c"][1]
            if l.get("k") == "CXXMemberCallExpr" and (l.get("callee") or "").split("::")[-1] == "data" and A.call_object(l) is not None and \
                    "std::" in (l.get("callee") or ""):
                off = self._try(r)
                o_ = A.strip(A.call_object(l))
                nm_ = A.this_field(o_) or (A.declref(o_) or {}).get("name")
                if off is not None and nm_:
                    return nm_, off         # v.data() + e points at v[e]
            if _is_ptr(l.get("ctype")):
                off = self._try(r)
                if off is not None and l.get("k") in ("DeclRefExpr", "MemberExpr"):
                    d_ = A.declref(l)
                    if d_ is not None and d_["decl"] in self.ptr_alias:
                        b0, o0 = self.ptr_alias[d_["decl"]]
                        return b0, sp.expand(o0 + off)
                    return A.show(l).replace(" ", ""), off
                if off is not None and l.get("k") == "BinaryOperator":
                    inner = self._pointer_into(l)
                    if inner is not None:
                        return inner[0], sp.expand(inner[1] + off)
        return None

    # -- helpers -----------------------------------------------------------
    def _ctx(self):
        return list(self.guards), list(self.loops)

    def _try(self, n):
        try:
            return sp.expand(self.tr.conv(n))
        except Unconvertible:
            return None
        except (TypeError, ValueError):
            return None

    def _lvalue(self, n):
        """-> (base, idx tuple|None, path) for arrays / fields / vars"""
        n = A.strip(n, casts=False)
        path = ""
        while n["k"] == "MemberExpr" and not A.is_this(n["c"][0]) and \
                A.strip(n["c"][0], casts=False)["k"] in ("ArraySubscriptExpr", "CXXOperatorCallExpr", "MemberExpr",
                                                         "DeclRefExpr"):
            inner = A.strip(n["c"][0], casts=False)
            if (inner["k"] == "DeclRefExpr" and inner.get("decl") not in self.ref_alias and inner.get("decl") not in self.range_alias) or \
                    (inner["k"] == "MemberExpr" and n.get("arrow")):
                break
            path = "." + n["member"]["name"] + path
            n = inner
        if n["k"] in ("ArraySubscriptExpr",) or (n["k"] == "CXXOperatorCallExpr" and n.get("op") == "[]"):
            base, idx = self._subscript_chain(n)
            if base is not None:
                return base, tuple(idx), path, n
        if (n["k"] == "UnaryOperator" and n["op"] == "*") or (n["k"] == "CXXOperatorCallExpr" and n.get("op") == "*" and len(n.get("args", [])) == 1):
            inner_ = n["c"][0] if n["k"] == "UnaryOperator" else n["args"][0]
            d_ = A.declref(inner_)
            if d_ is not None and d_.get("decl") in self.iter_alias:
                b_, i_ = self.iter_alias[d_["decl"]]
                return b_, tuple(i_), path, n
        if n["k"] == "UnaryOperator" and n["op"] == "*":
            return A.show(A.strip(n["c"][0])).replace(" ", ""), (sp.Integer(0),), path, n
        if n["k"] == "DeclRefExpr" and n["decl"] in self.range_alias:
            cont, sym = self.range_alias[n["decl"]]
            return cont, (sym,), path, n
        if n["k"] == "DeclRefExpr" and n["decl"] in self.ref_alias:
            b_, i_, p_ = self.ref_alias[n["decl"]]
            return b_, i_, p_ + path, n
        return A.show(n).replace(" ", ""), None, path, n

    def _loads(self, n, skip=None, skip_outer_element=False):
        """record array reads in expression n"""
        if n is None:
            return
        stack = [n]
        first_elem = skip_outer_element
        while stack:
            x = stack.pop()
            if skip is not None and x is skip:
                continue
            k = x["k"]
            if ((k == "UnaryOperator" and x.get("op") == "*") or (k == "CXXOperatorCallExpr" and x.get("op") == "*" and len(x.get("args", [])) == 1)):
                d_ = A.declref(x["c"][0] if k == "UnaryOperator" else x["args"][0])
                if d_ is not None and d_.get("decl") in self.iter_alias:
                    b_, i_ = self.iter_alias[d_["decl"]]
                    g, l = self._ctx()
                    self.accesses.append(Access("load", b_, tuple(i_), "", x, x["line"], g, l))
                    continue
            if k == "DeclRefExpr" and x.get("decl") in self.ref_alias:
                b_, i_, p_ = self.ref_alias[x["decl"]]
                if i_ is not None:
                    g, l = self._ctx()
                    self.accesses.append(Access("load", b_, i_, p_, x, x["line"], g, l))
                continue
            if first_elem and (k == "ArraySubscriptExpr" or (k == "CXXOperatorCallExpr" and x.get("op") == "[]")):
                # binding a reference to the element reads the index expressions only
                first_elem = False
                cur = x
                while True:
                    c = A.strip(cur, casts=False)
                    if c["k"] == "ArraySubscriptExpr":
                        stack.append(c["c"][1]); cur = c["c"][0]
                    elif c["k"] == "CXXOperatorCallExpr" and c.get("op") == "[]":
                        stack.append(c["args"][1]); cur = c["args"][0]
                    else:
                        if c["k"] not in ("DeclRefExpr", "MemberExpr"):
                            stack.append(c)
                        break
                continue
            if k == "UnaryOperator" and x.get("op") == "&":
                t = A.strip(x["c"][0], casts=False)
                if t["k"] == "ArraySubscriptExpr":
                    # taking the address of an element reads nothing but the index expression
                    stack.append(t["c"][1])
                    b_ = A.strip(t["c"][0], casts=False)
                    if b_["k"] not in ("DeclRefExpr", "MemberExpr"):
                        stack.append(b_)
                    continue
            if k == "ArraySubscriptExpr" or (k == "CXXOperatorCallExpr" and x.get("op") == "[]"):
                # only outermost of a chain
                base, idx = self._subscript_chain(x)
                g, l = self._ctx()
                self.accesses.append(Access("load", base or A.show(x), tuple(idx) if idx is not None else None,
                                            "", x, x["line"], g, l))
                # index sub-expressions may contain loads too
                cur = x
                while True:
                    c = A.strip(cur, casts=False)
                    if c["k"] == "ArraySubscriptExpr":
                        stack.append(c["c"][1]); cur = c["c"][0]
                    elif c["k"] == "CXXOperatorCallExpr" and c.get("op") == "[]":
                        stack.append(c["args"][1]); cur = c["args"][0]
                    else:
                        stack.append(c) if c["k"] not in ("DeclRefExpr", "MemberExpr") else None
                        break
                continue
            if k in ("CallExpr", "CXXMemberCallExpr", "CXXConstructExpr", "CXXTemporaryObjectExpr") or \
                    (k == "CXXOperatorCallExpr"):
                self._call(x)
            if k == "LambdaExpr":
                continue
            stack.extend(reversed(A.children(x)))

    def _call(self, x):
        if x["id"] in self._seen_calls:
            return
        self._seen_calls.add(x["id"])
        g, l = self._ctx()
        args = [self._try(a) for a in x.get("args", [])]
        self.calls.append(Call(x.get("callee"), x, args, x.get("args", []), A.call_object(x), x["line"], g, l,
                               x.get("callee_sig")))
        if x.get("callee") in ("std::copy_n", "std::fill_n") and len(x.get("args", [])) == 3:
            self._elements_of_bulk(x)
        if x.get("callee") == "std::transform" and len(x.get("args", [])) in (4, 5):
            self._elements_of_transform(x)
        self._inline(x)

    def _ite_chain(self, items):
        """items: [(extra guards, value)] of the returns of a helper -> ite(c1, v1, ite(c2, v2, ...)) when the guards form a chain"""
        if not items:
            return None
        if len(items) == 1:
            return items[0][1] if not items[0][0] or True else None
        # split on the first guard of the first item
        g0 = items[0][0]
        if not g0:
            return None
        c0, p0 = g0[0]
        if not isinstance(c0, dict) or c0.get("k") in ("SwitchCase", "Catch"):
            return None
        yes, no = [], []
        for g_, v_ in items:
            if g_ and g_[0][0] is c0 or (g_ and isinstance(g_[0][0], dict) and A.show(A.strip(g_[0][0])) == A.show(A.strip(c0))):
                (yes if g_[0][1] == p0 else no).append((g_[1:], v_))
            elif g_ and guards_complementary(g_[0], (c0, p0)):
                no.append((g_[1:], v_))
            else:
                return None
        if not yes or not no:
            return None
        a = self._ite_chain(yes) if len(yes) > 1 else yes[0][1]
        b = self._ite_chain(no) if len(no) > 1 else no[0][1]
        if a is None or b is None:
            return None
        cs = sp.Symbol("(" + A.show(A.strip(c0)) + ")")
        return sp.Function("ite")(cs, a, b) if p0 else sp.Function("ite")(cs, b, a)

    def _array_of(self, node):
        """pointer-valued argument -> (array name, offset) when it points into a named array: a, &a[e], a+e, a.data()+e"""
        pa = self._pointer_into(node)
        if pa is not None:
            return pa
        n = A.strip(node)
        d = A.declref(n)
        if d is not None:
            if d.get("decl") in self.ptr_alias:
                return self.ptr_alias[d["decl"]]
            loc = self.locals.get(d.get("decl"))
            if loc is not None and ("[" in (loc.get("ctype") or loc.get("type") or "") or _is_ptr(loc.get("ctype") or loc.get("type"))):
                return d["name"], sp.Integer(0)             # a local array / a pointer local used as the array it points to
        f = A.this_field(n)
        if f is not None and _is_ptr(n.get("ctype")):
            return f, sp.Integer(0)
        if n.get("k") == "CXXMemberCallExpr" and (n.get("callee") or "").split("::")[-1] == "data" and "std::" in (n.get("callee") or "") and A.call_object(n) is not None:
            o_ = A.strip(A.call_object(n))
            nm_ = A.this_field(o_) or (A.declref(o_) or {}).get("name")
            if nm_:
                return nm_, sp.Integer(0)
        return None

    def _elements_of_bulk(self, x):
        """std::copy_n(src, n, dst) / std::fill_n(dst, n, v) on named arrays, seen also as the element accesses they perform
        (dst[o+j] = src[p+j] / dst[o+j] = v for j in [0, n)): rules that read element stores then cover the algorithm spelling too"""
        a = x["args"]
        cal = x["callee"]
        dst = self._array_of(a[2] if cal == "std::copy_n" else a[0])
        n = self._try(a[1])
        if dst is None or n is None:
            return
        jsym = sp.Symbol("j_%d" % x["id"], integer=True)
        L = Loop("j_%d" % x["id"], None, jsym, sp.Integer(0), n, "<", 1, x)
        g, l = self._ctx()
        l = l + [L]
        if cal == "std::copy_n":
            src = self._array_of(a[0])
            if src is None:
                return
            ld = Access("load", src[0], (sp.expand(src[1] + jsym),), "", x, x["line"], g, l)
            st = Access("store", dst[0], (sp.expand(dst[1] + jsym),), "", x, x["line"], g, l, "=", sp.Indexed(sp.IndexedBase(src[0]), sp.expand(src[1] + jsym)), a[0], x)
            ld.from_bulk = st.from_bulk = x
            self.accesses.extend([ld, st])
            return
        v = A.strip(a[2])
        vd = A.declref(v)
        ty = (v.get("ctype") or "").replace("const ", "").strip()
        if vd is not None and ty in self.agg_fields and all((vd["decl"], f_) in self.struct_vals for f_ in self.agg_fields[ty]):
            for f_ in self.agg_fields[ty]:
                st = Access("store", dst[0], (sp.expand(dst[1] + jsym),), "." + f_, x, x["line"], g, l, "=", self.struct_vals[(vd["decl"], f_)], a[2], x)
                st.from_bulk = x
                self.accesses.append(st)
            return
        val = self._try(a[2])
        st = Access("store", dst[0], (sp.expand(dst[1] + jsym),), "", x, x["line"], g, l, "=", val, a[2], x)
        st.from_bulk = x
        self.accesses.append(st)

    def _elements_of_transform(self, x):
        """std::transform(f1, l1, [f2,] out, lambda) on named arrays, seen also as out[o+j] = body(f1[p+j] [, f2[q+j]]) for j in [0, l1-f1),
        when the lambda's body is one return statement"""
        a = x["args"]
        lam = A.strip(a[-1], casts=False)
        while lam.get("k") in ("MaterializeTemporaryExpr", "CXXBindTemporaryExpr", "ImplicitCastExpr", "CXXConstructExpr", "CXXFunctionalCastExpr", "ParenExpr",
                               "ExprWithCleanups") and len(lam.get("args", lam.get("c", []))) == 1:
            lam = A.strip((lam.get("args") or lam.get("c"))[0], casts=False)
        if lam.get("k") != "LambdaExpr":
            d = A.declref(lam)
            lam = self.lambdas.get(d["decl"]) if d is not None and d.get("decl") in self.lambdas else None
        if lam is None or lam.get("body") is None or lam.get("params") is None:
            return
        sts = [st for st in (lam["body"].get("c") or []) if st.get("k") != "NullStmt"]
        if len(sts) != 1 or sts[0].get("k") != "ReturnStmt" or not sts[0].get("c"):
            return
        srcs = [self._array_of(a[0])] + ([self._array_of(a[2])] if len(a) == 5 else [])
        last, dst = self._array_of(a[1]), self._array_of(a[-2])
        if None in srcs or last is None or dst is None or last[0] != srcs[0][0] or len(lam["params"]) != len(srcs):
            return
        n = sp.expand(last[1] - srcs[0][1])
        jsym = sp.Symbol("j_%d" % x["id"], integer=True)
        L = Loop("j_%d" % x["id"], None, jsym, sp.Integer(0), n, "<", 1, x)
        g, l = self._ctx()
        l = l + [L]
        saved = {}
        for p_, (b_, o_) in zip(lam["params"], srcs):
            saved[p_["decl"]] = self.tr.env.get(p_["decl"])
            self.tr.bind(p_["decl"], sp.Indexed(sp.IndexedBase(b_), sp.expand(o_ + jsym)))
        try:
            val = self._try(sts[0]["c"][0])
        finally:
            for k_, v_ in saved.items():
                if v_ is None:
                    self.tr.env.pop(k_, None)
                else:
                    self.tr.env[k_] = v_
        if val is None:
            return
        for b_, o_ in srcs:
            ld = Access("load", b_, (sp.expand(o_ + jsym),), "", x, x["line"], g, l)
            ld.from_bulk = x
            self.accesses.append(ld)
        st = Access("store", dst[0], (sp.expand(dst[1] + jsym),), "", x, x["line"], g, l, "=", val, sts[0]["c"][0], x)
        st.from_bulk = x
        self.accesses.append(st)

    # -- looking into helper functions and lambdas ----------------------------
    def _inline_target(self, x):
        """-> (name, params, body, arg nodes) of a helper this call can be replaced by, or None"""
        k = x["k"]
        if k == "CXXOperatorCallExpr" and x.get("op") == "()" and x.get("args"):
            lam0 = A.strip(x["args"][0], casts=False)
            while lam0.get("k") in ("MaterializeTemporaryExpr", "CXXBindTemporaryExpr", "ImplicitCastExpr", "CXXConstructExpr", "CXXFunctionalCastExpr", "ParenExpr") and \
                    len(lam0.get("args", lam0.get("c", []))) == 1:
                lam0 = A.strip((lam0.get("args") or lam0.get("c"))[0], casts=False)
            if lam0.get("k") == "LambdaExpr" and lam0.get("body") is not None and lam0.get("params") is not None:
                return ("lambda (called in place)", lam0["params"], lam0["body"], x["args"][1:], None)      # [&]{ ... }()
            d = A.declref(x["args"][0])
            if d is not None and d["decl"] in self.lambdas:
                lam = self.lambdas[d["decl"]]
                if lam.get("body") is not None and lam.get("params") is not None:
                    return ("lambda " + d["name"], lam["params"], lam["body"], x["args"][1:], None)
            return None
        if k not in ("CallExpr", "CXXMemberCallExpr") or PROGRAM is None:
            return None
        if not x.get("callee_in_root") or x.get("callee_virtual") or not x.get("callee_sig"):
            return None
        short = (x.get("callee") or "").split("::")[-1]
        if short in _rule_vocabulary():
            return None
        if k == "CXXMemberCallExpr":
            o = A.call_object(x)
            if o is not None and not A.is_this(o):
                return None
        f = PROGRAM.copies.get((x["callee_sig"], self.fn.get("unit")))
        if f is None or not f.get("body") or f is self.fn or f.get("kind") in ("ctor", "dtor"):
            return None
        if len(f["params"]) < len(x.get("args", [])):
            return None
        return (x["callee"], f["params"], f["body"], x.get("args", []), f)

    def _inline(self, x):
        if self._inline_depth >= 3:
            return
        tgt = self._inline_target(x)
        if tgt is None:
            return
        name, params, body, args, callee_fn = tgt
        if len(args) < len([p for p in params]):
            # default arguments are not followed
            if len(args) != len(params):
                return
        saved_assigned = dict(self.assigned)
        sub = _count_assignments({"body": body})
        for k_, v_ in sub.items():
            self.assigned[k_] = saved_assigned.get(k_, 0) + v_ if k_ not in self._inlined_decls else v_
            self._inlined_decls.add(k_)
        for p_, a_ in zip(params, args):
            self.locals[p_["decl"]] = dict(p_, k="ParmVarDecl", init=a_)
            if _is_lref(p_.get("type")) or _is_lref(p_.get("ctype")):
                tgt_ = A.strip(a_, casts=False)
                try:
                    b_, i_, pth_, _n = self._lvalue(tgt_)
                except Exception:
                    b_, i_, pth_ = None, None, ""
                if b_ is not None and (i_ is not None or tgt_.get("k") in ("MemberExpr", "DeclRefExpr")):
                    self.ref_alias[p_["decl"]] = (b_, i_, pth_)
                v = self._try(a_)
                if v is not None:
                    self.tr.bind(p_["decl"], v)
                else:
                    self.tr.bind(p_["decl"], sp.Symbol(A.show(A.strip(a_)).replace(" ", ""), real=True))
                continue
            if _is_ptr(p_.get("ctype") or p_.get("type")):
                pa = self._pointer_into(a_)
                if pa is not None:
                    self.ptr_alias[p_["decl"]] = pa
                    continue
            if sub.get(p_["decl"], 0) == 0:
                v = self._try(a_)
                if v is not None:
                    self.tr.bind(p_["decl"], v)
        saved_returns, self.returns = self.returns, []
        self._inline_depth += 1
        try:
            self.stmt(body)
        finally:
            self._inline_depth -= 1
        rets, self.returns = self.returns, saved_returns
        self.inlined.append((x, name, body, callee_fn))
        with_value = [r for r in rets if r[0].get("c")]
        if len(with_value) == 1 and len(rets) == 1:
            v = self._try(with_value[0][0]["c"][0])
            if v is not None:
                self.inline_value[x["id"]] = v
        elif len(with_value) == len(rets) and len(rets) > 1 and all(len(r[2]) == len(self.loops) for r in rets):
            # several returns selected by conditions (if/else chain or early returns): the value is the matching ite(...) chain
            base = len(self.guards)
            items = []
            for r_, g_, l_ in rets:
                v_ = self._try(r_["c"][0])
                if v_ is None:
                    items = None
                    break
                items.append((plain_guards(g_[base:]), v_))
            v = self._ite_chain(items) if items else None
            if v is not None:
                self.inline_value[x["id"]] = v
        merged = dict(saved_assigned)
        for k_ in sub:
            merged[k_] = self.assigned[k_]
        self.assigned = merged

    # -- statements ----------------------------------------------------------
    def expr_stmt(self, s):
        n = A.strip(s, casts=False)
        k = n["k"]
        if k in ("BinaryOperator", "CompoundAssignOperator") and n["op"].endswith("=") and \
                n["op"] not in ("==", "!=", "<=", ">="):
            lhs, rhs = n["c"][0], n["c"][1]
            base, idx, path, lnode = self._lvalue(lhs)
            # chained assignment a = b = c
            self._loads(rhs)
            if idx is not None:
                for sub in A.children(lnode):
                    pass
                self._loads_in_indices(lnode)
            val = self._try(rhs)
            g, l = self._ctx()
            self.accesses.append(Access("store", base, idx, path, n, n["line"], g, l, n["op"], val, rhs, lnode))
            self._modf_out(rhs)
            self._track(A.declref(lhs), n["op"], val, idx)
            ls_ = A.strip(lhs, casts=False)
            if ls_.get("k") == "MemberExpr" and n["op"] == "=" and ls_.get("c") and not ls_.get("arrow"):
                od_ = A.declref(ls_["c"][0])
                if od_ is not None and od_.get("decl") in self.locals and val is not None:
                    self.struct_vals[(od_["decl"], ls_["member"]["name"])] = val
            # bind single-assignment locals
            dr = A.declref(lhs)
            if dr is not None and n["op"] == "=" and self.assigned.get(dr["decl"], 0) == 1 and \
                    dr["decl"] in self.locals and "init" not in self.locals[dr["decl"]] and val is not None \
                    and not self._assigned_in_inner_loop(dr["decl"]):
                self.tr.bind(dr["decl"], val)
            return
        if k == "CXXOperatorCallExpr" and n.get("op") in ("=", "+=", "-=", "*=", "/=") and len(n.get("args", [])) == 2:
            lhs, rhs = n["args"]
            base, idx, path, lnode = self._lvalue(lhs)
            self._loads(rhs)
            if idx is not None:
                self._loads_in_indices(lnode)
            g, l = self._ctx()
            agg = A.strip(rhs, casts=False)
            if agg["k"] == "InitListExpr" and n["op"] == "=" and \
                    len(agg.get("inits", [])) == len(self.agg_fields.get(agg.get("type", ""), [])):
                for fname, ini in zip(self.agg_fields[agg["type"]], agg["inits"]):
                    self.accesses.append(Access("store", base, idx, path + "." + fname, n, n["line"], g, l, "=",
                                                self._try(ini), ini, lnode))
            else:
                val = self._try(rhs)
                self.accesses.append(Access("store", base, idx, path, n, n["line"], g, l, n["op"], val, rhs, lnode))
            self._call(n)
            return
        if k == "UnaryOperator" and n["op"] in ("++", "--"):
            self._track(A.declref(n["c"][0]), "+=" if n["op"] == "++" else "-=", sp.Integer(1), None)
            base, idx, path, lnode = self._lvalue(n["c"][0])
            g, l = self._ctx()
            self.accesses.append(Access("store", base, idx, path, n, n["line"], g, l, n["op"], None, None, lnode))
            return
        self._loads(n)
        self._modf_out(n)

    def _assigned_in_inner_loop(self, decl):
        # a local declared outside the current loop nest but assigned inside it carries a value per
        # iteration; binding is still sound inside the iteration (used after assignment, same iteration)
        return False

    def _loads_in_indices(self, lnode):
        cur = lnode
        while True:
            c = A.strip(cur, casts=False)
            if c["k"] == "ArraySubscriptExpr":
                self._loads(c["c"][1]); cur = c["c"][0]
            elif c["k"] == "CXXOperatorCallExpr" and c.get("op") == "[]":
                self._loads(c["args"][1]); cur = c["args"][0]
            else:
                break

    def _modf_out(self, n):
        for x in A.walk(n):
            if x["k"] == "CallExpr" and x.get("callee") in ("std::modf", "modf") and len(x["args"]) == 2:
                out = A.strip(x["args"][1])
                if out["k"] == "UnaryOperator" and out["op"] == "&":
                    dr = A.declref(out["c"][0])
                    if dr is not None:
                        v = self._try(x["args"][0])
                        if v is not None:
                            # note: bound *after* the argument was evaluated
                            self.tr.bind(dr["decl"], ipart(v))

    def stmt(self, s):
        if s is None:
            return
        k = s["k"]
        if k == "CompoundStmt":
            self._compound(s.get("c", []))
        elif k == "DeclStmt":
            for d in s["decls"]:
                if d.get("k") != "VarDecl":
                    continue
                self.locals[d["decl"]] = d
                if "init" in d:
                    lam = A.strip(d["init"], casts=False)
                    while lam.get("k") in ("CXXConstructExpr", "MaterializeTemporaryExpr", "ExprWithCleanups", "CXXBindTemporaryExpr", "ImplicitCastExpr") and \
                            len(lam.get("args", lam.get("c", []))) == 1:
                        lam = A.strip((lam.get("args") or lam.get("c"))[0], casts=False)
                    if lam.get("k") == "LambdaExpr":
                        self.lambdas[d["decl"]] = lam
                        continue
                if "init" in d and _is_ptr(d.get("ctype") or d.get("type")) and self.assigned.get(d["decl"], 0) == 0:
                    # pointer into an array: T* p = &a[e]  or  T* p = a + e   ->  p[i] is a[e + i]
                    pa = self._pointer_into(d["init"])
                    if pa is not None:
                        self.ptr_alias[d["decl"]] = pa
                if "init" in d and (d.get("ctype") or "").startswith("const ") and ("std::array<" in (d.get("ctype") or "") or "[" in (d.get("ctype") or "")) and \
                        self.assigned.get(d["decl"], 0) == 0:
                    il_ = [y for y in A.walk(d["init"]) if y.get("k") == "InitListExpr"]
                    if il_:
                        inner_ = il_[-1]
                        vals_ = [self._try(e_) for e_ in inner_.get("inits", [])]
                        if vals_ and all(v_ is not None for v_ in vals_):
                            self.const_arrays[d["decl"]] = vals_        # a table of constants: t[k] with constant k is its k-th entry
                is_ref = _is_lref(d.get("type")) or _is_lref(d.get("ctype")) or \
                    any(t_ in (d.get("ctype") or "") for t_ in ("multi_array::sub_array", "multi_array::const_sub_array", "multi_array::multi_array_view"))
                # (a boost sub_array is a view: a value type that aliases the rows it was taken from)
                if "init" in d and is_ref:
                    # reference to an array element or field: reads and writes through it are accesses of that element
                    tgt = A.strip(d["init"], casts=False)
                    while tgt.get("k") in ("MaterializeTemporaryExpr", "ImplicitCastExpr", "ExprWithCleanups") and tgt.get("c"):
                        tgt = A.strip(tgt["c"][0], casts=False)
                    if tgt.get("k") in ("ArraySubscriptExpr", "MemberExpr", "DeclRefExpr") or (tgt.get("k") == "CXXOperatorCallExpr" and tgt.get("op") == "[]"):
                        b_, i_, p_, _n = self._lvalue(tgt)
                        if i_ is not None or tgt.get("k") == "MemberExpr":
                            self.ref_alias[d["decl"]] = (b_, i_, p_)
                if "init" in d:
                    self._loads(d["init"], skip_outer_element=d["decl"] in self.ref_alias)
                    v = self._try(d["init"])
                    self._modf_out(d["init"])
                    if (self.assigned.get(d["decl"], 0) == 0 or d["decl"] in self.ref_alias) and v is not None:
                        self.tr.bind(d["decl"], v)
                    elif (self._inline_depth > 0 or self.track_all) and self.assigned.get(d["decl"], 0) > 0 and d["decl"] not in self.ptr_alias and \
                            not _is_ptr(d.get("ctype") or d.get("type")):
                        # written again later: follow its value through straight-line and singly-guarded updates (see _track)
                        self.cur[d["decl"]] = (v, len(self.guards), len(self.loops))
                        if v is not None:
                            self.tr.bind(d["decl"], v)
                    g, l = self._ctx()
                    self.accesses.append(Access("store", d["name"], None, "", s, s["line"], g, l, "=",
                                                v, d["init"], None))
        elif k == "ForStmt":
            h = A.for_header(s)
            ih = self._iter_for(s) if h is None else None
            if ih is not None:
                name = ih["name"]
                sym = sp.Symbol(name, integer=True)
                if any(L.name == name for L in self.loops):
                    sym = sp.Symbol("%s_%d" % (name, ih["decl"]), integer=True)
                self.locals[ih["decl"]] = ih["var"]
                el = ih["elem"].subs(K_, sym)
                self.iter_alias[ih["decl"]] = (str(el.base), tuple(el.indices))
                self._loads(ih["hi_node"])
                self.loops.append(Loop(name, ih["decl"], sym, sp.Integer(0), ih["hi"], "<", 1, s))
                L_ = self.loops[-1]
                self._parallel_iterators(L_, s.get("body"))
                for it_decl, cont in self._par_iters.get(id(L_), {}).items():
                    c2 = cont.subs(K_, sym)
                    self.iter_alias[it_decl] = (str(c2.base), tuple(c2.indices))
                mark = (len(self.accesses), len(self.calls))
                body = s.get("body")
                if self._par_iters.get(id(L_)) and body is not None and body.get("k") == "CompoundStmt":
                    self._compound(body["c"][:-1])       # the trailing ++other is the loop's own bookkeeping
                else:
                    self.stmt(body)
                self.loops.pop()
                self._accumulators(L_, mark)
                return
            if h is None:
                self.noncanonical_loops.append(s)
                if s.get("init"):
                    self.stmt(s["init"])
                self.guards.append((s.get("cond"), True))
                self.stmt(s.get("body"))
                self.guards.pop()
                return
            lo = self._try(h["lo"])
            hi = self._try(h["hi"])
            self._loads(h["hi"])
            name = self._loop_name(h["name"], lo, hi, h["cmp"])
            sym = sp.Symbol(name, integer=True)
            # distinguish equally named loop variables of different loops by decl id when clashing
            if any(L.name == name for L in self.loops):
                sym = sp.Symbol("%s_%d" % (name, h["decl"]), integer=True)
            self.tr.bind(h["decl"], sym)
            self.loops.append(Loop(name, h["decl"], sym, lo, hi, h["cmp"], h["step"], s))
            mark = (len(self.accesses), len(self.calls))
            self.stmt(s.get("body"))
            L_ = self.loops.pop()
            self._bulk_from_loop(L_, mark, s.get("body"))
            self._accumulators(L_, mark)
        elif k == "CXXForRangeStmt":
            lv = s["loopvar"]
            sym = sp.Symbol(lv["name"], real=True)
            self.tr.bind(lv["decl"], sym)
            if "&" in (lv.get("type") or "") and "const" not in (lv.get("type") or "") and s.get("range") is not None:
                self.range_alias[lv["decl"]] = (A.show(A.strip(s["range"])).replace(" ", ""), sym)
            self._loads(s.get("range"))
            self.loops.append(Loop(lv["name"], lv["decl"], sym, None, None, "range", 1, s))
            mark = (len(self.accesses), len(self.calls))
            L_ = self.loops[-1]
            self._parallel_iterators(L_, s.get("body"))
            self.stmt(s.get("body"))
            self.loops.pop()
            rc = None
            r_ = A.strip(s.get("range") or {}, casts=False) if s.get("range") else None
            if r_ is not None:
                if r_.get("k") in ("ArraySubscriptExpr",) or (r_.get("k") == "CXXOperatorCallExpr" and r_.get("op") == "[]"):
                    b_, i_ = self._subscript_chain(r_)
                    if b_ is not None:
                        rc = (sp.Indexed(sp.IndexedBase(b_), *(list(i_) + [K_])), SIZE(sp.Indexed(sp.IndexedBase(b_), *i_)))
                else:
                    nm_ = A.this_field(r_) or (A.declref(r_) or {}).get("name")
                    if nm_:
                        rc = (sp.Indexed(sp.IndexedBase(nm_), K_), SIZE(sp.Symbol(nm_, real=True)))
            self._accumulators(L_, mark, rc)
        elif k == "WhileStmt" and self._while_header(s) is not None:
            h = self._while_header(s)
            lo = h["lo"]
            hi = self._try(h["hi"])
            self._loads(h["hi"])
            name = self._loop_name(h["name"], lo, hi, h["cmp"])
            sym = sp.Symbol(name, integer=True)
            if any(L.name == name for L in self.loops):
                sym = sp.Symbol("%s_%d" % (name, h["decl"]), integer=True)
            self.tr.bind(h["decl"], sym)
            self.loops.append(Loop(name, h["decl"], sym, lo, hi, h["cmp"], 1, s))
            mark = (len(self.accesses), len(self.calls))
            self._compound(h["body"])
            L_ = self.loops.pop()
            self._bulk_from_loop(L_, mark, {"k": "CompoundStmt", "c": h["body"]})
            self._accumulators(L_, mark)
        elif k in ("WhileStmt", "DoStmt"):
            self._loads(s.get("cond"))
            self.loops.append(Loop("<while>", None, None, None, None, "while", None, s))
            self.guards.append((s.get("cond"), True))
            self.stmt(s.get("body"))
            self.guards.pop()
            self.loops.pop()
        elif k == "IfStmt":
            if s.get("init"):
                self.stmt(s["init"])
            self._loads(s.get("cond"))
            ec = self._eq_const(s["cond"])
            if ec is not None:
                # `if (e == CONST)` selects like `switch (e) { case CONST: }`: same guard form for both spellings
                self.guards.append(({"k": "SwitchCase", "cond": ec[0], "labels": [ec[1]], "line": s["line"], "id": -s["id"], "from_if": s["cond"]}, True))
            else:
                self.guards.append(self._guard(s["cond"], True))
            self.stmt(s.get("then"))
            self.guards.pop()
            if s.get("else"):
                self.guards.append(self._guard(s["cond"], False))
                self.stmt(s["else"])
                self.guards.pop()
        elif k == "SwitchStmt":
            from .rules.common import switch_cases
            self._loads(s.get("cond"))
            for labels, stmts, line in switch_cases(s):
                self.guards.append(({"k": "SwitchCase", "cond": s["cond"], "labels": labels, "line": line,
                                     "id": -s["id"]}, True))
                for st in stmts:
                    self.stmt(st)
                self.guards.pop()
        elif k == "CXXTryStmt":
            self.stmt(s.get("body"))
            for h in s.get("handlers", []):
                self.guards.append(({"k": "Catch", "caught": h.get("caught"), "line": h["line"], "id": -h["id"]}, True))
                self.stmt(h.get("body"))
                self.guards.pop()
        elif k == "ReturnStmt":
            g, l = self._ctx()
            self.returns.append((s, g, l))
            for c in s.get("c", []):
                self._loads(c)
        elif k in ("BreakStmt", "ContinueStmt", "NullStmt", "GotoStmt", "LabelStmt"):
            if k == "LabelStmt":
                for c in s.get("c", []):
                    self.stmt(c)
        elif k in ("CaseStmt", "DefaultStmt"):
            self.stmt(s.get("sub"))
        else:
            self.expr_stmt(s)

    def _container_elem(self, it_node, which):
        """it_node is X.begin() / X.end() (which = 'begin'/'end') -> (element k_ of X as expression, size expression) or None"""
        c = A.strip(it_node)
        while c.get("k") in ("CXXConstructExpr", "MaterializeTemporaryExpr", "CXXBindTemporaryExpr", "CXXFunctionalCastExpr") and len(c.get("args", c.get("c", []))) == 1:
            c = A.strip((c.get("args") or c.get("c"))[0])
        if c.get("k") != "CXXMemberCallExpr" or (c.get("callee") or "").split("::")[-1] not in (which, "c" + which):
            return None
        obj = A.call_object(c)
        if obj is None:
            return None
        o = A.strip(obj, casts=False)
        if o.get("k") in ("ArraySubscriptExpr",) or (o.get("k") == "CXXOperatorCallExpr" and o.get("op") == "[]"):
            base, idx = self._subscript_chain(o)
            if base is None:
                return None
            return sp.Indexed(sp.IndexedBase(base), *(list(idx) + [K_])), SIZE(sp.Indexed(sp.IndexedBase(base), *idx))
        d_ = A.declref(o)
        if d_ is not None and d_.get("decl") in self.tr.env and d_["decl"] in self.locals and isinstance(self.tr.env[d_["decl"]], sp.Indexed):
            row = self.tr.env[d_["decl"]]          # a local that stands for a row of an array (const auto column = _data[n][x]): that row
            return sp.Indexed(row.base, *(list(row.indices) + [K_])), SIZE(row)
        nm = A.this_field(o) or (A.declref(o) or {}).get("name")
        if nm is None and o.get("k") == "MemberExpr":
            nm = A.show(o).replace(" ", "").replace("->", ".")        # a container member of another object: rhs._data
        if nm is None:
            return None
        return sp.Indexed(sp.IndexedBase(nm), K_), SIZE(sp.Symbol(nm, real=True))

    def _iter_pos(self, node):
        """iterator expression -> (container text, position): X.begin() is 0, X.end() is size(X), a loop iterator over X is its index"""
        n = A.strip(node)
        while n.get("k") in ("CXXConstructExpr", "MaterializeTemporaryExpr", "CXXBindTemporaryExpr", "CXXFunctionalCastExpr") and len(n.get("args", n.get("c", []))) == 1:
            n = A.strip((n.get("args") or n.get("c"))[0])
        d = A.declref(n)
        if d is not None and d.get("decl") in self.iter_alias:
            b_, i_ = self.iter_alias[d["decl"]]
            if len(i_) == 1:
                return b_, i_[0]
            return None
        b = self._container_elem(n, "begin")
        if b is not None and len(b[0].indices) == 1:
            return str(b[0].base), sp.Integer(0)
        e = self._container_elem(n, "end")
        if e is not None and len(e[0].indices) == 1:
            return str(e[0].base), e[1]
        return None

    def _sum_of_algorithm(self, n):
        a = n["args"]
        b0 = self._container_elem(a[0], "begin")
        e0 = self._container_elem(a[1], "end")
        if b0 is None or e0 is None or b0[0] != e0[0]:
            return None
        try:
            init = self.tr.conv(a[-1])
        except Unconvertible:
            return None
        if n["callee"] == "std::accumulate" and len(a) == 3:
            return init + SUM(b0[0], 0, b0[1])
        if n["callee"] == "std::inner_product" and len(a) == 4:
            b1 = self._container_elem(a[2], "begin")
            if b1 is None:
                return None
            return init + SUM(b0[0] * b1[0], 0, b0[1])
        return None

    def _accumulators(self, L, mark, range_container=None):
        """after a loop: a scalar local declared before the loop, whose only write in the loop is `acc = acc + t` / `acc += t`
        (unconditional, directly in this loop), holds init + SUM(t) afterwards"""
        if L.sym is None:
            return
        acc = self.accesses[mark[0]:]
        names = {}
        for a in acc:
            if a.kind == "store" and a.idx is None and not a.path:
                names.setdefault(a.base, []).append(a)
        for nm, sts in names.items():
            if len(sts) != 1:
                continue
            st = sts[0]
            lhs = st.base_node if st.base_node is not None else None
            d = A.declref(lhs) if lhs is not None else None
            if d is None or d["decl"] not in self.locals or d["decl"] in self.ref_alias:
                continue
            if self.assigned.get(d["decl"], 0) != 1:
                continue        # written elsewhere too: its value after the loop is not the plain sum
            if st.loops[-1:] != [L] or len(st.guards) != len(self.guards) or st.value is None:
                continue
            me = sp.Symbol(nm, real=True)
            if st.op == "+=":
                term = st.value
            elif st.op == "=" and sp.expand(st.value - me).has(me) is False and st.value.has(me):
                term = sp.expand(st.value - me)
            else:
                continue
            if term.has(me):
                continue
            # value before the loop: the initialiser, provided nothing else wrote the variable before the loop
            before = [a for a in self.accesses[:mark[0]] if a.kind == "store" and a.idx is None and a.base == nm]
            if len(before) != 1 or before[0].value is None or before[0].loops != self.loops:
                continue        # (initialised outside an enclosing loop: the sum carries over from one outer iteration to the next)
            if L.cmp == "range":
                if range_container is None:
                    continue
                elem, size = range_container
                t2 = term.subs(L.sym, elem)
                for it_decl, cont in self._par_iters.get(id(L), {}).items():
                    t2 = t2.subs(sp.Symbol("*" + self.locals[it_decl]["name"], real=True), cont)
                if t2.has(L.sym):
                    continue
                val = before[0].value + SUM(t2, 0, size)
            else:
                if L.lo is None or L.hi is None or L.cmp != "<" or L.step != 1:
                    continue
                val = before[0].value + SUM(term.subs(L.sym, K_), L.lo, L.hi)
            self.tr.bind(d["decl"], val)

    def _iter_for(self, s):
        """for (auto it = X.begin(); it != X.end() | X.begin()+n | <local bound to one of these>; ++it): a counted loop over X"""
        init, cond, inc = s.get("init"), s.get("cond"), s.get("inc")
        if not init or not cond or not inc or init.get("k") != "DeclStmt" or len(init.get("decls", [])) != 1 or "init" not in init["decls"][0]:
            return None
        var = init["decls"][0]
        ce = self._container_elem(var["init"], "begin")
        if ce is None:
            return None
        c = A.strip(cond)
        ops = c.get("args") if c.get("k") == "CXXOperatorCallExpr" else (c.get("c") if c.get("k") == "BinaryOperator" else None)
        if not ops or c.get("op") != "!=" or len(ops) != 2:
            return None
        l = A.declref(ops[0])
        if l is None or l.get("decl") != var["decl"]:
            return None
        e = A.strip(ops[1])
        ed = A.declref(e)
        hops = 0
        while ed is not None and ed.get("decl") in self.locals and "init" in self.locals[ed["decl"]] and self.assigned.get(ed["decl"], 0) == 0 and hops < 3:
            e = A.strip(self.locals[ed["decl"]]["init"])
            while e.get("k") in ("CXXConstructExpr", "MaterializeTemporaryExpr", "CXXBindTemporaryExpr", "ExprWithCleanups") and len(e.get("args", e.get("c", []))) == 1:
                e = A.strip((e.get("args") or e.get("c"))[0])
            ed = A.declref(e)
            hops += 1
        hi = None
        hi_node = e
        end = self._container_elem(e, "end")
        if end is not None and end[0] == ce[0]:
            hi = ce[1]
        else:
            pl = e.get("args") if e.get("k") == "CXXOperatorCallExpr" else (e.get("c") if e.get("k") == "BinaryOperator" else None)
            if pl and e.get("op") == "+" and len(pl) == 2:
                b0 = self._container_elem(pl[0], "begin")
                if b0 is not None and b0[0] == ce[0]:
                    hi = self._try(pl[1])
                    hi_node = pl[1]
        if hi is None:
            return None
        i = A.strip(inc, casts=False)
        tgt = None
        if i.get("k") == "UnaryOperator" and i.get("op") == "++":
            tgt = A.declref(i["c"][0])
        if i.get("k") == "CXXOperatorCallExpr" and i.get("op") == "++" and i.get("args"):
            tgt = A.declref(i["args"][0])
        if tgt is None or tgt.get("decl") != var["decl"]:
            return None
        return dict(decl=var["decl"], name=var["name"], var=var, elem=ce[0], hi=hi, hi_node=hi_node)

    def _parallel_iterators(self, L, body):
        """an iterator local `auto w = Y.begin();` advanced by `++w;` as the last statement of a range-for body walks Y in step with
        the loop: inside the body *w is Y[k_]"""
        self.__dict__.setdefault("_par_iters", {})
        out = {}
        if body is None or body.get("k") != "CompoundStmt" or not body.get("c"):
            self._par_iters[id(L)] = out
            return
        last = A.strip(body["c"][-1], casts=False)
        tgt = None
        if last.get("k") == "UnaryOperator" and last.get("op") == "++":
            tgt = A.declref(last["c"][0])
        if last.get("k") == "CXXOperatorCallExpr" and last.get("op") == "++" and last.get("args"):
            tgt = A.declref(last["args"][0])
        if tgt is not None and tgt.get("decl") in self.locals and "init" in self.locals[tgt["decl"]]:
            ce = self._container_elem(self.locals[tgt["decl"]]["init"], "begin")
            writes = 0
            for x in A.walk(body):
                if x.get("k") in ("UnaryOperator", "CXXOperatorCallExpr") and x.get("op") in ("++", "--", "=", "+=", "-="):
                    t_ = A.declref((x.get("c") or x.get("args") or [None])[0]) if (x.get("c") or x.get("args")) else None
                    if t_ is not None and t_.get("decl") == tgt["decl"]:
                        writes += 1
            if ce is not None and writes == 1:
                out[tgt["decl"]] = ce[0]
        self._par_iters[id(L)] = out

    def _ptr_of(self, acc):
        """pointer expression that denotes element 0 of the array an access goes to (as the translator would spell `p` / `v.data()`)"""
        n = acc.base_node if acc.kind == "store" else acc.node
        cur = n
        while cur is not None:
            c = A.strip(cur, casts=False)
            if c["k"] == "ArraySubscriptExpr":
                cur = c["c"][0]
            elif c["k"] == "CXXOperatorCallExpr" and c.get("op") == "[]":
                cur = c["args"][0]
            else:
                break
        if cur is None:
            return None
        b = A.strip(cur)
        ty = (b.get("ctype") or "")
        d_ = A.declref(b)
        if d_ is not None and d_.get("decl") in self.ptr_alias:
            # the access was already re-based onto the array the pointer points into (its index carries the pointer's offset)
            bname = self.ptr_alias[d_["decl"]][0]
            for dd, loc in self.locals.items():
                if loc.get("name") == bname:
                    if dd in self.tr.env and _is_ptr(loc.get("ctype") or loc.get("type")):
                        return self.tr.env[dd]          # a pointer local that holds an accessor's result: name the accessor call
                    if any(t_ in (loc.get("ctype") or "") for t_ in ("std::vector", "std::array")):
                        return sp.Function("data")(sp.Symbol(bname, real=True))
            return sp.Symbol(bname, real=True)
        v = self._try(b)
        if v is None:
            v = sp.Symbol(A.show(b).replace(" ", ""), real=True)
        if "std::vector" in ty or "std::array" in ty or "multi_array" in ty:
            return sp.Function("data")(v)
        return v

    def _bulk_from_loop(self, L, mark, body):
        """`for (i = lo; i < hi; i++) dst[a+i] = src[b+i];` is std::copy_n(src+b+lo, hi-lo, dst+a+lo) (likewise fill_n): record the
        equivalent call so that rules see one form for both spellings"""
        if L.sym is None or L.lo is None or L.hi is None or L.cmp != "<" or L.step != 1:
            return
        acc = self.accesses[mark[0]:]
        calls = self.calls[mark[1]:]
        stores = [a for a in acc if a.kind == "store" and not (a.idx is None and a.base in [d_.get("name") for d_ in self.locals.values()])]
        if len(stores) != 1 or calls:
            return
        st = stores[0]
        if st.idx is None or len(st.idx) != 1 or st.op != "=" or st.path or st.value is None or st.loops[-1:] != [L] or len(st.guards) != len(self.guards):
            return
        di = sp.expand(st.idx[0])
        if sp.expand(di.coeff(L.sym, 1) - 1) != 0 or sp.expand(di - L.sym).has(L.sym):
            return
        # statements of the body: only declarations of single-use locals and the store itself
        n_stmts = [x for x in (body.get("c", []) if body and body.get("k") == "CompoundStmt" else [body]) if x is not None and x.get("k") not in ("NullStmt",)]
        if any(x.get("k") not in ("DeclStmt",) and A.strip(x, casts=False).get("id") != st.node.get("id") for x in n_stmts):
            return
        dptr = self._ptr_of(st)
        if dptr is None:
            return
        dst = sp.expand(dptr + (di - L.sym) + L.lo)
        length = sp.expand(L.hi - L.lo)
        g, l = self._ctx()
        v = st.value
        if isinstance(v, sp.Indexed) and len(v.indices) == 1 and sp.expand(sp.expand(v.indices[0]).coeff(L.sym, 1) - 1) == 0:
            loads = [a for a in acc if a.kind == "load" and a.idx is not None and len(a.idx) == 1 and a.base == str(v.base) and sp.expand(a.idx[0] - v.indices[0]) == 0]
            if not loads:
                return
            sptr = self._ptr_of(loads[0])
            if sptr is None:
                return
            src = sp.expand(sptr + (sp.expand(v.indices[0]) - L.sym) + L.lo)
            c = Call("std::copy_n", L.node, [src, length, dst], [None, None, None], None, st.line, g, l, "std::copy_n(loop)")
            c.synth = True
            st.bulk = c
            self.calls.append(c)
        elif not v.has(L.sym):
            c = Call("std::fill_n", L.node, [dst, length, v], [None, None, None], None, st.line, g, l, "std::fill_n(loop)")
            c.synth = True
            st.bulk = c
            self.calls.append(c)

    def _eq_const(self, cond):
        c = A.strip(cond)
        if c.get("k") != "BinaryOperator" or c.get("op") != "==":
            return None
        l, r = A.strip(c["c"][0]), A.strip(c["c"][1])

        def const_of(n_):
            if n_.get("k") == "DeclRefExpr" and n_.get("dkind") == "EnumConstant":
                return n_.get("enumval")
            return None
        for e_, k_ in ((l, r), (r, l)):
            v = const_of(k_)
            if v is not None and const_of(e_) is None and ("enum" in (e_.get("ctype") or "") or "::" in (e_.get("type") or "")):
                return e_, v
        # a plain integer variable compared with a literal (if (rank == 3) ... else if (rank == 4) ...): the same selection as a switch
        for e_, k_ in ((l, r), (r, l)):
            if k_.get("k") == "IntegerLiteral" and e_.get("k") == "DeclRefExpr" and e_.get("dkind") in ("Var", "ParmVar") and \
                    (e_.get("ctype") or "").replace("const ", "") in ("int", "unsigned int", "long", "unsigned long", "short", "unsigned char", "signed char", "char"):
                return e_, k_.get("value")
        return None

    BUNCH_COUNTS = ("PhaseSpace_nb", "_nbunches", "nb")

    def _loop_name(self, name, lo, hi, cmp):
        """the loop over all bunches is called n whatever its variable is called in the source (the rules speak of 'the bunch loop')"""
        if lo == 0 and cmp == "<" and hi is not None and str(hi) in self.BUNCH_COUNTS:
            if name != "n" and not any(L.name == "n" for L in self.loops):
                return "n"
        return name

    def _track(self, dr, op, val, idx):
        """value of a scalar local after this write: exact on the straight line of its declaration, ite(c, new, old) under one
        extra plain condition, unknown otherwise (deeper loops, several conditions); reads after the write see that value"""
        if dr is None or idx is not None or dr.get("decl") not in self.cur:
            return
        decl = dr["decl"]
        old, g0, l0 = self.cur[decl]
        new = None
        if old is not None or op == "=":
            if val is not None:
                me = old
                try:
                    new = {"=": lambda: val, "+=": lambda: me + val, "-=": lambda: me - val, "*=": lambda: me * val, "/=": lambda: me / val}.get(op, lambda: None)()
                except Exception:
                    new = None
        extra = self.guards[g0:]
        res = None
        if new is not None and len(self.loops) == l0 and len(self.guards) >= g0:
            if not extra:
                res = new
            elif len(extra) == 1 and old is not None and isinstance(extra[0][0], dict) and extra[0][0].get("k") not in ("SwitchCase", "Catch"):
                c, pol = extra[0]
                cs = sp.Symbol("(" + A.show(A.strip(c)) + ")")
                res = sp.Function("ite")(cs, new, old) if pol else sp.Function("ite")(cs, old, new)
        self.cur[decl] = (res, g0, l0)
        if res is not None:
            self.tr.bind(decl, res)
        else:
            self.tr.env.pop(decl, None)

    def _guard(self, cond, pol):
        """(condition, polarity) with leading negations folded into the polarity: `!(c)` under True is `c` under False"""
        c = cond
        hops = 0
        while True:
            t = A.strip(c) if isinstance(c, dict) else c
            if isinstance(t, dict) and t.get("k") == "DeclRefExpr" and t.get("decl") in self.locals and hops < 4:
                # a condition given a name (const bool apply = (x > 0);) stands for its initialiser
                d_ = self.locals[t["decl"]]
                if "init" in d_ and self.assigned.get(t["decl"], 0) == 0 and (d_.get("ctype") or d_.get("type") or "").replace("const ", "").strip() in ("bool", "_Bool"):
                    c = d_["init"]
                    hops += 1
                    continue
            if isinstance(t, dict) and t.get("k") == "UnaryOperator" and t.get("op") == "!" and t.get("c"):
                c = t["c"][0]
                pol = not pol
                continue
            if isinstance(t, dict) and t.get("k") == "BinaryOperator" and t.get("op") == "==" and len(t.get("c", [])) == 2 and \
                    any(A.strip(x_).get("k") in ("CXXNullPtrLiteralExpr", "GNUNullExpr") for x_ in t["c"]):
                # `p == nullptr` under P is `p != nullptr` under !P: one spelling for null tests
                t2 = dict(t)
                t2["op"] = "!="
                c = t2
                pol = not pol
            if isinstance(t, dict) and t.get("k") == "BinaryOperator" and not pol and len(t.get("c", [])) == 2 and t.get("op") in ("==", "!=", "<", ">", "<=", ">=") and \
                    not any(A.strip(x_).get("k") in ("CXXNullPtrLiteralExpr", "GNUNullExpr") for x_ in t["c"]) and \
                    not any("float" in (A.strip(x_).get("ctype") or "") or "double" in (A.strip(x_).get("ctype") or "") for x_ in t["c"]):
                # a comparison that is known to be false is its complement known to be true (integers only: NaN breaks this for floats)
                t2 = dict(t)
                t2["op"] = {"==": "!=", "!=": "==", "<": ">=", ">": "<=", "<=": ">", ">=": "<"}[t["op"]]
                c = t2
                pol = True
            break
        return (c, pol)


    def _always_exits(self, st):
        """does control never fall out of the end of statement st (continue / break / return / throw at its end)?"""
        if st is None:
            return False
        k = st.get("k")
        if k in ("ContinueStmt", "BreakStmt", "ReturnStmt", "CXXThrowExpr"):
            return True
        if k == "ExprWithCleanups" and st.get("c"):
            return self._always_exits(st["c"][0])
        if k == "CompoundStmt":
            c = st.get("c", [])
            return bool(c) and self._always_exits(c[-1])
        if k == "IfStmt":
            return bool(st.get("else")) and self._always_exits(st.get("then")) and self._always_exits(st.get("else"))
        return False

    def _compound(self, stmts):
        """statements of one block; after `if (c) { ...; continue/return; }` the rest of the block runs under !c"""
        pushed = 0
        for c in stmts:
            self.stmt(c)
            if c.get("k") == "IfStmt" and not c.get("init"):
                if not c.get("else") and self._always_exits(c.get("then")):
                    self.guards.append(self._guard(c["cond"], False)); pushed += 1
                elif c.get("else") and self._always_exits(c.get("then")) and not self._always_exits(c.get("else")):
                    self.guards.append(self._guard(c["cond"], False)); pushed += 1
                elif c.get("else") and self._always_exits(c.get("else")) and not self._always_exits(c.get("then")):
                    self.guards.append(self._guard(c["cond"], True)); pushed += 1
        for _ in range(pushed):
            self.guards.pop()

    def _while_header(self, s):
        """`T i = lo; ... while (i < hi) { body; ++i; }` with i written nowhere else and no continue: a counted loop"""
        cond = A.strip(s.get("cond") or {})
        if cond.get("k") != "BinaryOperator" or cond.get("op") not in ("<", "<=", "!="):
            return None
        d = A.declref(cond["c"][0])
        if d is None or d["decl"] not in self.locals or "init" not in self.locals[d["decl"]]:
            return None
        body = s.get("body")
        if body is None or body.get("k") != "CompoundStmt" or not body.get("c"):
            return None
        last = A.strip(body["c"][-1], casts=False)
        inc = False
        if last.get("k") == "UnaryOperator" and last.get("op") == "++" and (A.declref(last["c"][0]) or {}).get("decl") == d["decl"]:
            inc = True
        if last.get("k") == "CompoundAssignOperator" and last.get("op") == "+=" and (A.declref(last["c"][0]) or {}).get("decl") == d["decl"] and \
                A.strip(last["c"][1]).get("value") == 1:
            inc = True
        if not inc or self.assigned.get(d["decl"], 0) != 1:
            return None
        for x in A.walk(body):
            if x.get("k") == "ContinueStmt":
                return None
        # the bound must not change in the body
        hd = A.declref(cond["c"][1])
        if hd is not None and hd.get("local", True) and self.assigned.get(hd["decl"], 0) > 0:
            return None
        lo = None
        key = ("while-lo", s["id"])
        if key not in self.__dict__.setdefault("_memo", {}):
            self._memo[key] = self._try(self.locals[d["decl"]]["init"])
        lo = self._memo[key]
        if lo is None:
            return None
        return dict(name=d["name"], decl=d["decl"], lo=lo, hi=cond["c"][1], cmp=cond["op"], body=body["c"][:-1])

    def run(self):
        _ACTIVE.append(self)
        try:
            return self._run()
        finally:
            _ACTIVE.pop()

    def _run(self):
        for i in self.fn.get("inits", []):
            if isinstance(i.get("expr"), dict):
                self._loads(i["expr"])
                g, l = self._ctx()
                if i.get("ikind") == "member":
                    self.accesses.append(Access("store", i["target"], None, "", i["expr"], i["line"], g, l, "=",
                                                self._try(i["expr"]), i["expr"], None))
        self.stmt(self.fn.get("body"))
        return self


def scan(fn, hooks=(), bind_params=None):
    return Scanner(fn, hooks, bind_params).run()


def plain_guards(guards):
    """guards with `if (e == CONST)` given back as the plain condition (for rules that read conditions rather than case labels)"""
    out = []
    for g, pol in guards:
        if isinstance(g, dict) and g.get("k") == "SwitchCase" and g.get("from_if") is not None:
            out.append((A.strip(g["from_if"]), pol))
        else:
            out.append((g, pol))
    return out


def guard_text(guards):
    out = []
    for g, pol in plain_guards(guards):
        if g is None:
            continue
        if g.get("k") == "SwitchCase":
            out.append("%s in %s" % (A.show(g["cond"]), g["labels"]))
        elif g.get("k") == "Catch":
            out.append("catch(%s)" % g["caught"])
        else:
            out.append(("" if pol else "!") + "(" + A.show(g) + ")")
    return " && ".join(out)


def _through_scalar_accumulators(accesses, base, path=""):
    """`x = 0; x += t; x /= d; a[i] = x;` is the same computation as `a[i] = 0; a[i] += t; a[i] /= d;`: where an element of `base` is
    assigned the bare value of a scalar local, the stores that built that local since the previous such hand-over (program order) are
    re-read as stores to that element.  Returns the access list with those stores in place of the hand-over."""
    scal = [a for a in accesses if a.kind == "store" and a.idx is None and a.value is not None]
    out = []
    for a in accesses:
        if a.kind == "store" and a.base == base and a.path == path and a.idx is not None and a.op == "=" and a.value is not None and a.value.is_Symbol:
            hname = str(a.value)
            built = [b for b in scal if b.base == hname and b.seq < a.seq]
            if built:
                # only the stores since the local was last re-initialised with a plain `=` outside the innermost common loops
                start = max([i for i, b in enumerate(built) if b.op == "=" and len(b.loops) <= len(a.loops)] or [0])
                for b in built[start:]:
                    c = Access("store", base, a.idx, path, b.node, b.line, a.guards if len(b.guards) <= len(a.guards) else b.guards, b.loops if len(b.loops) >= len(a.loops) else a.loops,
                               op=b.op, value=b.value, value_node=b.value_node, base_node=a.base_node)
                    c.seq = b.seq
                    out.append(c)
                continue
        out.append(a)
    return out


def fold_stores(accesses, base, path=""):
    """Fold the sequence of stores to `base[...]` (same index expression, program order) into one
    expression per (index, guard context).  `+=`/`-=`/`*=`/`/=` refer to the value folded so far; a compound
    store with no preceding plain store refers to Symbol('old').  Returns list of dict(idx, guards, loops, value, line)."""
    out = []
    accesses = _through_scalar_accumulators(accesses, base, path)
    for a in accesses:
        if a.kind != "store" or a.base != base or a.path != path or a.idx is None:
            continue
        key = (tuple(a.idx), tuple((id(g), p) for g, p in a.guards))
        cur = next((o for o in out if o["key"] == key), None)
        if a.value is None:
            raise AnalysisBroken("store to %s at line %d is not translatable" % (base, a.line))
        if a.op == "=":
            if cur is None:
                cur = {"key": key, "idx": a.idx, "guards": a.guards, "loops": a.loops, "value": a.value, "line": a.line}
                out.append(cur)
            else:
                cur["value"] = a.value
        else:
            if cur is None:
                cur = {"key": key, "idx": a.idx, "guards": a.guards, "loops": a.loops, "value": sp.Symbol("old"), "line": a.line}
                out.append(cur)
            v = cur["value"]
            cur["value"] = {"+=": v + a.value, "-=": v - a.value, "*=": v * a.value, "/=": v / a.value}[a.op]
    return out


def copies(scan):
    """std::copy(first, last, dst) and std::copy_n(first, n, dst) (and loops recognised as such) in one form:
    list of dict(src, length, dst, call)"""
    out = []
    for c in scan.calls:
        if c.callee == "std::copy_n" and len(c.args) == 3 and None not in c.args:
            out.append(dict(src=c.args[0], length=c.args[1], dst=c.args[2], call=c))
        elif c.callee == "std::copy" and len(c.args) == 3 and None not in c.args:
            out.append(dict(src=c.args[0], length=sp.expand(c.args[1] - c.args[0]), dst=c.args[2], call=c))
    return out


_COMPL = {"==": "!=", "!=": "==", "<": ">=", ">=": "<", ">": "<=", "<=": ">"}


def guards_complementary(a, b):
    """do two (condition, polarity) guards exclude each other and cover all cases?  (c, True) vs (c, False), or two comparisons of
    the same operands with complementary operators under the same polarity"""
    (g1, p1), (g2, p2) = a, b
    if not isinstance(g1, dict) or not isinstance(g2, dict):
        return False
    t1, t2 = A.strip(g1), A.strip(g2)
    s1, s2 = A.show(t1).replace(" ", ""), A.show(t2).replace(" ", "")
    if s1 == s2:
        return p1 != p2
    if t1.get("k") == "BinaryOperator" and t2.get("k") == "BinaryOperator" and len(t1.get("c", [])) == 2 and len(t2.get("c", [])) == 2:
        same_ops = A.show(t1["c"][0]).replace(" ", "") == A.show(t2["c"][0]).replace(" ", "") and A.show(t1["c"][1]).replace(" ", "") == A.show(t2["c"][1]).replace(" ", "")
        if same_ops and _COMPL.get(t1.get("op")) == t2.get("op"):
            return p1 == p2
    return False
